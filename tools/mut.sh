#!/bin/sh
# usage: tools/mut.sh <Cxx> <tier> <file-relative-to-py34/bacpypes> <old> <new> [--only X]
# applies one textual replacement to a scratch copy of the tree and runs the check on it
P=$1; T=$2; F=$3; OLD=$4; NEW=$5; shift 5
D=/var/tmp/mut_$$
mkdir -p $D && cp -r "${VERIF_BASE:-/repo}/py34" $D/py34 || exit 2
python3 - "$D/py34/bacpypes/$F" "$OLD" "$NEW" <<'PY' || { rm -rf $D; exit 2; }
import sys
p, old, new = sys.argv[1:4]
s = open(p).read()
if s.count(old) < 1:
    print("pattern not found"); sys.exit(1)
s = s.replace(old, new, 1)
open(p, 'w').write(s)
PY
cd /verif && VERIF_REPO=$D ./check $P $T "$@" | grep -v "discharged" | tail -12
rm -rf $D
