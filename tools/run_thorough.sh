#!/bin/sh
# run every thorough check end to end, one property after the other; logs in runs/thorough/
# usage: tools/run_thorough.sh [Cxx ...]   (default: every claimed property)
cd "$(dirname "$0")/.." || exit 2
mkdir -p runs/thorough
props="$*"
[ -n "$props" ] || props=$(python3 -c "import json;print(' '.join(c['property_id'] for c in json.load(open('MANIFEST.json'))['checks']))")
rc=0
for p in $props; do
    start=$(date +%s)
    ./check "$p" thorough > "runs/thorough/$p.log" 2>&1
    e=$?
    echo "$p exit=$e wall=$(( $(date +%s) - start ))s $(grep "^$p thorough:" runs/thorough/$p.log | tail -1)"
    [ $e -eq 0 ] || rc=$e
done
exit $rc
