#!/usr/bin/env python3
"""Write vf/promote.json: thorough-tier obligations that the last complete thorough run (runs/thorough/<id>.json) discharged in
less than LIMIT CPU seconds and that the quick tier does not have.  ./check <id> quick runs them too (vf/run.py): the quick tier
is what runs on every change, so everything cheap belongs in it.  Regenerate after a thorough pass:

    python3-vt tools/mkpromote.py
"""
import glob
import importlib
import json
import os
import sys

VERIF = os.path.dirname(os.path.dirname(os.path.abspath(__file__)))
sys.path.insert(0, VERIF)
LIMIT = 15.0


def main():
    os.environ.setdefault("VERIF_REPO", "/repo")
    from vf.api import repo_setup
    repo_setup()
    out = {}
    for f in sorted(glob.glob(os.path.join(VERIF, "runs", "thorough", "C*.json"))):
        e = json.load(open(f))
        pid = e["property_id"]
        m = importlib.import_module("vf.harness." + pid)
        quick = set(i.ident for i in m.instances("quick"))
        thorough = set(i.ident for i in m.instances("thorough"))
        names = [h["harness"] for h in e["coverage"]["per_harness"]
                 if h["harness"] not in quick and h["harness"] in thorough
                 and (h.get("cpu_s") if h.get("cpu_s") is not None else 1e9) < LIMIT
                 and str(h.get("status", "")).startswith("discharged")]
        if names:
            out[pid] = sorted(names)
        print(pid, len(names))
    with open(os.path.join(VERIF, "vf", "promote.json"), "w") as fh:
        json.dump(out, fh, indent=1)


if __name__ == "__main__":
    main()
