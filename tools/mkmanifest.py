#!/usr/bin/env python3
"""Regenerates /verif/MANIFEST.json from the table below and validates it (and any
evidence files present) against the schemas in /root/.vp."""
import json
import os
import sys

VERIF = os.path.dirname(os.path.dirname(os.path.abspath(__file__)))

SX = "bounded symbolic execution of the real py34/bacpypes code (CrossHair state-space engine + z3), path-exhaustive within stated bounds; counterexamples replayed under plain CPython"

# id -> (design section, technique, level text, level note)
CLAIMED = {
    "C07": ("6/C07",
            SX + "; differential against a clause-20.1 reference layout",
            "For each of the eight APDU types every header field is a z3 variable; the solver shows on every path that "
            "the emitted octets equal the clause-20.1 layout and that decoding restores every field and the payload; "
            "every octet string up to the bound is decoded totally (header or DecodingError, fixed point on re-encode); "
            "the two code tables are checked for every capability value in range. Universal inside the bounds, nothing outside.",
            "Trusted: CrossHair's symbolic int/bytes models, z3, the hand-written reference layout; payload length bound 2/4, octet strings <= 5/8."),
}

NOT_YET = {}


def main():
    props = [json.loads(l) for l in open(os.path.join(VERIF, "properties.jsonl"))]
    checks = []
    na = []
    for p in props:
        pid = p["id"]
        if pid in CLAIMED:
            ref, tech, text, note = CLAIMED[pid]
            checks.append({
                "property_id": pid,
                "quick_cmd": "./check %s quick" % pid,
                "thorough_cmd": "./check %s thorough" % pid,
                "evidence_file": "evidence/%s.json" % pid,
                "replay_cmd_template": "./check --replay {path}",
                "engine": "sx",
                "level_claimed": {"category": "other", "text": text, "design_ref": "DESIGN.md section " + ref},
                "level_note": note,
                "technique": tech,
            })
        else:
            na.append({"property_id": pid,
                       "reason": NOT_YET.get(pid, "check not built yet (work in progress; see DESIGN.md section 6 for the plan)")})
    m = {
        "version": 1,
        "setup_cmd": "./check --env",
        "hooks": {
            "guard": "BACPYPES_VERIF",
            "enable": "no source hooks: checks import /repo/py34 from the working tree (PYTHONPATH) and install their stubs from the harness side",
            "baseline_off_cmd": "cd /repo && /venv/bin/python -m pytest -ra -q -p no:cacheprovider --timeout=900 --continue-on-collection-errors",
            "source_commits": [],
            "add_only": True,
        },
        "engines": [
            {"name": "sx", "path": "vf/sx.py", "serves_properties": sorted(CLAIMED),
             "kind_free_text": "path-exhaustive symbolic execution of the real Python code on z3-backed values (CrossHair 0.0.110 library layer, own driver)"},
        ],
        "checks": checks,
        "not_applicable": na,
        "notes": "Exit codes of ./check: 0 nothing violated (inconclusive obligations are listed in evidence, never counted as discharged); "
                 "1 reproducible violation (VIOLATION line); 3 harness error. VERIF_REPO selects the tree (default /repo).",
    }
    with open(os.path.join(VERIF, "MANIFEST.json"), "w") as f:
        json.dump(m, f, indent=1)
    try:
        import jsonschema
    except ImportError:
        print("jsonschema not available; not validated")
        return 0
    schema = json.load(open("/root/.vp/MANIFEST.schema.json"))
    jsonschema.validate(m, schema)
    es = json.load(open("/root/.vp/EVIDENCE.schema.json"))
    for c in checks:
        p = os.path.join(VERIF, c["evidence_file"])
        if os.path.exists(p):
            jsonschema.validate(json.load(open(p)), es)
            print("evidence ok:", c["evidence_file"])
    print("MANIFEST ok: %d checks, %d not applicable" % (len(checks), len(na)))
    return 0


if __name__ == "__main__":
    sys.exit(main())
