#!/usr/bin/env python3
"""Regenerates /verif/MANIFEST.json from the table below and validates it (and any
evidence files present) against the schemas in /root/.vp."""
import json
import os
import sys

VERIF = os.path.dirname(os.path.dirname(os.path.abspath(__file__)))

SX = "bounded symbolic execution of the real py34/bacpypes code (CrossHair state-space engine + z3), path-exhaustive within stated bounds; counterexamples replayed under plain CPython"

# id -> (design section, technique, level text, level note)
SCN = ("bounded symbolic execution of the real py34/bacpypes stacks (application - ASAP - SMAP - NSAP - vlan) on a virtual clock driving the "
       "real core.run/TaskManager, CrossHair state-space engine + z3: every fault placement / configuration choice inside the stated "
       "bounds is a solver-explored path and every payload octet a z3 variable; counterexamples replayed under plain CPython")

CLAIMED = {
    "C01": ("6/C01", SX + "; octets compared with an independent clause 20.2 reference encoder",
            "Every primitive class through constructor - encode - (app_to_context) - Tag.encode - octets - decode in both tagging modes with a "
            "symbolic context number: integers symbolic over [-2^71, 2^71] (out-of-range values inside the domain: refused or round-tripped, "
            "never altered), all 2^32 object-identifier words, every enumeration name and every undefined number per encoded length, bit "
            "strings (every pattern to length 10/14, one-hot to 64), date/time octets, octet strings and character strings with symbolic "
            "content; the solver decides equality with the canonical reference octets on every path. Real/Double with concrete representative "
            "values only (bit-exact), IEEE rounding is not claimed.",
            "Trusted: CrossHair symbolic int/bytes/str models (UTF-8 model excludes surrogates: checked concretely), z3, the reference "
            "encoder vf/ref/C01_ref.py; strings longer than the bounds and symbolic floats are outside."),
    "C13": ("6/C13", SCN.replace("stacks (application - ASAP - SMAP - NSAP - vlan)", "B/IP layers (BIPSimple, BIPForeign, BIPBBMD, AnnexJCodec) on vlan.IPNetwork/IPRouter"),
            "Layouts of 1..3 subnets with one BBMD each (full tables, two-hop and one-hop distribution), simple nodes and foreign devices: "
            "for every originator (symbolic) and symbolic payload every other node's network layer receives the broadcast exactly once with "
            "the true originator as source, the originator never. One BBMD + foreign device on the virtual clock with symbolic TTL and a "
            "symbolic whole-second observation instant up to TTL + 30 + 6: served and listed (Read-FDT over the wire) for at least the TTL, "
            "neither after TTL + grace without renewal, always with renewal, deletion takes effect at once, unregistration within grace; the "
            "device's own registration status follows. Three foreign devices at one BBMD: deleting or unregistering one leaves exactly the others; "
            "entries age next to one another with the grace the BBMD itself lists (looked at between two sweeps); a foreign device that lives on "
            "the subnet of one BBMD and is registered with another.",
            "Trusted: as C04 plus the UDP multiplexer shim (as tests/test_bvll FauxMultiplexer) and inet stand-ins; TTL <= 2 (8) with every instant, "
            "TTL 60 / 300 (255, 256) with windows of instants, whole seconds; "
            "partial distribution tables are outside (Annex J promises coverage only for full ones)."),
    "C14": ("6/C14", SX + "; differential against a reference scheduler (sorted list keyed by due time, installation order)",
            "The real TaskManager / core.run / core.run_once on a virtual clock: every operation sequence up to length 3 (quick) / 4 (thorough) "
            "plus longer opcode shapes over {install at t, install after delta, suspend, resume, re-install, advance} with symbolic tasks and "
            "symbolic integer instants 0..8 is compared after every advance with the reference (never early, once per installation, order "
            "among equal times, not after suspend, re-install moves); recurring tasks with symbolic interval/offset/instants fire once per "
            "slot, also when installed or re-installed between 100 ms and 10 us before a slot; tasks 0.4 ms apart never fire early; deferred "
            "batches with every subset of raising / re-deferring members, every kind of callable (function, lambda, bound method, partial, "
            "callable instance) and repeated equal (function, arguments) pairs run each call once in order, also when one of them calls "
            "core.stop(); a task that re-arms itself from its callback and is then moved or cancelled; offsets beyond one interval.",
            "Trusted: as C07 plus vf/world.py (asyncore.loop -> clock advance, trigger stand-in); instants are integers or eighths of a second "
            "so real arithmetic equals binary64; IEEE rounding of the recurring-slot formula for non-representable intervals is not claimed."),
    "C02": ("6/C02", SX + "; differential against a clause 20.2.1 reference (header encoder, liberal one-tag parser/tokenizer, bracket matcher)",
            "Tags of every class with symbolic number 0..254 and symbolic content (lengths 0..8 fully symbolic, and each length escape "
            "252/253/254/255/65535/65536/70000 with symbolic first/last/inner octets) encode to the reference header and round-trip consuming "
            "every octet; tag lists up to 3 (4) tags round-trip; EVERY octet string up to 3 (4, parts of 5) octets is decoded by TagList.decode "
            "to InvalidTag or to a list that re-encodes to a fixed point, a single Tag from every string up to 7 (12) octets against the "
            "reference parser, one-octet mutations of valid streams likewise; get_context / Any.decode against the reference bracket matcher "
            "for every class pattern up to 5..8 (7..10) tags.",
            "Trusted: as C07 plus vf/ref/C02_tags.py. Non-canonical but complete encodings may be accepted or refused (the statement is silent)."),
    "C03": ("6/C03", SX + "; differential against an independent schema-driven reference encoder (ref/asn1_schema.json, 148 of 227 productions audited by hand against clause 21) and 15 re-derived Annex F examples",
            "For all 227 Sequence/Choice classes read from the live modules a schema-driven builder draws presence of every optional, every "
            "alternative, list lengths and leaves (one shared symbolic width class per path): decode(encode(v)) is structurally v, "
            "encode(decode(octets)) == octets, an appended tag or a removed required element is refused, the octets equal the reference "
            "encoder's (which sees a context number changed consistently on both sides), every registry maps each service choice to the class "
            "the schema names, and the Annex F framings are emitted for every slot value and decode to the published parameters.",
            "Trusted: as C01 plus vf/ref/C03_{gen,cmp,enc}.py and the schema JSON: for its 79 unaudited productions the reference is a "
            "regression oracle only; shape bounds: top-level lists 0..1 (0..3), nested <= 2, depth <= 4, first 8 (16) leaves symbolic."),
    "C04": ("6/C04", SCN,
            "Two complete stacks on a fault-injecting virtual LAN: for every placement of the instance's faults (drop, duplicate, reorder, "
            "delay across timeouts, silence from any frame on) over every frame, with symbolic payload octets, the solver-explored paths "
            "show exactly one outcome of a legal kind with the request's invoke ID, delivered within the analytic time bound, and no "
            "transaction, timer, IOCB queue entry or further frame afterwards. Exhaustive inside the per-instance shape bounds "
            "(payload lengths, window sizes, retry counts, one fault in quick / two in thorough); nothing outside. One transition of a real "
            "client / server transaction state machine from a symbolic state under an inductive invariant; IOCB queues and chains of "
            "requests submitted from completion callbacks with symbolic fates. The application giving up on a queued / active / finished IOCB (abort or timeout), a group of IOCBs, transaction timers sharing the scheduler with unrelated far and near timers, a server that takes a segmented request and never answers, a duplicated request in front of a queue, an abort produced while the request is being submitted.",
            "Trusted: CrossHair symbolic models, z3, the virtual clock/loop stubs of vf/world.py (zero processing time), the fault LAN of "
            "vf/netlab.py; max APDU 50/128 only; threads (IOCB.wait) not modelled."),
    "C05": ("6/C05", SCN + "; wire oracle through an independent clause 20.1 header decoder",
            "Segmented private transfers with every payload octet symbolic: what reaches either application is decided by z3 to be "
            "octet-for-octet the submitted content on every path; on the wire sequence numbers are consecutive modulo 256, more-follows "
            "correct, outstanding segments never exceed the window in force; every single lost / duplicated / reordered frame (symbolic "
            "frame index) still ends in the service ack. Universal in content and fault position inside the instance bounds "
            "(<= 5 segments, S = 50/128, windows 1..8; segment timeout 1.5 s and the library's default 5 s). One step of a sender from a "
            "symbolic absolute position incl. the sequence-number wrap, and SSM.in_window on its whole domain.",
            "Trusted: as C04. More than 5 segments / sequence wrap-around and S >= 206 are outside the scenario harness."),
    "C06": ("6/C06", SCN.replace("stacks (application - ASAP - SMAP - NSAP - vlan)", "network layer (NSAP, NetworkServiceElement, NetworkAdapter) on vlan networks")
            + "; frames read with an independent clause 6.2 decoder; reference delivery function from the topology",
            "On six concrete loop-free topologies (2..5 networks, routers of 2..4 ports), for every source station, destination kind and "
            "destination (symbolic selectors) and symbolic payload: exactly the addressed stations receive, each once; the source shown "
            "to each recipient routes a reply back to the originator and nobody else; one frame per network on the path with hop count "
            "255 minus router hops; cold and warm caches; stations that do not know their network number. A cyclic topology shows "
            "hop-count termination for symbolic initial counts. One forwarding step of a three-port router from chosen cache states with "
            "a symbolic NPDU (destination kind/network/MAC, optional SADR, hop count 0..255, arrival port) against the clause 6.5 "
            "forwarding rule; bursts of three packets toward an undiscovered network. Stations that learn their network number from announcements or by asking; traffic between the two ends of a four-network line with every cache cold; a station addressing its own network by number; two path discoveries that cross; a station that learns its network number between two packets; the step router has a different MAC on every port.",
            "Trusted: as C04. Topologies other than the instantiated ones are outside; routing-protocol chatter in cyclic topologies is not part of the claim."),
    "C07": ("6/C07",
            SX + "; differential against a clause-20.1 reference layout",
            "For each of the eight APDU types every header field is a z3 variable; the solver shows on every path that "
            "the emitted octets equal the clause-20.1 layout and that decoding restores every field and the payload; "
            "every octet string up to the bound is decoded totally (header or DecodingError, fixed point on re-encode); "
            "the two code tables are checked for every capability value in range. Universal inside the bounds, nothing outside.",
            "Trusted: CrossHair's symbolic int/bytes models, z3, the hand-written reference layout; payload length bound 2/4, octet strings <= 5/8."),
    "C08": ("6/C08", SX + "; differential against a clause 6.2 / 6.4 reference layout and parser",
            "NPCI with every field symbolic (flags, priority, DNET/SNET 1..65534, station addresses of length 1/2/6/7 (255) with symbolic "
            "octets, hop count, message type with vendor ID, payload) encodes to the reference octets and decodes back; every octet string up "
            "to 8 (14) octets and every one-octet mutation of valid frames decodes to exactly the reference fields with a fixed point on "
            "re-encode, or DecodingError - version other than 1, SNET 0xFFFF, SLEN 0 and truncation are always refused; each of the 12 "
            "network messages round-trips symbolic parameters (lists 0..3 (5, 20), routing tables 0..2 (5) entries, port info to 255 octets) "
            "through the type registry.",
            "Trusted: as C07 plus vf/ref/C08_npci.py."),
    "C09": ("6/C09", SX + "; differential against an Annex J reference layout and parser; octets observed below the real AnnexJCodec",
            "Each of the 12 BVLL functions with symbolic parameters (codes, TTL, remaining time, all six octets of every address, 32-bit masks, "
            "tables of 0..2 (4, 8, 40) entries plus one table of 12 concrete entries with arbitrary masks, NPDUs of 0..6 (16) symbolic octets and boundary lengths to 1497) pushed through the real "
            "AnnexJCodec: first octet 0x81, function code, length field = octets emitted, body = reference, decode restores the parameters; "
            "objects whose declared length disagrees with their content never emit a frame with a false header; every datagram up to 26 (104) "
            "octets per function code is accepted with the reference reading and a re-encode fixed point or refused, and every datagram "
            "whose type or length field disagrees with it is refused on both decode routes.",
            "Trusted: as C07 plus vf/ref/C09_annexj.py and the socket.inet_aton/ntoa stand-ins; over-long fixed-size frames with a true header "
            "are tolerated (the statement asks only for type/length disagreement to be refused)."),
    "C10": ("6/C10", SCN,
            "A device stack fed hostile input: for 9 (all registered) confirmed services and for every unregistered choice a request with "
            "intact header (symbolic invoke ID, max-segments, max-response incl. reserved codes, SA flag) and a fully symbolic parameter area "
            "of 0..2 (3) octets gets exactly one reply with its invoke ID; every one-octet substitution / deletion / insertion (symbolic "
            "position and octet) of valid ReadProperty, WriteProperty, ReadPropertyMultiple, Who-Is and SubscribeCOV frames, delivered with a "
            "valid request queued at the same moment; symbolic noise at link level and, fed through one core.deferred() per datagram as "
            "UDPDirector does, at BVLL level: the concurrent valid request is answered correctly, no transaction, timer or deferred call is "
            "left, and a later valid request is answered; garbage claiming to be relayed from a remote network does not divert the answer "
            "to a request the real router relays afterwards; a transfer begun and abandoned in either direction leaves nothing behind within 60 s; answers that do not fit (each segmentation capability), requests with unusual encodings, a device that supports DeviceCommunicationControl (undefined values), a device that has cached the client's I-Am, two clients with the same invoke ID.",
            "Trusted: as C04; parameter areas longer than 3 octets and two or more mutations per frame are outside; a request with a reserved "
            "max-APDU code must be refused once (abort or reject with its invoke ID)."),
    "C11": ("6/C11", SCN,
            "Invoke-ID allocation from a symbolic cursor (wrap-around without 256 requests) with symbolic peer choice and application-chosen "
            "IDs; one inbound reply of each kind with symbolic source and symbolic invoke ID against three live transactions with a forced "
            "cross-peer ID collision: only the transaction with equal (peer, ID) completes, every other ends by its own timeout, duplicates "
            "are ignored; retransmitted requests (at once or a second apart) are indicated once and equal IDs from two peers are answered separately. The same MAC and invoke ID live on the local and on a remote network (replies relayed by a router); two stacks that are client and server of one another at once, one direction segmented; the abort a client sends carries the client's flag and ends only the peer's server transaction; allocation while a transaction is in the middle of a segmented answer; the IOCB layer does not hand a late reply to the next request.",
            "Trusted: as C04. At most 6 outstanding requests / 3 peers; exhaustion of all 256 IDs toward one peer is outside."),
    "C12": ("6/C12", SCN + "; frame lengths and headers read with an independent decoder; expected outcome from reference arithmetic on clause 20.1 header sizes",
            "For capability pairs (max APDU, segmentation support, max segments, I-Am known or not) with symbolic proposed windows 1..127 and "
            "symbolic payload lengths around the boundaries: no APDU on the LAN exceeds what its receiver announced, responses are segmented "
            "only when accepted and within max-segments, requests only toward peers that can receive segments, windows stay in 1..127 and "
            "within the proposal, and the outcome (ack or abort) is the one the limits dictate. Peers that announced themselves twice (the later I-Am counts), clients whose earlier I-Am promised more than the request being answered, a peer that asks first; a bare station granting a symbolic window with every SegmentAck: never more segments outstanding than granted; windows under loss with unequal proposals; devices that move between addresses; an announcement that arrives between an attempt and its retry; when the server cannot comply the abort comes from the server, on the wire.",
            "Trusted: as C04; the application feeds I-Am announcements into DeviceInfoCache.iam_device_info (bacpypes leaves that to the application)."),
    "C15": ("6/C15", SCN + "; reply octets and object snapshots compared with a reference property store and reference encoders written from clauses 15.5/15.7/15.9/21",
            "A device stack with ReadProperty/WriteProperty/ReadPropertyMultiple services holding scalar, array and list objects, and a "
            "client stack: sequences of 1..2 (3) requests with symbolic opcode (read / write / read-multiple), target (declared, undeclared, "
            "proprietary, Property_List, unknown object), array-index class (none, 0, 1..5 symbolic, 2^32-1), value (right type with "
            "symbolic content, wrong primitive type, wrong element at a symbolic position, Null, none or two values) and priority: every "
            "reply's octets equal the reference's, an acknowledged write is read back by ReadProperty and ReadPropertyMultiple, a refused "
            "write names an applicable cause and leaves a deep snapshot of every property of every object unchanged, arrays answer "
            "0 / 1..n / else as length / element / invalidArrayIndex, the all/required/optional selectors return exactly what ReadProperty "
            "returns. At object level the same write/read-back/atomicity rules for every property with a value generator of 8 (all 63) "
            "registered object types, as declared and as a writable clone.",
            "Trusted: as C04 plus vf/ref/C15_ref.py. Outside: WritePropertyMultiple (no handler in the library), constructed values over the "
            "wire, selectors combined with an array index, sequences longer than 3 requests, which of two applicable error causes is named."),
    "C16": ("6/C16", SCN + "; differential against a reference subscription table with last-reported value and burst accounting (clauses 13.1 / 13.14)",
            "A COV server stack with one monitored object (integer value with symbolic increment and values, analog value and pulse "
            "converter on dyadic values, binary and multi-state values) and 1..2 (3) subscriber stacks; timelines of 3 (5) steps with "
            "symbolic opcodes over {subscribe / renew with symbolic confirmed flag and lifetime 0..120 or absent, cancel, write value, write "
            "status flags, two writes in one instant, advance the clock by a symbolic whole number of seconds 0..130}: ack and one initial "
            "notification, exactly one notification per qualifying change per live subscription of the requested kind with the current "
            "values and the remaining lifetime, none after cancel or expiry, renewals replace and re-time, and activeCovSubscriptions (also "
            "read over the wire) lists exactly the live subscriptions with a truthful time remaining.",
            "Trusted: as C04 plus vf/ref/C16_cov.py; integer clock and a symbolic-preserving int() for cov.py's time-remaining computation; "
            "transaction timers set far away (no frame is lost); at the expiry second either behaviour is accepted; with several subscribers "
            "a change that qualifies only under the per-object or only under the per-subscriber reading may or may not be notified."),
    "C17": ("6/C17", SX + "; differential against a clause 19.2 reference (16-slot array, minimum on/off timer model)",
            "All 20 commandable classes (registered subclasses): command plans with symbolic priorities (absent, any integer -300..300 incl. "
            "0 and 17+), values and relinquishes through WriteProperty('presentValue', v, priority) and bare element writes; after every "
            "command presentValue, all 16 slots, relinquish default and the encoded array equal the reference; refused writes change nothing; "
            "every sequence of length 3 over 4 priorities (thorough: 4-5 on selected classes, 100-command sequences); element writes carrying "
            "a PriorityValue are refused cleanly; binary objects with symbolic and independent minimum on/off times 0..10 hold a new state "
            "at priority 6 for exactly the right minimum on the virtual clock; WriteProperty requests on the wire (Null with and without priority, the "
            "library's own default array); two objects of one class stay independent.",
            "Trusted: as C14 plus vf/ref/C17_prio.py; attribute assignment obj.presentValue = v (the library's internal direct write) and "
            "direct=True are outside."),
    "C18": ("6/C18", SX + "; differential against integer arithmetic on the denoted numbers (reference cross-checked with the ipaddress module)",
            "Every accepted notation as a fixed shape with symbolic digits / hex glyphs / octets: stations, net:station, net:*, *, *:*, hex and "
            "X'' strings with optional network, ethernet form, dotted IPv4 with all 33 mask lengths and ports 0..65535, tuples, raw octets, the "
            "typed constructors: type, network, octets and the IP helper fields equal the reference; network > 65534 and station > 255 refused; "
            "Address(str(a)) == a; over pairs and triples of different spellings == is reflexive, symmetric, transitive, != its negation, and "
            "equal addresses have equal hashed material and land in the same dict/set slot; junk characters in front / inside / behind each "
            "shape are refused.",
            "Trusted: as C07 plus vf/ref/C18_ref.py, local symbolic models of binascii.hexlify/unhexlify and the inet stand-ins; arbitrary "
            "free-form strings and route suffixes are outside."),
    "C19": ("6/C19", SX + "; differential against a reference map (source net, destination net) -> router with newest-wins",
            "RouterInfoCache from the empty cache through every operation sequence up to length 3 (thorough 3..5 on shrinking domains) over "
            "{learn, forget router, forget some of its networks, forget networks, renumber} on 2 source nets x 3 routers x 4 destinations "
            "(every subset): after every step every lookup equals the reference, every credited destination is reachable and leads to its "
            "router, nothing else does, no operation raises; one step from every 2-learn prefix; and a real NSAP + NetworkServiceElement on a "
            "vlan fed I-Am-Router / routed traffic (SADR) / Network-Number-Is frames with symbolic content, after which packets to every "
            "destination go to the router the reference names or trigger Who-Is-Router.",
            "Trusted: as C04 plus vf/ref/C19_routes.py; renumbering onto a network that already has routers is treated as unspecified "
            "(any coherent outcome accepted)."),
    "C20": ("6/C20", SX + "; differential against a clause 12.24 / 20.2.12 / 21 reference (date matchers, direct schedule interpreter, integer UTC clock model)",
            "Every valid date 1900..2154 (symbolic, day of week tied by an independent ordinal) against every date pattern, week-n-day pattern, "
            "date range (open-ended limits) and calendar entry: the real matchers equal the reference; eval on schedules of 0..2 (3) exceptions "
            "of every period kind with symbolic priorities, 0..2 (3) time-values with symbolic times and Nulls, weekly entries, default and "
            "effective period at a symbolic time equals the direct interpreter, and no value changes between the evaluated instant and the "
            "reported next transition; a LocalScheduleObject driven by its own timer shows the reference value at symbolic probe instants "
            "across midnights, month/year ends and both edges of its effective period.",
            "Trusted: as C14 plus vf/ref/C20_*.py; time.localtime/mktime replaced by an integer UTC model while running symbolically (checked "
            "against the C functions, TZ=UTC); unsorted time lists, sub-second entries and the value under a priority tie are outside."),
}

NOT_YET = {}


def main():
    props = [json.loads(l) for l in open(os.path.join(VERIF, "properties.jsonl"))]
    checks = []
    na = []
    for p in props:
        pid = p["id"]
        if pid in CLAIMED:
            ref, tech, text, note = CLAIMED[pid]
            checks.append({
                "property_id": pid,
                "quick_cmd": "./check %s quick" % pid,
                "thorough_cmd": "./check %s thorough" % pid,
                "evidence_file": "evidence/%s.json" % pid,
                "replay_cmd_template": "./check --replay {path}",
                "engine": "sx",
                "level_claimed": {"category": "other", "text": text, "design_ref": "DESIGN.md section " + ref},
                "level_note": note,
                "technique": tech,
            })
        else:
            na.append({"property_id": pid,
                       "reason": NOT_YET.get(pid, "check not built yet (work in progress; see DESIGN.md section 6 for the plan)")})
    m = {
        "version": 1,
        "setup_cmd": "./check --env",
        "hooks": {
            "guard": "BACPYPES_VERIF",
            "enable": "no source hooks: checks import /repo/py34 from the working tree (PYTHONPATH) and install their stubs from the harness side",
            "baseline_off_cmd": "cd /repo && /venv/bin/python -m pytest -ra -q -p no:cacheprovider --timeout=900 --continue-on-collection-errors",
            "source_commits": [],
            "add_only": True,
        },
        "engines": [
            {"name": "sx", "path": "vf/sx.py", "serves_properties": sorted(CLAIMED),
             "kind_free_text": "path-exhaustive symbolic execution of the real Python code on z3-backed values (CrossHair 0.0.110 library layer, own driver)"},
        ],
        "checks": checks,
        "not_applicable": na,
        "notes": "Exit codes of ./check: 0 nothing violated (inconclusive obligations are listed in evidence, never counted as discharged); "
                 "1 reproducible violation (VIOLATION line); 3 harness error. VERIF_REPO selects the tree (default /repo).",
    }
    with open(os.path.join(VERIF, "MANIFEST.json"), "w") as f:
        json.dump(m, f, indent=1)
    try:
        import jsonschema
    except ImportError:
        print("jsonschema not available; not validated")
        return 0
    schema = json.load(open("/root/.vp/MANIFEST.schema.json"))
    jsonschema.validate(m, schema)
    es = json.load(open("/root/.vp/EVIDENCE.schema.json"))
    for c in checks:
        p = os.path.join(VERIF, c["evidence_file"])
        if os.path.exists(p):
            jsonschema.validate(json.load(open(p)), es)
            print("evidence ok:", c["evidence_file"])
    print("MANIFEST ok: %d checks, %d not applicable" % (len(checks), len(na)))
    return 0


if __name__ == "__main__":
    sys.exit(main())
