#!/usr/bin/env python3
"""Print the markdown table of DESIGN.md section 12.6 from seeded/*/ (meta.json, notes.md).

The "missed at first" column is curated here: it records which seeded changes the quick tier did NOT catch when they
were first evaluated and what was added to the harness because of it.
"""
import json
import os
import re

VERIF = os.path.dirname(os.path.dirname(os.path.abspath(__file__)))

MISSED = {
    "C05-2": "no quick instance had a request window of several segments in flight; two instances added",
    "C05-3": "quick length windows did not straddle the 2/3-segment boundary; windows moved",
    "C10-1": "needs a zero-length context Boolean followed by 00; SubscribeCOV frames with a symbolic flag octet added",
    "C10-2": "vlan delivery never uses the deferred queue; `bip_noise` (one core.deferred() per datagram) added",
    "C10-3": "all devices were segmentedBoth; header mutations toward non-segmenting devices added",
    "C04-2": "nothing drove the IOCB queue with a failing request in front of another; `iocb_queue` added",
    "C13-1": "foreign devices were only registered at the near BBMD; `register_at` option added",
    "C13-3": "TTL always divided the sweep; TTL 4 with a late observation window added",
    "C17-3": "commands were only issued at object level; `prio_wire` (WriteProperty on the wire, Null with and without priority) added",
    "C06-2": "caches were either cold or fully warm; `history` option (partly warm caches) added",
    "C06-3": "no station learned its network number at run time; `learns-net` instances added",
    "C14-2": "a recurring task was never installed twice; re-install variant added",
    "C08-3": "state shared BETWEEN decoded messages leaked across paths of one worker: counterexample did not replay; tolerant replay + "
             "candidate retry added to the engine, second-decode independence oracle added to `netmsg_rt`",
    "C06-4": "no scenario sent several packets before the first path discovery was answered; `route_burst` added",
    "C13-5": "unregistration was only tried with TTL <= 4, below the grace period; TTL 60 instances added",
    "C13-6": "TTL was bounded by 8; TTL 300 (255, 256) instances with observation windows added",
    "C04-5": "no IOCB was submitted from inside a completion callback; `iocb_chain` added",
    "C11-4": "retransmissions followed one another in zero time; symbolic gap of 0/1 s added to `dup_request`",
    "C11-6": "needs the same chosen ID live toward two peers and a third request: quick had k=2; `ids[k=3, chosen]` added to quick",
    "C10-4": "requests with a reserved max-APDU code were exempt from the one-reply oracle; they must now be refused exactly once",
    "C15-2": "only commandable objects mutate array elements in place; C17's wire-level command harness now also runs for C15, "
             "with the library's own default priority array",
    "C12-6": "the peer announced itself once; instances with an earlier, more capable I-Am from the same device added",
    "C14-6": "every deferred function was a distinct callable; `deferred_repeat` (equal function/argument pairs handed in "
             "repeatedly) added",
    "C16-4": "two subscribers were always subscribed indefinite-first; a timed-before-indefinite instance added",
    "C16-6": "quick had no four-step history drift / renewal / step on one subscriber; `iv,s-W-s-W` added",
    "C12-7": "the server never held a record of the client; instances in which the client once announced another "
             "segmentation capability added",
    "C12-8": "a bacpypes peer grants the same window in every ack; `window_follow` (bare station granting a symbolic window per "
             "ack) added",
    "C12-9": "the peer never asked us anything before our long request; `peer_asks_first` option added",
    "C04-9": "the transaction timers were alone in the scheduler; `among_timers` (unrelated far and near timers, an answering "
             "and a silent peer) added",
    "C06-8": "quick had at most two routers between any two stations; `line4, ends-only` added",
    "C06-9": "stations never addressed their own network by its number; symbolic choice added to `route_scn`",
    "C11-8": "no stack was client and server of the same peer at once; `cross_roles` added",
    "C11-9": "all peers were local stations; `demux_routed` (same MAC and invoke ID on the local and a remote network) added",
    "C14-7": "recurring tasks were installed on the 1/8 s grid only; `recurring_near_slot` added",
    "C14-8": "deferred callables were all plain closures; `deferred_kinds` (partial, callable instance, bound method, lambda) added",
    "C14-9": "due times were at least 1/8 s apart; `sched_close` (tasks 0.4 ms apart, clock read at firing) added",
    "C09-4": "the changed decoder formats the (symbolic) mask into text: every path ended UNKNOWN or the tree exploded - "
             "inconclusive, not a violation; concrete-table instances with arbitrary masks added, and undecided instances are "
             "now probed concretely (12.1)",
    "C17-9": "every path built one object per class; `two_objects` added",
    "C14-11": "no task re-armed itself from inside its callback; `self_rearm` added",
    "C14-12": "`resume` was only applied to suspended tasks; resume of a pending task (a re-installation) admitted in `sched_ops`",
    "C13-11": "at most one foreign device was ever removed from a table of one; `foreign_trio` added",
    "C12-10": "C12 ran loss-free only; C05's lossy scenario with unequal windows now runs under C12 too",
    "C12-11": "no device ever moved to another address; `cache_moves` (three I-Am announcements, two devices, two addresses) added",
    "C12-12": "any abort satisfied the outcome oracle; when the SERVER cannot comply the abort must come from the server, on the wire",
    "C06-10": "the step router had the same MAC on every port; it now has a different one per network",
    "C10-10": "the device under test did not support DeviceCommunicationControl; `dcc_values` added",
    "C10-12": "the seed's own trigger was closed by fix e0cdb7d (demo rebased); quiescence had no time bound: `half_open` added",
    "C13-13": "foreign devices lived on a subnet of their own; a foreign device on the subnet of one BBMD registered with another added",
    "C13-14": "the grace period was taken as the 30 s the standard allows, the BBMD grants 5: a one-second overshoot was inside the "
              "slack; `foreign_age` measures the grace the BBMD lists and lets entries age next to one another",
    "C11-13": "every live transaction was waiting for its first reply; allocation while one is in the middle of a segmented answer added",
    "C11-14": "nothing looked at the server bit of an abort a client puts on the wire; `abort_direction` added",
    "C04-14": "the IOCB queue ran on a faultless LAN; instance with the first request frame duplicated added",
    "C10-13": "(harness written on reading the seed's description, before it was run: the unchanged check had no answer that does "
              "not fit) `long_answer` added",
    "C10-14": "(as C10-13) no segmented answer was ever abandoned; `half_read` added",
    "C10-15": "(as C10-13) no request with a five-octet array index; `odd_requests` added",
    "C06-13": "(harness written on reading the seed's description) one packet at a time only; `route_cross` (two discoveries that cross) added",
    "C06-14": "(as C06-13) stations learned their number before they ever sent; `learn_then_send` added",
    "C14-17": "(harness extended on reading the seed's description) offsets were below one interval; `recurring[wide offsets]` added",
    "C14-18": "(as C14-17) nothing ever called core.stop(); `deferred_stop` added",
    "C12-16": "C12 drove plain applications only; C04's `iocb_sync_abort` now runs under C12 too",
    "C12-17": "no announcement ever arrived between an attempt and its retry; `announce_during_retry` added (writing it showed a "
              "defect of the unchanged tree, repaired by 6172bb8)",
    "C10-16": "the device under test never cached a client's I-Am; `known_client` added",
    "C10-17": "the concurrent valid request always had another invoke ID; `same_id_clients` added",
    "C10-18": "network-layer noise was unicast only (and type 0x12 in the thorough tier only); broadcast flag and more types added",
    "C08-9": "station addresses longer than 7 octets were in the thorough tier only; 19 and 255 octets added to quick",
    "C20-9": "every harness runs in UTC, where the daylight-saving field of the broken-down time makes no difference; `mktime_args` "
             "checks the tuple handed to mktime",
    "C19-12": "multi-adapter nodes only forwarded; `app_on_two_nets` (an application on a two-adapter node) added",
    "C01-8": "character strings were only built from Python text (UTF-8); `str_reencode` (strings received in another character set "
             "and passed on) added",
    "C03-8": "values inside an ANY were atomic or one level deep; `any_nested` (two and three levels, different context numbers) added",
    "C04-19": "no announcement ever arrived while a request was outstanding; `iam_while_waiting` added",
    "C04-21": "NOT a violation of C04 as stated (one outcome, a legal abort, inside the time bound): the quick tier of C04 stays silent; "
              "the same change is reported by C05 (`single-fault-not-repaired`)",
    "C10-19": "no two stations shared a MAC across networks; `same_mac_clients` added",
    "C10-20": "the device never heard two different network numbers; `renumbered` added",
    "C10-21": "an abort counted as a reply even where the answer fits; `fitting_answer` (sizes around the boundary) added",
    "C12-19": "the window stated in segments after the first was only range-checked; it must not exceed the receiver's grant",
    "C16-13": "one station with two subscriber processes was in the thorough tier only; added to quick",
    "C16-14": "needs three subscriptions with different lifetimes and a cancellation (five steps): the thorough tier's shapes do not "
              "contain it and a quick instance did not exhaust in 25 minutes - NOT detected under C16; the scheduler defect itself is "
              "what C14 `sched_ops` reports (seed C14-1 is the same change)",
    "C10-5": "no frame carried a source network; `routed_noise` (garbage claiming a remote source, then a relayed valid request) added",
}


def heading(d, n):
    p = os.path.join(d, "notes.md")
    if not os.path.exists(p):
        return ""
    m = (n - 1) % 3 + 1
    for line in open(p):
        if re.match(r"^#+\s*\**\s*(change|seed)[ _]*0?%d\b" % m, line, re.I):
            t = re.sub(r"^#+\s*\**\s*(change|seed)[ _]*0?%d\s*[-:—– ]*\s*" % m, "", line.strip(), flags=re.I)
            t = re.sub(r"`change_\d\.diff`\s*[-:—–]*\s*", "", t)
            return t.strip(" *")[:170].replace("|", "/")
    return ""


def main():
    root = os.path.join(VERIF, "seeded")
    names = sorted(os.listdir(root), key=lambda s: (s.split("-")[0], int(s.split("-")[1])))
    print("| seed | change | caught by (quick tier) | missed at first? what was added |")
    print("|---|---|---|---|")
    total = det = 0
    for name in names:
        d = os.path.join(root, name)
        mp = os.path.join(d, "meta.json")
        if not os.path.exists(mp):
            continue
        m = json.load(open(mp))
        n = int(name.split("-")[1])
        v = [x for x in m.get("violations", []) if x.strip().startswith("harness=")]
        by = ""
        if v:
            mm = re.match(r"\s*harness=(\S+?)(\[.*?\])? kind=(\S+)", v[0])
            if mm:
                by = "%s `%s`" % (mm.group(1), mm.group(3))
        total += 1
        det += 1 if m.get("detected_by_check") else 0
        print("| %s | %s | %s | %s |" % (name, heading(d, n), by if m.get("detected_by_check") else "**not detected**",
                                       (("**missed at first**: " if m.get("detected_by_check") else "") + MISSED[name]) if name in MISSED else ""))
    print()
    late = 0
    for k in MISSED:
        mp = os.path.join(root, k, "meta.json")
        if os.path.exists(mp) and json.load(open(mp)).get("detected_by_check"):
            late += 1
    print("%d changes, %d detected by the quick tier of their property as committed (%d of them only after the harness was "
          "strengthened), %d not detected there (see their rows)." % (total, det, late, total - det))


if __name__ == "__main__":
    main()
