#!/usr/bin/env python3
"""Evaluate a seeded breaking change (written by an independent agent that saw only the property text).

usage: tools/seed_eval.py <Cxx> <dir-with-change_N.diff-and-demo_N.py> <N> [tier] [--keep <name>]

Steps, all on a scratch copy of the tree (never /repo itself):
  1. the unedited test suite still passes with the change (run against the scratch tree),
  2. the demonstration passes without the change and fails with it,
  3. ./check <Cxx> <tier> against the scratch tree must exit 1 with a VIOLATION line.
With --keep the change is stored as /verif/seeded/<name>/ (patch.diff, demo.py, meta.json).
"""
import json
import os
import shutil
import subprocess
import sys
import time

VERIF = os.path.dirname(os.path.dirname(os.path.abspath(__file__)))
PY = "/venv/bin/python"


def sh(cmd, cwd=None, env=None, timeout=3600):
    e = dict(os.environ)
    if env:
        e.update(env)
    p = subprocess.run(cmd, shell=True, cwd=cwd, env=e, capture_output=True, text=True, timeout=timeout)
    return p.returncode, p.stdout + p.stderr


def main():
    a = sys.argv[1:]
    prop, src, n = a[0], a[1], a[2]
    tier = a[3] if len(a) > 3 and not a[3].startswith("--") else "quick"
    keep = a[a.index("--keep") + 1] if "--keep" in a else None
    diff = os.path.join(src, "change_%s.diff" % n)
    demo = os.path.join(src, "demo_%s.py" % n)
    scratch = "/var/tmp/seed_%s_%s_%d" % (prop, n, os.getpid())
    clean = scratch + "_clean"
    res = {"property": prop, "change": diff, "tier": tier}
    try:
        for d in (scratch, clean):
            os.makedirs(d)
            sh("git -C /repo archive HEAD py34 tests setup.cfg | tar -x -C %s" % d)
        rc, out = sh("patch -p1 < %s" % diff, cwd=scratch)
        if rc != 0:
            print("patch does not apply:\n" + out)
            return 2
        rc, out = sh("%s -m pytest -q -p no:cacheprovider 2>&1 | tail -3" % PY, cwd=scratch, env={"PYTHONPATH": scratch + "/py34"})
        res["suite_with_change"] = out.strip().splitlines()[-1] if out.strip() else "?"
        suite_ok = " passed" in out and " failed" not in out and " error" not in out
        # the demos were written to live in <tree>/out/ (some reach ../tests for the suite's helpers)
        for d in (scratch, clean):
            os.makedirs(d + "/out")
            shutil.copy(demo, d + "/out/demo.py")
        rc_c, out_c = sh("%s demo.py" % PY, cwd=clean + "/out", env={"PYTHONPATH": clean + "/py34:" + clean}, timeout=600)
        rc_m, out_m = sh("%s demo.py" % PY, cwd=scratch + "/out", env={"PYTHONPATH": scratch + "/py34:" + scratch}, timeout=600)
        res["demo_without_change"] = "exit %d: %s" % (rc_c, out_c.strip()[-200:])
        res["demo_with_change"] = "exit %d: %s" % (rc_m, out_m.strip()[-300:])
        demo_ok = rc_c == 0 and rc_m != 0
        t0 = time.time()
        rc, out = sh("./check %s %s" % (prop, tier), cwd=VERIF, env={"VERIF_REPO": scratch, "VERIF_JOBS": os.environ.get("VERIF_JOBS", "8")},
                     timeout=7200)
        viol = [l for l in out.splitlines() if l.startswith("VIOLATION") or l.startswith("  harness=")]
        res["check_exit"] = rc
        res["check_wall_s"] = round(time.time() - t0)
        res["check_violations"] = viol[:6]
        res["check_summary"] = [l for l in out.splitlines() if l.startswith(prop + " ")][-1:]
        res["detected"] = rc == 1 and any(l.startswith("VIOLATION") for l in viol)
        res["suite_ok"], res["demo_ok"] = suite_ok, demo_ok
        print(json.dumps(res, indent=1))
        if keep and suite_ok and demo_ok:
            dst = os.path.join(VERIF, "seeded", keep)
            os.makedirs(dst, exist_ok=True)
            shutil.copy(diff, dst + "/patch.diff")
            shutil.copy(demo, dst + "/demo.py")
            notes = os.path.join(src, "notes.md")
            meta = {"property": prop, "written_by": "independent sub-agent given only the property text and a scratch worktree",
                    "needs_to_manifest": "see notes.md section for change %s" % n,
                    "what_i_ran": {"suite_with_change": res["suite_with_change"], "demo_without_change": res["demo_without_change"],
                                   "demo_with_change": res["demo_with_change"],
                                   "check": "VERIF_REPO=<scratch copy with patch> ./check %s %s -> exit %s" % (prop, tier, rc)},
                    "detected_by_check": res["detected"], "tier": tier, "violations": viol[:4]}
            json.dump(meta, open(dst + "/meta.json", "w"), indent=1)
            if os.path.exists(notes):
                shutil.copy(notes, dst + "/notes.md")
        return 0
    finally:
        shutil.rmtree(scratch, ignore_errors=True)
        shutil.rmtree(clean, ignore_errors=True)


if __name__ == "__main__":
    sys.exit(main())
