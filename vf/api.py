"""Harness-side API.  No dependency on crosshair: a harness imports only this module,
so the very same harness function runs

* symbolically, driven by vf.sx (draws are z3-backed proxies), and
* concretely, driven by ConcreteDraws (replay of a counterexample / of a sampled path,
  plain CPython, also under the repository's own interpreter).
"""
import json
import logging
import os
import sys

REPO = os.environ.get("VERIF_REPO", "/repo")
PY34 = os.path.join(REPO, "py34")


class Violation(Exception):
    """Raised (or flagged) by an oracle: the property is broken on this path."""

    def __init__(self, _kind, **sig):
        Exception.__init__(self, _kind, sig)
        self.kind = _kind
        self.sig = sig


class HarnessError(Exception):
    """The harness itself is inconsistent (never a verdict about bacpypes)."""


class Reached(Exception):
    """Raised by d.reach() when running as reachability twin."""


def jsonable(v):
    if isinstance(v, (bytes, bytearray)):
        return {"hex": bytes(v).hex()}
    if isinstance(v, (list, tuple)):
        return [jsonable(x) for x in v]
    if isinstance(v, dict):
        return {str(k): jsonable(x) for k, x in v.items()}
    if isinstance(v, (int, str, bool)) or v is None:
        return v
    if isinstance(v, float):
        return v
    return repr(v)


def unjson(v):
    if isinstance(v, dict) and set(v) == {"hex"}:
        return bytes.fromhex(v["hex"])
    if isinstance(v, list):
        return [unjson(x) for x in v]
    return v


class LogTrap(logging.Handler):
    """collects what bacpypes logs at ERROR level (exceptions its loops swallow)"""

    def __init__(self):
        logging.Handler.__init__(self, level=logging.ERROR)
        self.records = []
        self.intolerance = False

    def reset(self):
        self.records = []
        self.intolerance = False

    def classify(self, exc):
        pass

    def emit(self, record):
        try:
            exc = record.exc_info[1] if record.exc_info else None
            if exc is None and record.args:
                args = record.args if isinstance(record.args, tuple) else (record.args,)
                for a in args:
                    if isinstance(a, BaseException):
                        exc = a
            if exc is not None:
                self.classify(exc)
            self.records.append((record.name, type(exc).__name__ if exc is not None else None))
        except Exception:   # pragma: no cover
            pass


LOGTRAP = None


def install_logtrap(trap=None):
    """route bacpypes' own error logging into a per-path list (and keep it off stderr)"""
    global LOGTRAP
    if LOGTRAP is None:
        LOGTRAP = trap or LogTrap()
        lg = logging.getLogger("bacpypes")
        lg.addHandler(LOGTRAP)
        lg.propagate = False
        logging.getLogger().addHandler(logging.NullHandler())
    return LOGTRAP


class Draws:
    """Source of the quantified variables of one harness run (one path)."""

    symbolic = False
    twin = False

    def __init__(self):
        self.log = []       # [(name, value)]
        self.flags = []     # [Violation] recorded without ending the path
        self.notes = {}     # free-form per-path facts for samples

    # -- to be provided by subclasses
    def _int(self, lo, hi, name):
        raise NotImplementedError

    def _bool(self, name):
        raise NotImplementedError

    def _bytes(self, lo, hi, name):
        raise NotImplementedError

    # -- public
    def int(self, lo, hi, name="i"):
        v = self._int(lo, hi, name)
        self.log.append((name, v))
        return v

    def bool(self, name="b"):
        v = self._bool(name)
        self.log.append((name, v))
        return v

    def bytes(self, lo, hi=None, name="y"):
        """octet string with lo <= len <= hi (hi=None: exactly lo), every octet free"""
        if hi is None:
            hi = lo
        v = self._bytes(lo, hi, name)
        self.log.append((name, v))
        return v

    def pick(self, seq, name="k"):
        """concrete element of a concrete sequence, selected by a free index (forks)"""
        seq = list(seq)
        if len(seq) == 1:
            return seq[0]
        i = self.int(0, len(seq) - 1, name)
        for k in range(len(seq) - 1):
            if i == k:
                return seq[k]
        return seq[-1]

    def index(self, n, name="k"):
        """concrete int in range(n), selected by a free index (forks n ways)"""
        return self.pick(range(n), name)

    def assume(self, cond):
        if not cond:
            self._ignore()

    def _ignore(self):
        raise HarnessError("assumption failed under concrete replay")

    def flag(self, cond, _kind, **sig):
        """record a violation if cond, keep running the path (so that later oracles on
        the same path are not masked by an earlier, possibly known, finding)"""
        if cond:
            self.flags.append(Violation(_kind, **sig))
            return True
        return False

    def reach(self):
        """marks the end of the oracle; the reachability twin must get here"""
        if self.twin:
            raise Reached()

    def note(self, **kw):
        self.notes.update(kw)

    def untraced(self):
        """context manager: run a fully CONCRETE stretch of harness/library code without the engine's
        tracing (two orders of magnitude faster).  Only sound when no symbolic value is touched inside."""
        import contextlib
        return contextlib.nullcontext()

    def errors_logged(self):
        """[(logger, exception type name)] that bacpypes logged at ERROR level on this
        path (its event loop and state machines swallow exceptions and log them)"""
        return list(LOGTRAP.records) if LOGTRAP is not None else []


_DEFAULT = object()


class ConcreteDraws(Draws):
    """Replays a flat list of concrete draws in order, checking names and bounds."""

    extended = False

    def __init__(self, values, twin=False):
        Draws.__init__(self)
        self.values = list(values)
        self.pos = 0
        self.twin = twin

    def _next(self, name):
        if self.pos >= len(self.values):
            # the symbolic path ended (with its violation) before the harness asked for this draw; under plain
            # replay the run may get further - e.g. when the symbolic violation depended on state another explored
            # path had left behind in the library.  Continue with the smallest value of the draw's domain: whatever
            # the concrete run then shows is a fact about the real code on concrete inputs.
            self.extended = True
            return _DEFAULT
        n, v = self.values[self.pos]
        self.pos += 1
        if n != name:
            raise HarnessError("replay draw %d is %r, harness asked for %r" % (self.pos - 1, n, name))
        return v

    def _int(self, lo, hi, name):
        v = self._next(name)
        if v is _DEFAULT:
            return lo
        if not isinstance(v, int) or isinstance(v, bool) or not (lo <= v <= hi):
            raise HarnessError("replay draw %r=%r outside [%r, %r]" % (name, v, lo, hi))
        return v

    def _bool(self, name):
        v = self._next(name)
        if v is _DEFAULT:
            return False
        if not isinstance(v, bool):
            raise HarnessError("replay draw %r=%r is not a bool" % (name, v))
        return v

    def _bytes(self, lo, hi, name):
        v = self._next(name)
        if v is _DEFAULT:
            return bytes(lo)
        if not isinstance(v, bytes) or not (lo <= len(v) <= hi):
            raise HarnessError("replay draw %r=%r outside length [%r, %r]" % (name, v, lo, hi))
        return v


class _ProbeSkip(Exception):
    pass


class RandomDraws(Draws):
    """Pseudo-random concrete draws (deterministic per seed), biased toward the ends of every range.  Used only to PROBE an
    instance the solver could not decide (paths ended UNKNOWN): whatever such a run shows is a fact about the real code on
    concrete inputs; it never contributes to a 'holds' verdict."""

    def __init__(self, seed, twin=False):
        Draws.__init__(self)
        import random
        self.rnd = random.Random(seed)
        self.twin = twin

    def _int(self, lo, hi, name):
        r = self.rnd.random()
        if r < 0.15:
            return lo
        if r < 0.3:
            return hi
        if r < 0.45 and hi - lo > 4:
            return self.rnd.choice([lo + 1, hi - 1, (lo + hi) // 2])
        return self.rnd.randint(lo, hi)

    def _bool(self, name):
        return self.rnd.random() < 0.5

    def _bytes(self, lo, hi, name):
        n = self.rnd.choice([lo, hi, self.rnd.randint(lo, hi)])
        kind = self.rnd.random()
        if kind < 0.2:
            return bytes(n)
        if kind < 0.4:
            return bytes([255] * n)
        return bytes(self.rnd.randrange(256) for _ in range(n))

    def _ignore(self):
        raise _ProbeSkip()


def probe(fn, params, tries=300, seconds=15.0, seed=0):
    """concrete probes of an undecided instance -> first violation found as dict(kind, sig, draws) or None"""
    import time as _t
    t0 = _t.process_time()
    for k in range(tries):
        if _t.process_time() - t0 > seconds:
            break
        d = RandomDraws(seed * 100003 + k)
        install_logtrap().reset()
        v = None
        try:
            fn(d, **params)
        except Violation as e:
            v = e
        except (Reached, _ProbeSkip, HarnessError):
            continue
        except Exception as e:
            if raised_in_harness(e):
                continue
            v = Violation("escaped-exception", exc=type(e).__name__, where="?", msg=str(e)[:120])
        if v is None and d.flags:
            v = d.flags[0]
        if v is not None:
            return {"kind": v.kind, "sig": jsonable(v.sig), "draws": jsonable([(n, x) for n, x in d.log]), "probe": k}
    return None


class Inst:
    """One obligation: a harness function with concrete instance parameters."""

    def __init__(self, fn, params=None, budget=60.0, path_timeout=60.0, label=None):
        self.fn = fn
        self.params = dict(params or {})
        self.budget = float(budget)
        self.path_timeout = float(path_timeout)
        self.module = fn.__module__
        self.name = fn.__name__
        if label is None:
            label = ",".join("%s=%s" % (k, v) for k, v in sorted(self.params.items()))
        self.label = label

    @property
    def ident(self):
        return self.name + ("[" + self.label + "]" if self.label else "")


def meta(**kw):
    """attach bounds / outside / assumes / stubs text to a harness function"""
    def deco(fn):
        fn.meta = kw
        return fn
    return deco


def run_concrete(fn, params, draws, twin=False):
    """plain execution of a harness on concrete draws.
    returns dict(outcome=ok|violation|reached|harness_error, violations=[...])"""
    d = ConcreteDraws(draws, twin=twin)
    install_logtrap().reset()
    out = {"outcome": "ok", "violations": []}
    try:
        fn(d, **params)
    except Violation as v:
        d.flags.append(v)
    except Reached:
        out["outcome"] = "reached"
    except HarnessError as e:
        out["outcome"] = "harness_error"
        out["error"] = repr(e)
        return out
    except Exception as e:
        if raised_in_harness(e):
            # the harness itself tripped (an attribute of the library it reads is gone, a result has a shape its oracle
            # does not handle): nothing is known about the property, and it is not a violation
            out["outcome"] = "harness_error"
            out["error"] = "harness tripped: %r" % (e,)
            return out
        tb = e.__traceback__
        where = "?"
        while tb is not None:
            co = tb.tb_frame.f_code
            if "/bacpypes/" in co.co_filename:
                where = co.co_filename.rsplit("/bacpypes/", 1)[1] + ":" + co.co_name
            tb = tb.tb_next
        d.flags.append(Violation("escaped-exception", exc=type(e).__name__, where=where,
                                 msg=str(e)[:120]))
    if d.flags:
        if out["outcome"] != "reached":
            out["outcome"] = "violation"
        out["violations"] = [{"kind": v.kind, "sig": jsonable(v.sig)} for v in d.flags]
    out["notes"] = jsonable(d.notes)
    out["draws_extended"] = d.extended
    return out


_VF_DIR = os.path.dirname(os.path.abspath(__file__))


def raised_in_harness(e):
    """True when exception e was raised by a statement of the verification code itself (vf/...), not by the library and
    not inside a standard-library or engine frame called from the library"""
    tb = e.__traceback__
    last = None
    while tb is not None:
        last = tb
        tb = tb.tb_next
    if last is None:
        return False
    return os.path.abspath(last.tb_frame.f_code.co_filename).startswith(_VF_DIR + os.sep)


def repo_setup():
    """make `import bacpypes` resolve to the working tree, never to an installed copy"""
    if PY34 not in sys.path[:1]:
        sys.path.insert(0, PY34)
    sys.dont_write_bytecode = True
    import bacpypes
    got = os.path.realpath(os.path.dirname(bacpypes.__file__))
    want = os.path.realpath(os.path.join(PY34, "bacpypes"))
    if got != want:
        raise HarnessError("bacpypes imported from %s, expected %s" % (got, want))
