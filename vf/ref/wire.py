"""Independent reference decoders for what appears on the LAN (clause 6.2 NPCI and clause
20.1 APCI), written from the standard, used by scenario oracles to read frames without
going through the code under test."""


class Malformed(Exception):
    pass


def parse_npdu(data):
    """-> dict(version, control, net_msg, dnet, dadr, snet, sadr, hops, expecting_reply,
    priority, msg_type, vendor, payload)"""
    if len(data) < 2:
        raise Malformed("short")
    r = {"version": data[0], "control": data[1]}
    c = data[1]
    i = 2
    r["net_msg"] = (c & 0x80) != 0
    r["expecting_reply"] = (c & 0x04) != 0
    r["priority"] = c & 0x03
    r["dnet"] = r["dadr"] = r["snet"] = r["sadr"] = r["hops"] = None
    if c & 0x20:
        if len(data) < i + 3:
            raise Malformed("dnet")
        r["dnet"] = data[i] * 256 + data[i + 1]
        dlen = data[i + 2]
        i += 3
        if len(data) < i + dlen:
            raise Malformed("dadr")
        r["dadr"] = bytes(data[i:i + dlen])
        i += dlen
    if c & 0x08:
        if len(data) < i + 3:
            raise Malformed("snet")
        r["snet"] = data[i] * 256 + data[i + 1]
        slen = data[i + 2]
        i += 3
        if len(data) < i + slen:
            raise Malformed("sadr")
        r["sadr"] = bytes(data[i:i + slen])
        i += slen
    if c & 0x20:
        if len(data) < i + 1:
            raise Malformed("hops")
        r["hops"] = data[i]
        i += 1
    r["msg_type"] = r["vendor"] = None
    if r["net_msg"]:
        if len(data) < i + 1:
            raise Malformed("msgtype")
        r["msg_type"] = data[i]
        i += 1
        if r["msg_type"] >= 0x80:
            if len(data) < i + 2:
                raise Malformed("vendor")
            r["vendor"] = data[i] * 256 + data[i + 1]
            i += 2
    r["payload"] = bytes(data[i:])
    return r


APDU_NAMES = ["confirmed-request", "unconfirmed-request", "simple-ack", "complex-ack",
              "segment-ack", "error", "reject", "abort"]


def parse_apdu(data):
    """-> dict(type, seg, mor, sa, srv, nak, maxsegs, maxresp, invoke, seq, win, service,
    reason, hdrlen, payload)"""
    if len(data) < 1:
        raise Malformed("empty apdu")
    b0 = data[0]
    t = b0 >> 4
    r = dict(type=t, seg=False, mor=False, sa=False, srv=False, nak=False, maxsegs=None,
             maxresp=None, invoke=None, seq=None, win=None, service=None, reason=None)
    i = 1

    def need(n):
        if len(data) < n:
            raise Malformed("short apdu type %d" % t)
    if t == 0:
        r["seg"], r["mor"], r["sa"] = (b0 & 8) != 0, (b0 & 4) != 0, (b0 & 2) != 0
        need(4)
        r["maxsegs"], r["maxresp"] = (data[1] >> 4) & 7, data[1] & 15
        r["invoke"] = data[2]
        i = 3
        if r["seg"]:
            need(6)
            r["seq"], r["win"] = data[3], data[4]
            i = 5
        r["service"] = data[i]
        i += 1
    elif t == 1:
        need(2)
        r["service"] = data[1]
        i = 2
    elif t == 2:
        need(3)
        r["invoke"], r["service"] = data[1], data[2]
        i = 3
    elif t == 3:
        r["seg"], r["mor"] = (b0 & 8) != 0, (b0 & 4) != 0
        need(3)
        r["invoke"] = data[1]
        i = 2
        if r["seg"]:
            need(5)
            r["seq"], r["win"] = data[2], data[3]
            i = 4
        r["service"] = data[i]
        i += 1
    elif t == 4:
        r["nak"], r["srv"] = (b0 & 2) != 0, (b0 & 1) != 0
        need(4)
        r["invoke"], r["seq"], r["win"] = data[1], data[2], data[3]
        i = 4
    elif t == 5:
        need(3)
        r["invoke"], r["service"] = data[1], data[2]
        i = 3
    elif t == 6:
        need(3)
        r["invoke"], r["reason"] = data[1], data[2]
        i = 3
    elif t == 7:
        r["srv"] = (b0 & 1) != 0
        need(3)
        r["invoke"], r["reason"] = data[1], data[2]
        i = 3
    else:
        raise Malformed("apdu type %d" % t)
    r["hdrlen"] = i
    r["payload"] = bytes(data[i:])
    return r


def parse_frame(data):
    """LAN frame octets -> (npdu dict, apdu dict or None for network-layer messages)"""
    n = parse_npdu(data)
    if n["net_msg"]:
        return n, None
    return n, parse_apdu(n["payload"])


MAX_APDU_BY_CODE = {0: 50, 1: 128, 2: 206, 3: 480, 4: 1024, 5: 1476}
MAX_SEGS_BY_CODE = {0: None, 1: 2, 2: 4, 3: 8, 4: 16, 5: 32, 6: 64, 7: None}
