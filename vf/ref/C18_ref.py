"""C18 - reference model of the address notations, written from the property statement
(and BACnet clause 6 / Annex J numbering), independent of bacpypes/pdu.py.

Only `+ - * // %` on numbers (the same code runs on z3-backed integers), no regular
expressions.
"""

NULL, LOCAL_BROADCAST, LOCAL_STATION, REMOTE_BROADCAST, REMOTE_STATION, GLOBAL_BROADCAST = range(6)

MAX_NET = 65534          # 65535 is the global-broadcast network number, not a network
MAX_STATION = 255        # a station number is one octet
DEFAULT_PORT = 47808     # 0xBAC0


def ip_number(o):
    """the 32-bit number of four octets, most significant first"""
    return ((o[0] * 256 + o[1]) * 256 + o[2]) * 256 + o[3]


def ip_fields(ip, m):
    """what a.b.c.d/m denotes: (mask, subnet, host, directed broadcast) as numbers"""
    size = 2 ** (32 - m)                 # addresses in the subnet
    host = ip % size
    subnet = ip - host
    return 2 ** 32 - size, subnet, host, subnet + size - 1


def port_octets(port):
    return [port // 256, port % 256]


def number_octets(x):
    return [x // 16777216, (x // 65536) % 256, (x // 256) % 256, x % 256]


# ------------------------------------------------------------------ notation recogniser
DIGITS = "0123456789"
HEXDIGITS = "0123456789abcdefABCDEF"
# every character that occurs in some accepted notation (route suffixes excluded)
ALPHABET = DIGITS + "abcdefABCDEF" + "xX':./*"


def _all_in(s, alphabet):
    if not s:
        return False
    for c in s:
        if c not in alphabet:
            return False
    return True


def _is_number(s):
    return _all_in(s, DIGITS)


def _is_hex_pairs(s):
    return len(s) % 2 == 0 and _all_in(s, HEXDIGITS)


def _is_octets(s):
    """0x(hh)+  or  X'(hh)+'"""
    if s[:2] == "0x":
        return _is_hex_pairs(s[2:])
    if s[:2] == "X'" and s[-1:] == "'" and len(s) >= 5:
        return _is_hex_pairs(s[2:-1])
    return False


def _is_ip(s):
    """d.d.d.d[/d][:d]   (numbers only recognised here, their ranges are checked elsewhere)"""
    if ":" in s:
        s, _, port = s.partition(":")
        if not _is_number(port):
            return False
    if "/" in s:
        s, _, mask = s.partition("/")
        if not _is_number(mask):
            return False
    parts = s.split(".")
    if len(parts) != 4:
        return False
    for p in parts:
        if not _is_number(p):
            return False
    return True


def _is_ethernet(s):
    parts = s.split(":")
    if len(parts) != 6:
        return False
    for p in parts:
        if len(p) != 2 or not _all_in(p, HEXDIGITS):
            return False
    return True


def _is_station(s):
    return _is_number(s) or _is_octets(s) or _is_ip(s)


def accepts(s):
    """is the concrete text s one of the notations the statement lists?
    (syntax only: station numbers, net:station, net:*, *, *:*, dotted IPv4 with optional
    mask and port, hex / X'' octet strings, each optionally preceded by `net:`, and the
    colon-separated six-octet form)"""
    if s == "*" or s == "*:*":
        return True
    if _is_station(s) or _is_ethernet(s):
        return True
    if ":" in s:
        net, _, rest = s.partition(":")
        if _is_number(net) and (rest == "*" or _is_station(rest)):
            return True
    return False


def selftest():
    """the reference against the standard library (plain execution, at import of the harness)"""
    import ipaddress
    bad = []
    for text in ("0.0.0.0", "1.2.3.4", "10.0.0.255", "127.0.0.1", "192.168.0.10", "199.200.249.250",
                 "255.255.255.255", "128.0.0.0", "100.64.31.7"):
        o = [int(p) for p in text.split(".")]
        ip = ip_number(o)
        if ip != int(ipaddress.IPv4Address(text)) or number_octets(ip) != o:
            bad.append(("ip_number", text))
        for m in range(33):
            n = ipaddress.ip_interface("%s/%d" % (text, m)).network
            mask, subnet, host, bcast = ip_fields(ip, m)
            if (mask, subnet, host, bcast) != (int(n.netmask), int(n.network_address), ip - int(n.network_address),
                                               int(n.broadcast_address)):
                bad.append(("ip_fields", text, m))
    yes = ["1", "254", "0x01", "0x0102", "X'01'", "X'0102'", "*", "1:*", "1:2", "1:0x02", "1:X'0203'", "*:*",
           "1.2.3.4", "1.2.3.4:47809", "1.2.3.4/24", "1.2.3.4/24:47809", "5:1.2.3.4", "5:1.2.3.4/8:1",
           "01:02:03:04:05:06", "aB:cD:eF:01:23:45", "00012:007"]
    no = ["", ":", "1:", ":1", "*1", "1*", "*:", ":*", "*:*:", "1:*2", "0x", "0x1", "0x123", "X'01", "X01'", "X''",
          "x'01'", "0X01", "1.2.3", "1.2.3.4.5", "1.2.3.4/", "1.2.3.4:", "1.2.3.4/24/8", "1..2.3", ".1.2.3.4",
          "01:02:03:04:05", "01:02:03:04:05:06:07", "01:02:03:04:05:6", "1 ", " 1", "1:2:3", "a", "1@2", "*:5",
          "g0:00:00:00:00:00", "1:1.2.3.4:5:6", "5:*:*"]
    for t in yes:
        if not accepts(t):
            bad.append(("accepts", t))
    for t in no:
        if accepts(t):
            bad.append(("rejects", t))
    return bad
