"""Reference calendar arithmetic and date-pattern matchers for C20.

Written from ASHRAE 135 (2012 and later), independent of bacpypes and of Python's
`calendar` / `datetime` (which the code under test uses): only integer arithmetic
(+ - * // % and comparisons), so the same code runs on z3-backed values and on plain ints.

Clause 20.2.12 (Date), four octets:
    year minus 1900         X'FF' = unspecified (any year)
    month 1..12             13 = odd months, 14 = even months, X'FF' = any month
    day of month 1..31      32 = last day of month, 33 = odd days of month,
                            34 = even days of month, X'FF' = any day of month
    day of week 1..7        1 = Monday .. 7 = Sunday, X'FF' = any day of week
Clause 21 (BACnetWeekNDay), three octets:
    month                   as above (1..14, X'FF')
    week of month           1 = days numbered 1-7, 2 = 8-14, 3 = 15-21, 4 = 22-28, 5 = 29-31,
                            6 = last 7 days of this month,
                            7 = any of the 7 days prior to the last 7 days of this month,
                            8 = any of the 7 days prior to the last 14 days of this month,
                            9 = any of the 7 days prior to the last 21 days of this month,
                            X'FF' = any week of this month
    day of week             1..7, X'FF' = any day of week
Clause 21 (BACnetDateRange) / 12.9, 12.24.6: both dates inclusive; a date whose octets are
all X'FF' is unspecified: as start date "from the beginning of time", as end date "without
end" (open-ended range).

A date is a tuple (year - 1900, month, day, day_of_week), exactly as bacpypes carries it.
"""

ANY = 255
UNSPECIFIED = (255, 255, 255, 255)


# ------------------------------------------------------------------ proleptic Gregorian calendar
def is_leap(year):
    """Gregorian rule: every 4th year, except centuries not divisible by 400"""
    if year % 4 != 0:
        return False
    if year % 100 != 0:
        return True
    return year % 400 == 0


def month_len(year, month):
    """number of days of month 1..12 of the (full) year"""
    if month == 2:
        return 29 if is_leap(year) else 28
    # 31 30 31 30 31 30 31 | 31 30 31 30 31: alternation restarts in August
    return 30 + (month + month // 8) % 2


def leap_ind(year):
    """is_leap as 0/1 by arithmetic only (no branch: the harness draws dates with it)"""
    n4 = (year % 4 + 3) // 4            # 0 when divisible, else 1
    n100 = (year % 100 + 99) // 100
    n400 = (year % 400 + 399) // 400
    return n100 - n4 - n400 + 1


def month_len_a(year, month):
    """month_len by arithmetic only (selftest() shows it equal to month_len)"""
    feb = 1 - ((month - 2) % 12 + 11) // 12
    return 30 + (month + month // 8) % 2 - 2 * feb + (feb + leap_ind(year)) // 2


def days_from_civil(year, month, day):
    """days since 1970-01-01 of a Gregorian date (era arithmetic: years start on
    1 March so that the leap day is the last day of the year; 400-year era = 146097 days)"""
    a = (14 - month) // 12              # 1 for January and February
    y = year - a
    mp = month + 12 * a - 3             # March = 0 .. February = 11
    era = y // 400
    yoe = y - era * 400
    doy = (153 * mp + 2) // 5 + day - 1
    doe = yoe * 365 + yoe // 4 - yoe // 100 + doy
    return era * 146097 + doe - 719468


def civil_from_days(days):
    """inverse of days_from_civil -> (year, month, day)"""
    z = days + 719468
    era = z // 146097
    doe = z - era * 146097
    yoe = (doe - doe // 1460 + doe // 36524 - doe // 146096) // 365
    doy = doe - (365 * yoe + yoe // 4 - yoe // 100)
    mp = (5 * doy + 2) // 153
    day = doy - (153 * mp + 2) // 5 + 1
    if mp < 10:
        month = mp + 3
    else:
        month = mp - 9
    year = yoe + era * 400
    if month <= 2:
        year = year + 1
    return year, month, day


def day_of_week(year, month, day):
    """1 = Monday .. 7 = Sunday (1970-01-01 was a Thursday)"""
    return (days_from_civil(year, month, day) + 3) % 7 + 1


def valid_date(y, month, day):
    """y = year - 1900 in 0..254 (255 is the wildcard), a real calendar day"""
    if not (0 <= y <= 254 and 1 <= month <= 12 and 1 <= day):
        return False
    return day <= month_len(y + 1900, month)


def make_date(y, month, day):
    """bacpypes-style date tuple of a specific day, day of week computed here"""
    return (y, month, day, day_of_week(y + 1900, month, day))


def date_add(date, n):
    """the specific date n days later"""
    yy, mm, dd = civil_from_days(days_from_civil(date[0] + 1900, date[1], date[2]) + n)
    return make_date(yy - 1900, mm, dd)


# ------------------------------------------------------------------ domains of the pattern octets
def month_code_ok(mp):
    return (1 <= mp <= 14) or mp == ANY


def day_code_ok(dp):
    return (1 <= dp <= 34) or dp == ANY


def dow_code_ok(wp):
    return (1 <= wp <= 7) or wp == ANY


def week_code_ok(kp):
    return (1 <= kp <= 9) or kp == ANY


def year_code_ok(yp):
    return 0 <= yp <= 255


# ------------------------------------------------------------------ matchers
def _month_matches(month, mp):
    if mp == ANY:
        return True
    if mp == 13:
        return month % 2 == 1
    if mp == 14:
        return month % 2 == 0
    return month == mp


def match_date(date, pattern):
    """does the specific date belong to the set the date pattern denotes?"""
    y, month, day, dow = date
    yp, mp, dp, wp = pattern
    if yp != ANY and yp != y:
        return False
    if not _month_matches(month, mp):
        return False
    if dp == ANY:
        pass
    elif dp == 32:
        if day != month_len(y + 1900, month):
            return False
    elif dp == 33:
        if day % 2 != 1:
            return False
    elif dp == 34:
        if day % 2 != 0:
            return False
    elif day != dp:
        return False
    if wp != ANY and wp != dow:
        return False
    return True


def match_weeknday(date, wnd):
    """wnd = (month code, week-of-month code, day-of-week code)"""
    y, month, day, dow = date
    mp, kp, wp = wnd
    if not _month_matches(month, mp):
        return False
    if kp == ANY:
        pass
    elif kp <= 5:
        # weeks counted from the first day: 1-7, 8-14, 15-21, 22-28, 29-31
        if (day - 1) // 7 + 1 != kp:
            return False
    else:
        # 7-day blocks counted back from the last day: 6 = last 7 days, 7..9 the blocks before
        back = month_len(y + 1900, month) - day          # 0 for the last day
        if back // 7 != kp - 6:
            return False
    if wp != ANY and wp != dow:
        return False
    return True


def is_unspecified(date):
    return date[0] == ANY and date[1] == ANY and date[2] == ANY


def _key(date):
    """order-preserving integer of a specific (y, m, d)"""
    return date[0] * 10000 + date[1] * 100 + date[2]


def match_date_range(date, start, end):
    """inclusive range of specific dates; an unspecified start / end leaves that side open"""
    k = _key(date)
    if not is_unspecified(start):
        if k < _key(start):
            return False
    if not is_unspecified(end):
        if k > _key(end):
            return False
    return True


def match_entry(date, entry):
    """entry = ('date', pattern) | ('range', start, end) | ('wnd', (m, k, w))"""
    if entry[0] == 'date':
        return match_date(date, entry[1])
    if entry[0] == 'range':
        return match_date_range(date, entry[1], entry[2])
    if entry[0] == 'wnd':
        return match_weeknday(date, entry[1])
    raise AssertionError(entry[0])


# ------------------------------------------------------------------ self-test of the reference
def selftest():
    """plain-Python check of the calendar arithmetic above against the C library's view
    (datetime) on every day 1900-01-01 .. 2154-12-31, and of the matchers on the literals
    of the repository's own samples.  Returns a list of problems (empty = fine)."""
    import datetime
    bad = []
    d0 = datetime.date(1900, 1, 1)
    n0 = days_from_civil(1900, 1, 1)
    last = datetime.date(2154, 12, 31)
    one = datetime.timedelta(days=1)
    cur, n = d0, n0
    while cur <= last:
        y, m, d = cur.year, cur.month, cur.day
        if days_from_civil(y, m, d) != n or civil_from_days(n) != (y, m, d) \
                or day_of_week(y, m, d) != cur.isoweekday() \
                or not valid_date(y - 1900, m, d):
            bad.append(("calendar", y, m, d))
            break
        nxt = cur + one
        if nxt.month != m and (month_len(y, m) != d or month_len_a(y, m) != d
                               or leap_ind(y) != (1 if is_leap(y) else 0)):
            bad.append(("month_len", y, m))
            break
        cur, n = nxt, n + 1
    if days_from_civil(1970, 1, 1) != 0:
        bad.append("epoch")
    if valid_date(0, 2, 29) or not valid_date(100, 2, 29) or valid_date(200, 2, 29) or valid_date(123, 4, 31):
        bad.append("valid_date")
    # samples/LocalScheduleObject1.py: 2000-01-01, every Friday
    if not match_date((100, 1, 1, 6), (100, 1, 1, 6)) or match_date((100, 1, 2, 7), (100, 1, 1, 6)):
        bad.append("sample date")
    if not match_weeknday((124, 3, 1, 5), (255, 255, 5)) or match_weeknday((124, 3, 2, 6), (255, 255, 5)):
        bad.append("sample weeknday")
    if not match_date_range((70, 1, 1, 4), (0, 1, 1, 1), (254, 12, 31, 2)):
        bad.append("sample range")
    return bad
