"""C03 reference encoder: neutral value model + reference wire schema -> octets.

Independent of bacpypes (imports nothing from it).  The tagging rules are clause 20.2.1
(primitive application / context tags, opening / closing tags of constructed data), the
contents are the clause 20.2 encodings of vf/ref/C01_ref.py, the productions (order of the
elements, base types, context tag numbers, OPTIONAL) come from /verif/ref/asn1_schema.json.

Neutral value model (plain tuples, produced by the generator, see C03_gen.py)

    ('atom', kind, py, extra)     kind = clause 20.2 datatype name; py = the Python value;
                                  extra = number of an enumeration value / (type number,
                                  instance) of an object identifier / None
    ('seq', [(name, M | None)])   None = element absent
    ('choice', name, M, names)
    ('list', [M, ...])
    ('any', [item, ...])          item = atom | ('open', n) | ('close', n)
    ('anyatomic', atom)

Only `+ - * // %` on possibly symbolic integers.
"""
import json
import os
import struct

from . import C01_ref as R

APP, CTX = R.APP, R.CTX
PRIMNUM = dict((n, i) for i, n in enumerate(R.DATATYPE))

SCHEMA_PATH = os.path.join(os.path.dirname(os.path.dirname(os.path.dirname(os.path.abspath(__file__)))),
                           "ref", "asn1_schema.json")
ANNEXF_PATH = os.path.join(os.path.dirname(SCHEMA_PATH), "annexf.json")

INTEGRAL = ("Unsigned", "Integer", "Enumerated")
FLOATING = ("Real", "Double")


class SchemaGap(Exception):
    """the value has a field the schema does not know (an addition to the tree): the
    differential oracle does not apply to this value"""


class StandardSaysInvalid(Exception):
    """the value is not a value of the production (required element absent, not exactly
    one alternative of a CHOICE)"""

    def __init__(self, production, element, why):
        Exception.__init__(self, production, element, why)
        self.production, self.element, self.why = production, element, why


class TypeClash(Exception):
    """the value's datatype cannot be a value of the element's base type"""

    def __init__(self, production, element, want, got):
        Exception.__init__(self, production, element, want, got)
        self.production, self.element, self.want, self.got = production, element, want, got


_cache = {}


def load_schema(path=None):
    path = path or SCHEMA_PATH
    if path not in _cache:
        with open(path) as f:
            _cache[path] = json.load(f)
    return _cache[path]


def load_annexf(path=None):
    path = path or ANNEXF_PATH
    if path not in _cache:
        with open(path) as f:
            _cache[path] = json.load(f)
    return _cache[path]


# ---------------------------------------------------------------- 20.2.1 framing
def opening(n):
    return [(n * 16 if n < 15 else 0xF0) + 0x0E] + ([n] if n >= 15 else [])


def closing(n):
    return [(n * 16 if n < 15 else 0xF0) + 0x0F] + ([n] if n >= 15 else [])


def contents(kind, atom, where=("?", "?")):
    """clause 20.2.x contents octets of an atom taken as a value of datatype `kind`"""
    _, akind, py, extra = atom
    if kind in INTEGRAL:
        if akind not in INTEGRAL:
            raise TypeClash(where[0], where[1], kind, akind)
        v = extra if akind == "Enumerated" else py
        if kind == "Integer":
            return R.signed_contents(v)
        if v < 0:
            raise TypeClash(where[0], where[1], kind, akind + " (negative)")
        return R.unsigned_contents(v)
    if kind in FLOATING:
        if akind not in FLOATING:
            raise TypeClash(where[0], where[1], kind, akind)
        return list(struct.pack(">f" if kind == "Real" else ">d", py))
    if akind != kind:
        raise TypeClash(where[0], where[1], kind, akind)
    if kind == "Null":
        return []
    if kind == "Boolean":
        return [1 if py else 0]
    if kind == "OctetString":
        return list(py)
    if kind == "CharacterString":
        return R.charstring_contents([ord(c) for c in py])
    if kind == "BitString":
        return R.bitstring_contents(list(py))
    if kind in ("Date", "Time"):
        return list(py)
    if kind == "ObjectIdentifier":
        return R.object_identifier_contents(extra[0], extra[1])
    raise AssertionError(kind)


def primitive(kind, ctx, atom, where=("?", "?")):
    c = contents(kind, atom, where)
    if ctx is None:
        if kind == "Boolean":
            # 20.2.3: application-tagged Boolean carries its value in the L/V/T field
            return R.tag_header(APP, PRIMNUM[kind], c[0])
        return R.tagged(APP, PRIMNUM[kind], c)
    return R.tagged(CTX, ctx, c)


def any_items(items):
    out = []
    for it in items:
        if it[0] == "open":
            out += opening(it[1])
        elif it[0] == "close":
            out += closing(it[1])
        elif it[0] == "ctx":
            out += R.tagged(CTX, it[1], list(it[2]))
        else:
            out += primitive(it[1], None, it)
    return out


# ---------------------------------------------------------------- productions
class Encoder(object):

    def __init__(self, schema=None):
        self.schema = schema or load_schema()
        self.prods = self.schema["productions"]

    def known(self, name):
        return name in self.prods

    def audited(self, name):
        return bool(self.prods.get(name, {}).get("audited"))

    def production(self, name, M, drop=None):
        """octets of value M of production `name`; drop = name of a top-level element to
        leave out (used to build 'required element missing' inputs)"""
        p = self.prods.get(name)
        if p is None:
            raise SchemaGap("production %s" % name)
        if p["kind"] == "choice":
            if M[0] == "seq":
                # the tree models this CHOICE as a SEQUENCE of optional elements
                present = [(n, c) for n, c in M[1] if c is not None]
                if len(present) != 1:
                    raise StandardSaysInvalid(name, None, "%d alternatives of a CHOICE" % len(present))
                alt, child = present[0]
            elif M[0] == "choice":
                alt, child = M[1], M[2]
            else:
                raise TypeClash(name, None, "choice", M[0])
            for el in p["elements"]:
                if el["name"] == alt:
                    return self.element(name, el, child)
            raise SchemaGap("alternative %s.%s" % (name, alt))
        if M[0] != "seq":
            raise TypeClash(name, None, "sequence", M[0])
        fields = dict(M[1])
        names = set()
        out = []
        for el in p["elements"]:
            names.add(el["name"])
            if el["name"] == drop:
                continue
            if el["name"] not in fields:
                if el["optional"]:
                    continue
                raise SchemaGap("class has no element %s.%s" % (name, el["name"]))
            child = fields[el["name"]]
            if child is None:
                if el["optional"]:
                    continue
                raise StandardSaysInvalid(name, el["name"], "required element absent")
            out += self.element(name, el, child)
        for n, c in M[1]:
            if n not in names and c is not None:
                raise SchemaGap("element %s.%s" % (name, n))
        return out

    def element(self, pname, el, M):
        t, ctx = el["type"], el["context"]
        where = (pname, el["name"])
        if el.get("list"):
            if M[0] != "list":
                raise TypeClash(pname, el["name"], "list", M[0])
            out = []
            if ctx is not None:
                out += opening(ctx)
            for it in M[1]:
                out += self.value(t, None, it, where)
            if ctx is not None:
                out += closing(ctx)
            return out
        return self.value(t, ctx, M, where)

    def value(self, t, ctx, M, where):
        if t in PRIMNUM:
            if M[0] != "atom":
                raise TypeClash(where[0], where[1], t, M[0])
            return primitive(t, ctx, M, where)
        if t == "AnyAtomic":
            if M[0] != "anyatomic":
                raise TypeClash(where[0], where[1], t, M[0])
            if ctx is not None:
                raise SchemaGap("context tagged AnyAtomic")
            return primitive(M[1][1], None, M[1], where)
        if t in ("Any", "SequenceOfAny"):
            if M[0] != "any":
                raise TypeClash(where[0], where[1], t, M[0])
            body = any_items(M[1])
            if ctx is None:
                return body
            return opening(ctx) + body + closing(ctx)
        if M[0] not in ("seq", "choice"):
            raise TypeClash(where[0], where[1], t, M[0])
        body = self.production(t, M)
        if ctx is None:
            return body
        return opening(ctx) + body + closing(ctx)


# ---------------------------------------------------------------- top-level items
def item_spans(data):
    """split a tag stream (octets the library produced for a well-formed value; concrete
    framing, possibly symbolic contents) into its top-level items -> [(start, end)].
    An item is one primitive tag with its contents or one opening..closing group.
    Clause 20.2.1 header layout; lengths up to 253 (the harness's strings are short)."""
    spans = []
    pos, depth, start = 0, 0, 0
    n = len(data)
    while pos < n:
        first = data[pos]
        here = pos
        pos += 1
        if first // 16 == 15:
            pos += 1
        lvt = first % 8
        is_ctx = (first // 8) % 2 == 1
        if is_ctx and lvt == 6:
            if depth == 0:
                start = here
            depth += 1
            continue
        if is_ctx and lvt == 7:
            depth -= 1
            if depth == 0:
                spans.append((start, pos))
            continue
        if not is_ctx and first // 16 == 1:
            length = 0              # application Boolean: no contents
        elif lvt == 5:
            length = data[pos]
            pos += 1
        else:
            length = lvt
        pos += length
        if depth == 0:
            spans.append((here, pos))
    return spans


# ---------------------------------------------------------------- Annex F examples
def _slot(v, slots):
    if isinstance(v, str) and v.startswith("$"):
        return slots[v[1:]]
    return v


def model_from_json(spec, slots):
    """value spec of annexf.json -> neutral model, `$x` replaced by slots[x]"""
    if spec is None:
        return None
    (k, v), = spec.items()
    if k == "seq":
        return ("seq", [(n, model_from_json(c, slots)) for n, c in v])
    if k == "choice":
        return ("choice", v[0], model_from_json(v[1], slots), list(v[2]))
    if k == "list":
        return ("list", [model_from_json(c, slots) for c in v])
    if k == "any":
        return ("any", [model_from_json(c, slots) for c in v])
    if k == "open" or k == "close":
        return (k, v)
    if k == "unsigned":
        return ("atom", "Unsigned", _slot(v, slots), None)
    if k == "integer":
        return ("atom", "Integer", _slot(v, slots), None)
    if k == "enum":
        return ("atom", "Enumerated", v[0], v[1])
    if k == "oid":
        inst = _slot(v[2], slots)
        return ("atom", "ObjectIdentifier", (v[0], inst), (v[1], inst))
    if k == "real":
        return ("atom", "Real", float(v), None)
    if k == "double":
        return ("atom", "Double", float(v), None)
    if k == "bool":
        return ("atom", "Boolean", bool(v), None)
    if k == "chars":
        return ("atom", "CharacterString", _slot(v, slots), None)
    if k == "octets":
        v = _slot(v, slots)
        return ("atom", "OctetString", bytes.fromhex(v) if isinstance(v, str) else v, None)
    if k == "bits":
        return ("atom", "BitString", list(v), None)
    if k in ("date", "time"):
        return ("atom", "Date" if k == "date" else "Time", tuple(_slot(v, slots)), None)
    if k == "null":
        return ("atom", "Null", (), None)
    raise AssertionError(k)


def body_from_json(body, slots):
    """the example's octets for the given slot values -> list of ints"""
    out = []
    for part in body:
        if isinstance(part, str):
            out += list(bytes.fromhex(part))
        elif "u" in part:
            out += R.be(_slot(part["u"], slots), part["n"])
        elif "oid" in part:
            out += R.be(part["oid"] * 4194304 + _slot(part["inst"], slots), 4)
        elif "chars" in part:
            out += [ord(c) for c in _slot(part["chars"], slots)]
        elif "quad" in part:
            out += list(_slot(part["quad"], slots))
        else:
            raise AssertionError(part)
    return out


def published_slots(ex):
    out = {}
    for name, s in ex["slots"].items():
        v = s["published"]
        out[name] = tuple(v) if s["kind"] == "quad" else v
    return out
