"""Reference layouts for C08, written from ASHRAE 135 clause 6.2 (NPCI) and clause 6.4
(network layer messages).  Independent of bacpypes: only ints, bytes, lists and tuples.

Arithmetic uses + * // % and masks by a constant only (no | & ^ between two symbolic ints),
so the very same code runs on z3-backed values and on plain ints.

Address shapes used throughout:
    dadr:  None | ('station', net, addr) | ('rbcast', net) | ('global',)
    sadr:  None | (net, addr)
"""


def defined_control_bits(ctl):
    """the control octet with the reserved bits 6 and 4 cleared (arithmetic only: a mask
    with a hole, like 0xAF, makes CrossHair enumerate the values of a symbolic int)"""
    return ctl - ((ctl // 64) % 2) * 64 - ((ctl // 16) % 2) * 16


def u16(n):
    """16-bit unsigned, most significant octet first"""
    return [n // 256, n % 256]


# ------------------------------------------------------------------ clause 6.2: NPCI
def npci_control(er, prio, has_dnet, has_snet, is_netmsg):
    """6.2.2: bit 7 network layer message, 6 reserved, 5 DNET/DLEN/DADR/hop count present,
    4 reserved, 3 SNET/SLEN/SADR present, 2 data expecting reply, 1..0 priority"""
    ctl = prio
    if is_netmsg:
        ctl += 0x80
    if has_dnet:
        ctl += 0x20
    if has_snet:
        ctl += 0x08
    if er:
        ctl += 0x04
    return ctl


def npci_octets(er, prio, dadr, sadr, hops, msg, vendor):
    """the header only (6.2): version, control, [DNET DLEN DADR], [SNET SLEN SADR],
    [hop count] (iff DNET present), [message type] (iff bit 7), [vendor id] (iff type >= 0x80)"""
    out = bytes([1, npci_control(er, prio, dadr is not None, sadr is not None, msg is not None)])
    if dadr is not None:
        if dadr[0] == 'station':
            out = out + bytes(u16(dadr[1]) + [len(dadr[2])]) + bytes(dadr[2])
        elif dadr[0] == 'rbcast':
            out = out + bytes(u16(dadr[1]) + [0])
        elif dadr[0] == 'global':
            out = out + bytes([0xFF, 0xFF, 0])
        else:
            raise AssertionError(dadr)
    if sadr is not None:
        out = out + bytes(u16(sadr[0]) + [len(sadr[1])]) + bytes(sadr[1])
    if dadr is not None:
        out = out + bytes([hops])
    if msg is not None:
        out = out + bytes([msg])
        if msg >= 0x80:
            out = out + bytes(u16(vendor))
    return out


class Parsed(object):
    """result of npci_parse: what clause 6.2 says the octets mean"""

    def __init__(self):
        self.status = None      # 'forbidden' | 'valid' | 'odd'
        self.reason = None      # why forbidden / odd
        self.control = None
        self.er = None
        self.prio = None
        self.dnet = self.dlen = self.dadr = None
        self.snet = self.slen = self.sadr = None
        self.hops = None
        self.msg = None
        self.vendor = None
        self.hdrlen = None
        self.pins = []          # [(index, value)] length octets pinned to plain ints


def pin(v, hi):
    """v itself, but as a plain int when it lies in 0..hi.  Under symbolic execution this
    forks once per feasible value, so that a length octet that is about to be used as a
    slice bound is a concrete number on each path (a symbolic slice bound leaves a buffer of
    symbolic *length* behind, on which every further operation costs hundreds of queries).
    On plain ints it is the identity."""
    for k in range(hi + 1):
        if v == k:
            return k
    return v


def _forbid(p, why):
    p.status = 'forbidden'
    p.reason = why
    return p


def npci_parse(data):
    """Classify an octet string as a clause 6.2 header + payload.

    'forbidden' – what the property statement says must be refused: version other than 1,
                  SNET = 0xFFFF (broadcast source), SLEN = 0 (zero-length / broadcast
                  source), or fewer octets than the control octet and length fields call for;
    'valid'     – a header that a conforming device may send;
    'odd'       – laid out consistently but using something the standard reserves and the
                  statement is silent about: a reserved control bit (6, 4) set, DNET or SNET
                  of 0, DNET = 0xFFFF together with DLEN > 0.
    """
    p = Parsed()
    n = len(data)
    if n < 1:
        return _forbid(p, 'truncated')
    if data[0] != 1:
        return _forbid(p, 'version')
    if n < 2:
        return _forbid(p, 'truncated')
    ctl = data[1]
    p.control = ctl
    p.er = (ctl & 0x04) != 0
    p.prio = ctl & 0x03
    odd = None
    if (ctl // 64) % 2 != 0 or (ctl // 16) % 2 != 0:
        odd = 'reserved-control-bit'
    pos = 2
    if (ctl & 0x20) != 0:
        if n < pos + 3:
            return _forbid(p, 'truncated')
        p.dnet = data[pos] * 256 + data[pos + 1]
        p.dlen = pin(data[pos + 2], n - pos - 3)
        pos += 3
        if n < pos + p.dlen:
            return _forbid(p, 'truncated')
        p.pins.append((pos - 1, p.dlen))
        p.dadr = data[pos:pos + p.dlen]
        pos += p.dlen
        if p.dnet == 0:
            odd = 'dnet-0'
        elif p.dnet == 0xFFFF and p.dlen != 0:
            odd = 'global-broadcast-with-dadr'
    if (ctl & 0x08) != 0:
        if n < pos + 3:
            return _forbid(p, 'truncated')
        p.snet = data[pos] * 256 + data[pos + 1]
        p.slen = pin(data[pos + 2], n - pos - 3)
        pos += 3
        if n < pos + p.slen:
            return _forbid(p, 'truncated')
        p.pins.append((pos - 1, p.slen))
        p.sadr = data[pos:pos + p.slen]
        pos += p.slen
        if p.snet == 0xFFFF:
            return _forbid(p, 'snet-ffff')
        if p.slen == 0:
            return _forbid(p, 'slen-0')
        if p.snet == 0:
            odd = 'snet-0'
    if (ctl & 0x20) != 0:
        if n < pos + 1:
            return _forbid(p, 'truncated')
        p.hops = data[pos]
        pos += 1
    if (ctl & 0x80) != 0:
        if n < pos + 1:
            return _forbid(p, 'truncated')
        p.msg = data[pos]
        pos += 1
        if p.msg >= 0x80:
            if n < pos + 2:
                return _forbid(p, 'truncated')
            p.vendor = data[pos] * 256 + data[pos + 1]
            pos += 2
    p.hdrlen = pos
    if odd is not None:
        p.status = 'odd'
        p.reason = odd
    else:
        p.status = 'valid'
    return p


# ------------------------------------------------------------------ clause 6.4: messages
# message type octet -> name of the message (6.2.4 table)
MESSAGE_TYPES = {
    0x00: 'WhoIsRouterToNetwork',
    0x01: 'IAmRouterToNetwork',
    0x02: 'ICouldBeRouterToNetwork',
    0x03: 'RejectMessageToNetwork',
    0x04: 'RouterBusyToNetwork',
    0x05: 'RouterAvailableToNetwork',
    0x06: 'InitializeRoutingTable',
    0x07: 'InitializeRoutingTableAck',
    0x08: 'EstablishConnectionToNetwork',
    0x09: 'DisconnectConnectionToNetwork',
    0x12: 'WhatIsNetworkNumber',
    0x13: 'NetworkNumberIs',
}


def body_net_opt(net):
    """6.4.1 Who-Is-Router-To-Network: optional 2-octet DNET"""
    return bytes(u16(net)) if net is not None else b''


def body_net_list(nets):
    """6.4.2 / 6.4.5 / 6.4.6: zero or more 2-octet network numbers"""
    o = []
    for n in nets:
        o += u16(n)
    return bytes(o)


def body_net_octet(net, octet):
    """6.4.3 (DNET, performance index), 6.4.9 (DNET, termination time),
    6.4.20 (network number, configured flag): 2-octet number then one octet"""
    return bytes(u16(net) + [octet])


def body_octet_net(octet, net):
    """6.4.4 Reject-Message-To-Network: reason octet then 2-octet DNET"""
    return bytes([octet] + u16(net))


def body_net(net):
    """6.4.10 Disconnect-Connection-To-Network: 2-octet DNET"""
    return bytes(u16(net))


def body_routing_table(entries):
    """6.4.7 / 6.4.8: number of ports, then per port DNET(2) port-ID(1) info-length(1) info"""
    out = bytes([len(entries)])
    for dnet, port, info in entries:
        out = out + bytes(u16(dnet) + [port, len(info)]) + bytes(info)
    return out
