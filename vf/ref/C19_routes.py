"""Reference model for C19: what a node should know about next hops.

Written from the property statement ("one next hop per destination, newest announcement
wins, forgetting removes exactly what was named") and, for the frames, from clause 6.2 of
the standard.  Nothing here imports or mirrors bacpypes.netservice.

A router is identified by the one MAC octet of its LAN address.
"""


class RefRoutes:
    """(source net, destination net) -> router; the newest statement about a pair wins"""

    def __init__(self, m=None):
        self.m = dict(m or {})

    def copy(self):
        return RefRoutes(self.m)

    def get(self, s, x):
        return self.m.get((s, x))

    def learn(self, s, a, dnets):
        for x in dnets:
            self.m[(s, x)] = a

    def forget_router(self, s, a):
        for k in [k for k, v in self.m.items() if k[0] == s and v == a]:
            del self.m[k]

    def forget_router_dnets(self, s, a, dnets):
        # "forgetting ... removes exactly that": only what this router is credited with
        for x in dnets:
            if self.m.get((s, x)) == a:
                del self.m[(s, x)]

    def forget_dnets(self, s, dnets):
        for x in dnets:
            self.m.pop((s, x), None)

    def renumber(self, old, new):
        """the attached network `old` is now called `new`.

        Returns None when the outcome is determined (the model has been updated), or
        (moved, kept) when `new` already carries knowledge: the statement does not say how
        two bodies of knowledge are combined, so the caller accepts any combination
        (see `renumber_allowed`) and adopts what it observes."""
        if old == new:
            return None
        moved = {k[1]: v for k, v in self.m.items() if k[0] == old}
        kept = {k[1]: v for k, v in self.m.items() if k[0] == new}
        if kept:
            return moved, kept
        for x in moved:
            del self.m[(old, x)]
        for x, a in moved.items():
            self.m[(new, x)] = a
        return None

    def adopt(self, observed):
        """continue from what the implementation shows (after a reported divergence or an
        outcome the statement leaves open)"""
        self.m = {k: v for k, v in observed.items() if v is not None}


def renumber_allowed(before, after, old, new, moved, kept, dnets):
    """outcome of renumbering onto a network that already has knowledge: either nothing
    changed, or `old` is gone and every (new, x) is one of: the moved router, the router
    already known there, nothing"""
    if all(after.get(k) == before.get(k) for k in before):
        return True
    for x in dnets:
        if after.get((old, x)) is not None:
            return False
        if after.get((new, x)) not in (moved.get(x), kept.get(x), None):
            return False
    return True


# ---------------------------------------------------------------- frames (clause 6.2)
def _u16(n):
    return [n // 256, n % 256]


def frame_i_am_router(nets):
    """I-Am-Router-To-Network: version 1, control = network layer message, type 0x01,
    then one 2-octet network number per reachable network"""
    o = [0x01, 0x80, 0x01]
    for n in nets:
        o += _u16(n)
    return o


def frame_network_number_is(net, configured):
    """Network-Number-Is: type 0x13, 2-octet network number, flag (1 = configured)"""
    return [0x01, 0x80, 0x13] + _u16(net) + [1 if configured else 0]


def frame_routed_apdu(snet, sadr, apdu):
    """application data that crossed a router: control = SNET/SLEN/SADR present (0x08),
    no DNET (final hop), then the APDU"""
    return routed_head(snet, len(sadr)) + list(sadr) + list(apdu)


def routed_head(snet, slen):
    """the fixed part of the above, up to and including SLEN (the caller appends SADR and
    the APDU, which may be symbolic octet strings)"""
    return [0x01, 0x08] + _u16(snet) + [slen]


def routed_to_head(dnet, dlen):
    """a packet on its way to a remote station: control = DNET/DLEN/DADR present (0x20);
    fixed part up to and including DLEN (the caller appends DADR, hop count, APDU)"""
    return [0x01, 0x20] + _u16(dnet) + [dlen]


def frame_who_is_router(net):
    return [0x01, 0x80, 0x00] + _u16(net)


def parse_frame(o):
    """network header of an emitted frame -> dict(dnet, dadr, snet, msg, body), or None when
    it is not a well-formed version 1 NPDU.  Only the fields the oracle needs."""
    o = list(o)
    if len(o) < 2 or o[0] != 1:
        return None
    c = o[1]
    p = 2
    out = dict(dnet=None, dadr=None, snet=None, msg=None, body=None)
    if c & 0x20:
        if len(o) < p + 3:
            return None
        out['dnet'] = o[p] * 256 + o[p + 1]
        n = o[p + 2]
        out['dadr'] = o[p + 3:p + 3 + n]
        p += 3 + n
    if c & 0x08:
        if len(o) < p + 3:
            return None
        out['snet'] = o[p] * 256 + o[p + 1]
        n = o[p + 2]
        p += 3 + n
    if c & 0x20:
        p += 1          # hop count
    if p > len(o):
        return None
    if c & 0x80:
        if p >= len(o):
            return None
        out['msg'] = o[p]
        p += 1
    out['body'] = o[p:]
    return out
