"""Reference side of C15: numbers, value encodings and the response layouts of
ReadProperty / WriteProperty / ReadPropertyMultiple, written from ASHRAE 135 (clauses 15.5,
15.7, 15.9, 18, 20.2, 21) - independent of bacpypes.  Only + - * // % and comparisons on
(possibly symbolic) integers, so it runs unchanged under the symbolic engine and under
plain CPython.

Also the property-store model (a python dict) the wire harness compares the device with.
"""
import struct

# ---------------------------------------------------------------- clause 21 numbers
PROP = {
    'all': 8, 'optional': 80, 'required': 105,
    'presentValue': 85, 'description': 28, 'polarity': 84, 'outOfService': 81, 'covIncrement': 22,
    'units': 117, 'deviceType': 31, 'objectIdentifier': 75, 'objectName': 77, 'objectType': 79,
    'propertyList': 371, 'stateText': 110, 'memberOf': 159, 'vendorName': 121, 'profileName': 168,
    'controlGroups': 367, 'alarmValues': 7,
}
ERROR_CLASS = {'device': 0, 'object': 1, 'property': 2, 'resources': 3, 'security': 4, 'services': 5,
               'vt': 6, 'communication': 7}
ERROR_CODE = {'other': 0, 'inconsistentParameters': 7, 'invalidDataType': 9, 'invalidParameterDataType': 13,
              'missingRequiredParameter': 16, 'operationalProblem': 25, 'unknownObject': 31,
              'unknownProperty': 32, 'valueOutOfRange': 37, 'writeAccessDenied': 40, 'invalidArrayIndex': 42,
              'datatypeNotSupported': 47, 'propertyIsNotAnArray': 50, 'invalidTag': 57,
              'rejectInconsistentParameters': 60, 'rejectInvalidParameterDataType': 61, 'rejectInvalidTag': 62,
              'rejectTooManyArguments': 65}
REJECT = {'other': 0, 'bufferOverflow': 1, 'inconsistentParameters': 2, 'invalidParameterDatatype': 3,
          'invalidTag': 4, 'missingRequiredParameter': 5, 'parameterOutOfRange': 6, 'tooManyArguments': 7,
          'undefinedEnumeration': 8, 'unrecognizedService': 9}
ERROR_CLASS_NAME = dict((v, k) for k, v in ERROR_CLASS.items())
ERROR_CODE_NAME = dict((v, k) for k, v in ERROR_CODE.items())

# services
READ_PROPERTY, WRITE_PROPERTY, READ_PROPERTY_MULTIPLE = 12, 15, 14

# what may answer a value of the wrong datatype ("the matching error"): a reject or an error that
# names the datatype / tag problem.  arity = the value has the wrong number of elements (a
# sequence where a primitive is expected or nothing at all)
DT_REJECTS = (REJECT['invalidParameterDatatype'], REJECT['invalidTag'])
DT_REJECTS_ARITY = DT_REJECTS + (REJECT['tooManyArguments'], REJECT['inconsistentParameters'],
                                 REJECT['missingRequiredParameter'])
DT_ERROR_CODES = (ERROR_CODE['invalidDataType'], ERROR_CODE['invalidParameterDataType'],
                  ERROR_CODE['datatypeNotSupported'], ERROR_CODE['invalidTag'],
                  ERROR_CODE['rejectInvalidParameterDataType'], ERROR_CODE['rejectInvalidTag'])
DT_ERROR_CODES_ARITY = DT_ERROR_CODES + (ERROR_CODE['rejectTooManyArguments'], ERROR_CODE['rejectInconsistentParameters'],
                                         ERROR_CODE['inconsistentParameters'], ERROR_CODE['missingRequiredParameter'])


# ---------------------------------------------------------------- clause 20.2 encodings
def _uint_octets(v):
    """minimal big-endian octets of a non-negative integer (at least one)"""
    if v < 256:
        return [v]
    if v < 65536:
        return [v // 256, v % 256]
    if v < 16777216:
        return [v // 65536, (v // 256) % 256, v % 256]
    return [v // 16777216, (v // 65536) % 256, (v // 256) % 256, v % 256]


def _hdr(num, cls, n):
    """tag header: number 0..14, class bit, n content octets"""
    first = num * 16 + (8 if cls else 0)
    if n < 5:
        return [first + n]
    if n < 254:
        return [first + 5, n]
    return [first + 5, 254, n // 256, n % 256]


def app_null():
    return [0x00]


def app_bool(v):
    return [0x11 if v else 0x10]


def app_unsigned(v):
    o = _uint_octets(v)
    return _hdr(2, 0, len(o)) + o


def app_real(f):
    return [0x44] + list(struct.pack('>f', f))


def app_string(s):
    o = [0] + list(s.encode('utf-8'))
    return _hdr(7, 0, len(o)) + o


def app_enum(v):
    o = _uint_octets(v)
    return _hdr(9, 0, len(o)) + o


def objid_octets(t, i):
    n = t * 4194304 + i
    return [n // 16777216, (n // 65536) % 256, (n // 256) % 256, n % 256]


def app_objid(t, i):
    return [0xC4] + objid_octets(t, i)


def ctx_uint(num, v):
    o = _uint_octets(v)
    return _hdr(num, 1, len(o)) + o


def ctx_objid(num, t, i):
    return [num * 16 + 8 + 4] + objid_octets(t, i)


def opening(num):
    return [num * 16 + 0x0E]


def closing(num):
    return [num * 16 + 0x0F]


def encode_value(v):
    """application encoding of a model value (kind, content)"""
    k, x = v
    if k == 'u':
        return app_unsigned(x)
    if k == 's':
        return app_string(x)
    if k == 'e':
        return app_enum(x)
    if k == 'b':
        return app_bool(x)
    if k == 'r':
        return app_real(x)
    if k == 'oid':
        return app_objid(x[0], x[1])
    if k == 'au' or k == 'lu':
        out = []
        for e in x:
            out += app_unsigned(e)
        return out
    if k == 'as':
        out = []
        for e in x:
            out += app_string(e)
        return out
    raise AssertionError(k)


# ---------------------------------------------------------------- reading what came back
class Tok(object):
    __slots__ = ('cls', 'num', 'start', 'end', 'hstart')    # cls: 0 app, 1 ctx, 2 open, 3 close

    def __init__(self, cls, num, hstart, start, end):
        self.cls, self.num, self.hstart, self.start, self.end = cls, num, hstart, start, end


def _pin(v, lo, hi):
    """v lies in lo..hi: return it as a plain int"""
    for k in range(lo, hi):
        if v == k:
            return k
    return hi


def octets(x):
    """octet string -> python list of ints, element by element (keeps concrete octets concrete and cheap
    under the symbolic engine; comparing long symbolic byte strings as a whole is slow)"""
    n = len(x)
    return [x[k] for k in range(n)]


def eq_octets(a, b):
    if len(a) != len(b):
        return False
    for x, y in zip(a, b):
        if x != y:
            return False
    return True


def tokenize(data):
    """split an octet string into tags (20.2.1); raises ValueError when it does not parse"""
    out = []
    pos = 0
    n = len(data)
    while pos < n:
        h = pos
        b = data[pos]
        pos += 1
        num = b // 16
        cbit = (b // 8) % 2
        low = b % 8
        if num == 15:
            if pos >= n:
                raise ValueError("truncated")
            num = data[pos]
            pos += 1
        if cbit == 1 and low == 6:
            out.append(Tok(2, num, h, pos, pos))
            continue
        if cbit == 1 and low == 7:
            out.append(Tok(3, num, h, pos, pos))
            continue
        if cbit == 0 and num == 1:         # application boolean: value in the header
            out.append(Tok(0, num, h, pos, pos))
            continue
        ln = low
        if low == 5:
            if pos >= n:
                raise ValueError("truncated")
            ln = data[pos]
            pos += 1
            if ln == 254:
                if pos + 2 > n:
                    raise ValueError("truncated")
                ln = data[pos] * 256 + data[pos + 1]
                pos += 2
            elif ln == 255:
                raise ValueError("length form not expected here")
        if pos + ln > n:
            raise ValueError("truncated")
        end = _pin(pos + ln, pos, n)
        out.append(Tok(cbit, num, h, pos, end))
        pos = end
    return out


def _uint(data, t):
    v = 0
    for k in range(t.start, t.end):
        v = v * 256 + data[k]
    return v


def parse_error(payload):
    """Error-PDU parameters of ReadProperty/WriteProperty/RPM: error-class, error-code (18, 21)"""
    toks = tokenize(payload)
    if len(toks) != 2 or toks[0].cls != 0 or toks[0].num != 9 or toks[1].cls != 0 or toks[1].num != 9:
        raise ValueError("not an Error production")
    return _uint(payload, toks[0]), _uint(payload, toks[1])


def _group_end(toks, i):
    """index of the closing tag matching the opening tag toks[i]"""
    lvl = 0
    for j in range(i, len(toks)):
        if toks[j].cls == 2:
            lvl += 1
        elif toks[j].cls == 3:
            lvl -= 1
            if lvl == 0:
                return j
    raise ValueError("unbalanced")


def parse_rpm_ack(payload):
    """ReadPropertyMultiple-ACK (15.7.1.2 / clause 21):
    SEQUENCE OF { [0] object-identifier, [1] SEQUENCE OF { [2] property-identifier, [3] array-index OPTIONAL,
    CHOICE { [4] value, [5] Error } } OPTIONAL }
    -> [ (objid octets, [ (propid, index|None, 'value', octets) | (propid, index|None, 'error', (class, code)) ]) ]"""
    toks = tokenize(payload)
    out = []
    i = 0
    while i < len(toks):
        t = toks[i]
        if not (t.cls == 1 and t.num == 0 and t.end - t.start == 4):
            raise ValueError("object identifier expected")
        oid = list(payload[t.start:t.end])
        i += 1
        results = []
        if i < len(toks) and toks[i].cls == 2 and toks[i].num == 1:
            j = _group_end(toks, i)
            k = i + 1
            while k < j:
                t = toks[k]
                if not (t.cls == 1 and t.num == 2):
                    raise ValueError("property identifier expected")
                pid = _uint(payload, t)
                k += 1
                idx = None
                if toks[k].cls == 1 and toks[k].num == 3:
                    idx = _uint(payload, toks[k])
                    k += 1
                t = toks[k]
                if t.cls != 2 or t.num not in (4, 5):
                    raise ValueError("read result expected")
                e = _group_end(toks, k)
                if e >= j:
                    raise ValueError("unbalanced")
                body = list(payload[t.start:toks[e].hstart])
                if t.num == 4:
                    results.append((pid, idx, 'value', body))
                else:
                    results.append((pid, idx, 'error', parse_error(body)))
                k = e + 1
            i = j + 1
        out.append((oid, results))
    return out


def read_ack_payload(otype, inst, pid, idx, value_octets):
    """ReadProperty-ACK (15.5.1.2): [0] object-identifier [1] property-identifier [2] index OPTIONAL [3] value"""
    out = ctx_objid(0, otype, inst) + ctx_uint(1, pid)
    if idx is not None:
        out += ctx_uint(2, idx)
    return out + opening(3) + list(value_octets) + closing(3)


# ---------------------------------------------------------------- the property store model
class PropSpec(object):
    """one declared property: kind u/s/e/b/r/oid/au/as/lu; writable; optional (conformance O)"""

    def __init__(self, name, kind, writable=False, optional=False):
        self.name, self.kind, self.writable, self.optional = name, kind, writable, optional
        self.pid = PROP[name]

    @property
    def is_array(self):
        return self.kind in ('au', 'as')

    @property
    def is_list(self):
        return self.kind == 'lu'

    @property
    def elem_kind(self):
        return {'au': 'u', 'as': 's', 'lu': 'u'}[self.kind]


class ObjModel(object):
    def __init__(self, otype, inst, specs, values):
        self.otype, self.inst = otype, inst
        self.specs = dict((s.name, s) for s in specs)
        self.order = [s.name for s in specs]
        self.values = dict(values)          # name -> content (python value / list); absent = not in dict

    def present(self, name):
        return name in self.specs and name in self.values


E_UNKNOWN_OBJECT = ('error', ERROR_CLASS['object'], (ERROR_CODE['unknownObject'],))
E_UNKNOWN_PROPERTY = ('error', ERROR_CLASS['property'], (ERROR_CODE['unknownProperty'],))
E_NOT_ARRAY = ('error', ERROR_CLASS['property'], (ERROR_CODE['propertyIsNotAnArray'], ERROR_CODE['invalidArrayIndex']))
E_UNKNOWN_OR_NOT_ARRAY = ('error', ERROR_CLASS['property'], (ERROR_CODE['unknownProperty'], ERROR_CODE['propertyIsNotAnArray'],
                                                            ERROR_CODE['invalidArrayIndex']))
E_BAD_INDEX = ('error', ERROR_CLASS['property'], (ERROR_CODE['invalidArrayIndex'],))
E_READ_ONLY = ('error', ERROR_CLASS['property'], (ERROR_CODE['writeAccessDenied'],))


class Store(object):
    """objects by key; an unknown key = an object the device does not have"""

    def __init__(self, objs):
        self.objs = objs        # key -> ObjModel

    def read(self, okey, pname, idx):
        """what ReadProperty answers: ('value', octets) or ('error', class, (acceptable codes))"""
        o = self.objs.get(okey)
        if o is None:
            return E_UNKNOWN_OBJECT
        if not o.present(pname):
            if idx is not None and pname in o.specs and not o.specs[pname].is_array:
                return E_UNKNOWN_OR_NOT_ARRAY      # both reasons apply; the statement does not rank them
            return E_UNKNOWN_PROPERTY
        s = o.specs[pname]
        v = o.values[pname]
        if idx is None:
            return ('value', encode_value((s.kind, v)))
        if not s.is_array:
            return E_NOT_ARRAY
        if idx == 0:
            return ('value', app_unsigned(len(v)))
        for k in range(len(v)):
            if idx == k + 1:
                return ('value', encode_value((s.elem_kind, v[k])))
        return E_BAD_INDEX

    def selector(self, okey, which):
        """property names the selectors stand for (15.7.3.1.2): every present property except
        Property_List; required = conformance code R or W; optional = conformance code O"""
        o = self.objs[okey]
        out = []
        for name in o.order:
            if name == 'propertyList' or not o.present(name):
                continue
            s = o.specs[name]
            if which == 'all' or (which == 'required' and not s.optional) or (which == 'optional' and s.optional):
                out.append(name)
        return out

    def write_causes(self, okey, pname, idx, fits, arity_ok):
        """reasons to refuse a write -> list of (cause name, acceptable answers); empty = must be accepted.
        fits: the value is of the datatype the target takes; arity_ok: right number of elements"""
        o = self.objs.get(okey)
        if o is None:
            return [('unknown-object', E_UNKNOWN_OBJECT)]
        if pname not in o.specs:
            return [('unknown-property', E_UNKNOWN_PROPERTY)]
        s = o.specs[pname]
        causes = []
        if not o.present(pname):
            causes.append(('unknown-property', E_UNKNOWN_PROPERTY))
        if not s.writable:
            causes.append(('read-only', E_READ_ONLY))
        if idx is not None:
            if not s.is_array:
                causes.append(('bad-array-index', E_NOT_ARRAY))
            elif o.present(pname):
                inside = idx == 0
                for k in range(len(o.values[pname])):
                    if idx == k + 1:
                        inside = True
                if not inside:
                    causes.append(('bad-array-index', E_BAD_INDEX))
        if not fits:
            causes.append(('wrong-datatype', ('datatype', arity_ok)))
        return causes

    def apply_write(self, okey, pname, idx, content, fill):
        """the effect of an accepted write; fill = what new elements hold after the array grew"""
        o = self.objs[okey]
        if idx is None:
            o.values[pname] = content
        elif idx == 0:
            cur = list(o.values[pname])
            if content <= len(cur):
                cur = cur[:content]
            else:
                cur = cur + [fill] * (content - len(cur))
            o.values[pname] = cur
        else:
            cur = list(o.values[pname])
            for k in range(len(cur)):
                if idx == k + 1:
                    cur[k] = content
            o.values[pname] = cur
