"""Reference encodings for C01, written from ANSI/ASHRAE 135 clause 20.2 (not from
primitivedata.py).  Pure arithmetic on `+ - * // %` and comparisons so that every function
also runs on symbolic integers (no `|`/`&` between two symbolic operands).

All functions return a list of octet values (ints 0..255).
"""

APP, CTX = 0, 1

# 20.2.1.4  application tag numbers
NULL, BOOLEAN, UNSIGNED, INTEGER, REAL, DOUBLE, OCTET_STRING, CHARACTER_STRING, BIT_STRING, \
    ENUMERATED, DATE, TIME, OBJECT_IDENTIFIER = range(13)

# name of the library class the standard's datatype of each application tag number maps to
DATATYPE = ["Null", "Boolean", "Unsigned", "Integer", "Real", "Double", "OctetString",
            "CharacterString", "BitString", "Enumerated", "Date", "Time", "ObjectIdentifier"]


def be(v, n):
    """n octets of the non-negative integer v, most significant first"""
    return [(v // (256 ** (n - 1 - i))) % 256 for i in range(n)]


def tag_header(tclass, number, lvt):
    """20.2.1: initial octet, optional extended tag number octet (20.2.1.2), optional
    extended length octets (20.2.1.3.1).  lvt is the length of the contents (for an
    application Boolean: the value, 20.2.3)."""
    first = (number * 16 if number < 15 else 0xF0) + (8 if tclass == CTX else 0)
    first += lvt if lvt < 5 else 5
    out = [first]
    if number >= 15:
        out.append(number)
    if lvt >= 5:
        if lvt <= 253:
            out.append(lvt)
        elif lvt <= 65535:
            out += [254] + be(lvt, 2)
        else:
            out += [255] + be(lvt, 4)
    return out


def tagged(tclass, number, contents):
    """a primitive datum: header followed by its contents octets"""
    contents = list(contents)
    return tag_header(tclass, number, len(contents)) + contents


def unsigned_len(v):
    """20.2.4: minimum number of octets, at least one"""
    n = 1
    while v >= 256 ** n:
        n += 1
    return n


def unsigned_contents(v):
    """20.2.4 Unsigned / 20.2.11 Enumerated: binary number, most significant octet first,
    fewest octets possible"""
    return be(v, unsigned_len(v))


def signed_len(v):
    """20.2.5: fewest octets whose two's complement range holds v"""
    n = 1
    while not (-(2 ** (8 * n - 1)) <= v < 2 ** (8 * n - 1)):
        n += 1
    return n


def signed_contents(v):
    """20.2.5 Signed Integer: two's complement, most significant octet first, fewest octets"""
    n = signed_len(v)
    return be(v + 256 ** n if v < 0 else v, n)


def bitstring_contents(bits):
    """20.2.10: initial octet = number of unused bits in the final octet (0..7, 0 when the
    string is empty), then the bits, first bit in the most significant position, unused
    bits zero"""
    n = len(bits)
    unused = (8 - n % 8) % 8
    padded = list(bits) + [0] * unused
    out = [unused]
    for i in range(0, len(padded), 8):
        o = 0
        for j in range(8):
            o = o * 2 + padded[i + j]
        out.append(o)
    return out


def utf8(cp):
    """RFC 3629 / ISO 10646 UTF-8 of one scalar value (surrogates are not scalar values)"""
    if cp < 0x80:
        return [cp]
    if cp < 0x800:
        return [0xC0 + cp // 64, 0x80 + cp % 64]
    if cp < 0x10000:
        return [0xE0 + cp // 4096, 0x80 + (cp // 64) % 64, 0x80 + cp % 64]
    return [0xF0 + cp // 262144, 0x80 + (cp // 4096) % 64, 0x80 + (cp // 64) % 64, 0x80 + cp % 64]


def charstring_contents(cps):
    """20.2.9: initial octet = character set (0 = ISO 10646 UTF-8), then the encoded text"""
    out = [0]
    for cp in cps:
        out += utf8(cp)
    return out


def object_identifier_contents(otype, instance):
    """20.2.14: 10-bit object type, 22-bit instance number, 4 octets"""
    return be(otype * 4194304 + instance, 4)
