"""Reference model for C16: who is subscribed until when, and what was last reported.

Written from the property statement and from clauses 13.1 (COV reporting criteria) and
13.14 (SubscribeCOV) of the standard.  Nothing here imports or mirrors bacpypes.service.cov.
Only + - and comparisons are used, so every quantity may be a solver-backed integer.

Time is counted in whole seconds since the start of the scenario.

13.14.1:  a subscription is identified by (subscriber address, process identifier, monitored
          object).  A request carrying neither 'Issue Confirmed Notifications' nor 'Lifetime'
          is a cancellation.  Lifetime 0 (or no lifetime) = indefinite.  Subscribing again
          under the same identification replaces the parameters of the existing subscription
          (kind of notification, lifetime counted from the re-subscription).
13.14.2:  a notification is sent as soon as possible after a (re-)subscription.
13.1:     objects with a COV increment report when the present value has moved by at least
          the increment from the value last reported, or when the status flags change; the
          other families report any change of present value or status flags.

What the statement leaves open is modelled as latitude, not as a demand:

* the expiry second itself: a subscription whose lifetime ends at second E is live before E,
  gone after E, and `BOUNDARY` at E (either behaviour accepted);
* "the last reported value" with several subscribers: the value last sent to anybody for this
  object, or the value last sent to this subscriber.  A change that qualifies under exactly
  one of the readings may or may not be notified;
* several changes inside one instant may be reported one by one or coalesced.
"""

LIVE, BOUNDARY, DEAD, NONE = "live", "boundary", "dead", "none"


class SubRec:
    def __init__(self, confirmed, expiry, last, gen):
        self.confirmed = confirmed      # True / False
        self.expiry = expiry            # absolute second, None = indefinite
        self.last = last                # value last reported to this subscriber (None: nothing yet)
        self.gen = gen                  # reporting generation `last` belongs to
        # how the record came about (only used to name a divergence precisely)
        self.renewed = False
        self.prev_confirmed = None
        self.prev_indefinite = None


class Change:
    def __init__(self, pv, flags_changed):
        self.pv = pv                        # present value after this write
        self.flags_changed = flags_changed  # this write changed the status flags


class CovRef:
    def __init__(self, increment, pv, flags):
        self.inc = increment        # None: any change of value counts
        self.pv = pv
        self.flags = list(flags)
        self.now = 0
        self.subs = {}              # slot -> SubRec
        self.gone = {}              # slot -> "cancelled" | "expired" (why it is not there any more)
        self.last = None            # value last reported to anybody
        self.gen = 0
        self.pending = []           # [Change] written since the loop last ran

    # ------------------------------------------------------------ subscriptions
    def status(self, slot):
        r = self.subs.get(slot)
        if r is None:
            return NONE
        if r.expiry is None:
            return LIVE
        if self.now < r.expiry:
            return LIVE
        if self.now == r.expiry:
            return BOUNDARY
        return DEAD

    def sweep(self):
        for slot in list(self.subs):
            if self.status(slot) == DEAD:
                del self.subs[slot]
                self.gone[slot] = "expired"

    def subscribe(self, slot, confirmed, lifetime):
        """lifetime None or 0 = indefinite"""
        self.sweep()
        old = self.subs.get(slot)
        if lifetime is None:
            expiry = None
        elif lifetime == 0:
            expiry = None
        else:
            expiry = self.now + lifetime
        rec = SubRec(confirmed, expiry, None, -1)
        if old is not None:
            rec.renewed = True
            rec.prev_confirmed = old.confirmed
            rec.prev_indefinite = old.expiry is None
            rec.last, rec.gen = old.last, old.gen
        self.subs[slot] = rec
        self.gone.pop(slot, None)
        return rec

    def cancel(self, slot):
        self.sweep()
        if slot in self.subs:
            del self.subs[slot]
            self.gone[slot] = "cancelled"

    def advance(self, dt):
        self.now = self.now + dt

    def remaining(self, slot):
        """exact time remaining of a LIVE finite subscription (>= 1), 0 for an indefinite one"""
        r = self.subs[slot]
        if r.expiry is None:
            return 0
        return r.expiry - self.now

    # ------------------------------------------------------------ changes
    def qualifies(self, new, old):
        if old is None:
            return True
        if self.inc is None:
            return new != old
        return new >= old + self.inc or new <= old - self.inc

    def within(self, cur, reported):
        """the current value needs no further report after `reported` was sent"""
        return not self.qualifies(cur, reported)

    def write(self, pv=None, flags=None):
        fc = False
        if pv is not None:
            self.pv = pv
        if flags is not None:
            if list(flags) != self.flags:
                fc = True
            self.flags = list(flags)
        self.pending.append(Change(self.pv, fc))

    def _counts(self, base):
        """(any change qualifies, most notifications a one-by-one or a coalescing reporter
        may send) for the pending changes against the reported value `base`"""
        any_q = False
        fixed = 0           # every change compared with what was reported before the instant
        rolling = 0         # every qualifying change reported at once, the next compared with it
        b = base
        for c in self.pending:
            if c.flags_changed or self.qualifies(c.pv, base):
                any_q = True
                fixed += 1
            if c.flags_changed or self.qualifies(c.pv, b):
                rolling += 1
                b = c.pv
        return any_q, (fixed if fixed > rolling else rolling)

    def expectation(self, slot):
        """(lo, hi) notifications owed to `slot` for the pending changes when the loop runs"""
        st = self.status(slot)
        if st in (NONE, DEAD):
            return 0, 0
        r = self.subs[slot]
        any_o, hi_o = self._counts(self.last)
        if r.gen == self.gen:          # this subscriber saw the latest report: both readings agree
            any_s, hi_s = any_o, hi_o
        else:
            any_s, hi_s = self._counts(r.last)
        lo = 1 if (any_o and any_s) else 0
        hi = hi_o if hi_o > hi_s else hi_s
        if st == BOUNDARY:
            lo = 0
        return lo, hi

    def reported(self, told):
        """the notifications of this round: slot -> present value carried by the last one sent to it"""
        self.gen += 1
        for s, pv in told.items():
            self.last = pv
            r = self.subs.get(s)
            if r is not None:
                r.last = pv
                r.gen = self.gen

    def clear(self):
        self.pending = []
