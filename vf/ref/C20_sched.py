"""Reference interpreter of a BACnet Schedule object (ASHRAE 135 clause 12.24), written
from the standard and independent of bacpypes: plain tuples / lists / dicts, integer
arithmetic only, so it runs on z3-backed values and on plain ints alike.

12.24.4 Present_Value.  "The method for evaluating the current value of a schedule":
  1. find the highest relative priority Exception_Schedule element that is in effect for the
     current day and whose current value is not NULL; that value is the Present_Value;
  2. otherwise the current value of the Weekly_Schedule element of the current day of week,
     if there is one and it is not NULL;
  3. otherwise Schedule_Default.
  "The current value" of a list of BACnetTimeValue: the value of the entry with the latest
  time that is not later than the current time; no such entry = NULL.  An entry whose value
  is NULL relinquishes: from that time on the list has no value until its next entry.
12.24.6 Effective_Period: the range of dates (inclusive, either limit may be unspecified =
  open-ended) within which the object is active; nothing is prescribed for Present_Value
  outside it.
12.24.8 Exception_Schedule: EventPriority 1 (highest) .. 16 (lowest).

Configuration (all leaves may be symbolic):
  cfg = dict(
    eff=(start_date4, end_date4),
    exceptions=[dict(period=('entry', entry) | ('calendar', [entry, ...]),
                     priority=1..16, tvs=[(time4, value_or_None), ...]), ...],
    weekly={1: [(time4, value_or_None), ...], ..., 7: [...]} or None,
    default=value)
  entry as in C20_dates.match_entry; time4 = (hour, minute, second, hundredths);
  value None = NULL.
"""
from . import C20_dates as R

INACTIVE = 'inactive'      # outside the effective period: nothing prescribed
TIE = 'tie'                # two exceptions in force share a priority: not decided by the statement
OK = 'ok'

END_OF_DAY = (24, 0, 0, 0)


def tkey(t):
    """hundredths of a second since midnight (order-preserving)"""
    return ((t[0] * 60 + t[1]) * 60 + t[2]) * 100 + t[3]


def current_entry(tvs, now):
    """(found, value) of the entry with the latest time <= now; list order is irrelevant
    (times within one list are distinct inside the harness domain)"""
    nk = tkey(now)
    found = False
    best_k = -1
    best_v = None
    for t, v in tvs:
        k = tkey(t)
        if k <= nk and k > best_k:
            found, best_k, best_v = True, k, v
    return found, best_v


def in_force(period, date):
    if period[0] == 'entry':
        return R.match_entry(date, period[1])
    for entry in period[1]:
        if R.match_entry(date, entry):
            return True
    return False


def active(cfg, date):
    return R.match_date_range(date, cfg['eff'][0], cfg['eff'][1])


def evaluate(cfg, date, now):
    """-> (status, value, source); source names the list the value comes from:
    ('exception', index) | ('weekly', day_of_week) | ('default',)"""
    if not active(cfg, date):
        return INACTIVE, None, None
    prios = []
    best = None            # (priority, value, index)
    tie = False
    for i, e in enumerate(cfg['exceptions']):
        if not in_force(e['period'], date):
            continue
        for p in prios:
            if p == e['priority']:
                tie = True
        prios.append(e['priority'])
        found, v = current_entry(e['tvs'], now)
        if found and v is not None:
            if best is None or e['priority'] < best[0]:
                best = (e['priority'], v, i)
    if tie:
        return TIE, None, None
    if best is not None:
        return OK, best[1], ('exception', best[2])
    if cfg['weekly'] is not None:
        found, v = current_entry(cfg['weekly'][date[3]], now)
        if found and v is not None:
            return OK, v, ('weekly', date[3])
    return OK, cfg['default'], ('default',)


def all_times(cfg, date):
    """every entry time that can matter on that date (lists of exceptions in force and of the
    weekday): the only instants at which the prescribed value can change within the day"""
    out = []
    for e in cfg['exceptions']:
        if in_force(e['period'], date):
            out.extend(t for t, _ in e['tvs'])
    if cfg['weekly'] is not None:
        out.extend(t for t, _ in cfg['weekly'][date[3]])
    return out


def selftest():
    """the reference on the schedules the repository's own tests and samples bless
    (tests/test_local/test_local_schedule_2.py: hourly probes of one day;
    samples/LocalScheduleObject1.py: schedules 2 and 3).  Returns a list of problems."""
    bad = []
    wide = ((0, 1, 1, 1), (254, 12, 31, 2))
    day = [((8, 0, 0, 0), 8), ((14, 0, 0, 0), None), ((17, 0, 0, 0), 42)]
    cfg = dict(eff=wide, exceptions=[], weekly=dict((w, day) for w in range(1, 8)), default=0)
    blessed = [0] * 8 + [8] * 6 + [0] * 3 + [42] * 7
    for hr, val in enumerate(blessed):
        if evaluate(cfg, (70, 1, 1, 4), (hr, 0, 1, 0)) != (OK, val, ('weekly', 4) if val else ('default',)):
            bad.append(("weekly", hr))
    panic = dict(eff=wide, weekly=None, default='calm', exceptions=[dict(
        period=('entry', ('date', (100, 1, 1, 6))), priority=1,
        tvs=[((0, 0, 0, 0), 'panic'), ((0, 10, 0, 0), None)])])
    if evaluate(panic, (100, 1, 1, 6), (0, 5, 0, 0))[1] != 'panic' \
            or evaluate(panic, (100, 1, 1, 6), (0, 10, 0, 0))[1] != 'calm' \
            or evaluate(panic, (100, 1, 2, 7), (0, 5, 0, 0))[1] != 'calm':
        bad.append("panic")
    friday = dict(eff=wide, weekly=None, default='work', exceptions=[dict(
        period=('entry', ('wnd', (255, 255, 5))), priority=1, tvs=[((0, 0, 0, 0), 'friday')])])
    if evaluate(friday, (124, 3, 1, 5), (12, 0, 0, 0))[1] != 'friday' \
            or evaluate(friday, (124, 2, 29, 4), (12, 0, 0, 0))[1] != 'work':
        bad.append("friday")
    if evaluate(dict(cfg, eff=((124, 3, 1, 255), (255, 255, 255, 255))), (124, 2, 29, 4), (9, 0, 0, 0))[0] != INACTIVE:
        bad.append("inactive")
    return bad
