"""Reference layout of the BACnet/IP virtual link layer, written from ASHRAE 135 Annex J.2
(independent of bacpypes/bvll.py; plain integer arithmetic only, so that it runs on
symbolic values).

Every BVLL message:  octet 0   BVLC type      X'81'
                     octet 1   BVLC function  X'00' .. X'0B'
                     octet 2-3 BVLC length    most significant octet first, the length in
                                              octets of the *whole* message including these
                                              four octets
followed by the function's own fields:

  J.2.1  X'00' BVLC-Result                          result code (2 octets)
  J.2.2  X'01' Write-Broadcast-Distribution-Table   N * [B/IP address (6), distribution mask (4)]
  J.2.3  X'02' Read-Broadcast-Distribution-Table    -
  J.2.4  X'03' Read-Broadcast-Distribution-Table-Ack  N * [B/IP address (6), mask (4)]
  J.2.5  X'04' Forwarded-NPDU                       B/IP address of originating device (6), NPDU
  J.2.6  X'05' Register-Foreign-Device              time-to-live (2)
  J.2.7  X'06' Read-Foreign-Device-Table            -
  J.2.8  X'07' Read-Foreign-Device-Table-Ack        N * [B/IP address (6), time-to-live (2),
                                                         seconds remaining (2)]
  J.2.9  X'08' Delete-Foreign-Device-Table-Entry    B/IP address (6)
  J.2.10 X'09' Distribute-Broadcast-To-Network      NPDU
  J.2.11 X'0A' Original-Unicast-NPDU                NPDU
  J.2.12 X'0B' Original-Broadcast-NPDU              NPDU

A B/IP address is the four octets of the IPv4 address followed by the two octets of the
UDP port, both most significant octet first (J.1.2).

Parameters are passed as a dict:
  code | ttl : int            bdt : [(six octets, mask int)]      addr : six octets
  fdt : [(six octets, ttl int, remaining int)]                    npdu : octets
"""

RESULT = 0
WRITE_BDT = 1
READ_BDT = 2
READ_BDT_ACK = 3
FORWARDED_NPDU = 4
REGISTER_FD = 5
READ_FDT = 6
READ_FDT_ACK = 7
DELETE_FDT_ENTRY = 8
DISTRIBUTE_BROADCAST = 9
ORIGINAL_UNICAST = 10
ORIGINAL_BROADCAST = 11

NAMES = ["Result", "WriteBroadcastDistributionTable", "ReadBroadcastDistributionTable",
         "ReadBroadcastDistributionTableAck", "ForwardedNPDU", "RegisterForeignDevice",
         "ReadForeignDeviceTable", "ReadForeignDeviceTableAck", "DeleteForeignDeviceTableEntry",
         "DistributeBroadcastToNetwork", "OriginalUnicastNPDU", "OriginalBroadcastNPDU"]

HAS_BDT = (WRITE_BDT, READ_BDT_ACK)
HAS_NPDU = (FORWARDED_NPDU, DISTRIBUTE_BROADCAST, ORIGINAL_UNICAST, ORIGINAL_BROADCAST)


def u16(v):
    return [v // 256, v % 256]


def u32(v):
    return [v // 16777216, (v // 65536) % 256, (v // 256) % 256, v % 256]


def n16(o, i):
    return o[i] * 256 + o[i + 1]


def n32(o, i):
    return o[i] * 16777216 + o[i + 1] * 65536 + o[i + 2] * 256 + o[i + 3]


def six(ip, port):
    """B/IP address octets of a 32-bit IPv4 address and a 16-bit UDP port"""
    return bytes(u32(ip) + u16(port))


def fields(fn, p):
    """the octets after the four header octets, as a list of (field name, octets)"""
    if fn == RESULT:
        return [('result-code', bytes(u16(p['code'])))]
    if fn in HAS_BDT:
        out = []
        for i, (addr, mask) in enumerate(p['bdt']):
            out.append(('bdt[%d].address' % i, bytes(addr)))
            out.append(('bdt[%d].mask' % i, bytes(u32(mask))))
        return out
    if fn in (READ_BDT, READ_FDT):
        return []
    if fn == FORWARDED_NPDU:
        return [('address', bytes(p['addr'])), ('npdu', bytes(p['npdu']))]
    if fn == REGISTER_FD:
        return [('ttl', bytes(u16(p['ttl'])))]
    if fn == READ_FDT_ACK:
        out = []
        for i, (addr, ttl, remain) in enumerate(p['fdt']):
            out.append(('fdt[%d].address' % i, bytes(addr)))
            out.append(('fdt[%d].ttl' % i, bytes(u16(ttl))))
            out.append(('fdt[%d].remaining' % i, bytes(u16(remain))))
        return out
    if fn == DELETE_FDT_ENTRY:
        return [('address', bytes(p['addr']))]
    if fn in (DISTRIBUTE_BROADCAST, ORIGINAL_UNICAST, ORIGINAL_BROADCAST):
        return [('npdu', bytes(p['npdu']))]
    raise AssertionError(fn)


def body(fn, p):
    out = b''
    for _, seg in fields(fn, p):
        out = out + seg
    return out


def frame(fn, p):
    b = body(fn, p)
    return bytes([0x81, fn] + u16(4 + len(b))) + b


def header_fault(data):
    """None when the four header octets agree with the datagram, else which one does not"""
    if len(data) < 4:
        return "short"
    if data[0] != 0x81:
        return "type"
    if n16(data, 2) != len(data):
        return "length"
    return None


def parse(data):
    """('header', why) | ('unknown', fn) | ('body', fn) | ('ok', fn, params)

    'body' = the header agrees with the datagram but the rest does not have the shape
    Annex J gives this function (the property statement does not say what a receiver does
    with those)."""
    why = header_fault(data)
    if why is not None:
        return ('header', why)
    fn = data[1]
    if fn > ORIGINAL_BROADCAST:
        return ('unknown', fn)
    rest = data[4:]
    n = len(rest)
    if fn in (RESULT, REGISTER_FD):
        if n != 2:
            return ('body', fn)
        return ('ok', fn, {'code' if fn == RESULT else 'ttl': n16(rest, 0)})
    if fn in (READ_BDT, READ_FDT):
        if n != 0:
            return ('body', fn)
        return ('ok', fn, {})
    if fn in HAS_BDT:
        if n % 10 != 0:
            return ('body', fn)
        return ('ok', fn, {'bdt': [(rest[i * 10:i * 10 + 6], n32(rest, i * 10 + 6)) for i in range(n // 10)]})
    if fn == READ_FDT_ACK:
        if n % 10 != 0:
            return ('body', fn)
        return ('ok', fn, {'fdt': [(rest[i * 10:i * 10 + 6], n16(rest, i * 10 + 6), n16(rest, i * 10 + 8))
                                   for i in range(n // 10)]})
    if fn == FORWARDED_NPDU:
        if n < 6:
            return ('body', fn)
        return ('ok', fn, {'addr': rest[:6], 'npdu': rest[6:]})
    if fn == DELETE_FDT_ENTRY:
        if n != 6:
            return ('body', fn)
        return ('ok', fn, {'addr': rest[:6]})
    return ('ok', fn, {'npdu': rest})


# ------------------------------------------------------------------ self-test of this model
def _x(s):
    return bytes.fromhex(s.replace('.', '').replace(' ', ''))


# the frames of the repository's own tests/test_bvll/test_codec.py
LITERALS = [
    (RESULT, {'code': 0}, '81.00.0006.0000'),
    (RESULT, {'code': 1}, '81.00.0006.0001'),
    (WRITE_BDT, {'bdt': []}, '81.01.0004'),
    (WRITE_BDT, {'bdt': [(_x('c0.a8.00.fe.ba.c0'), 0xffffff00)]}, '81.01.000e c0.a8.00.fe.ba.c0 ff.ff.ff.00'),
    (READ_BDT, {}, '81.02.0004'),
    (READ_BDT_ACK, {'bdt': []}, '81.03.0004'),
    (READ_BDT_ACK, {'bdt': [(_x('c0.a8.00.fe.ba.c0'), 0xffffff00)]}, '81.03.000e c0.a8.00.fe.ba.c0 ff.ff.ff.00'),
    (FORWARDED_NPDU, {'addr': _x('c0.a8.00.01.ba.c0'), 'npdu': _x('deadbeef')},
     '81.04.000e c0.a8.00.01.ba.c0 deadbeef'),
    (REGISTER_FD, {'ttl': 30}, '81.05.0006 001e'),
    (READ_FDT, {}, '81.06.0004'),
    (READ_FDT_ACK, {'fdt': []}, '81.07.0004'),
    (READ_FDT_ACK, {'fdt': [(_x('c0.a8.00.0a.ba.c0'), 30, 15)]}, '81.07.000e c0.a8.00.0a.ba.c0 001e.000f'),
    (DELETE_FDT_ENTRY, {'addr': _x('c0.a8.00.0b.ba.c0')}, '81.08.000a c0.a8.00.0b.ba.c0'),
    (DISTRIBUTE_BROADCAST, {'npdu': _x('deadbeef')}, '81.09.0008 deadbeef'),
    (ORIGINAL_UNICAST, {'npdu': _x('deadbeef')}, '81.0a.0008 deadbeef'),
    (ORIGINAL_BROADCAST, {'npdu': _x('deadbeef')}, '81.0b.0008 deadbeef'),
]


def selftest():
    """the model reproduces and parses the test suite's literal frames; returns mismatches"""
    bad = []
    for fn, p, text in LITERALS:
        octets = _x(text)
        r = parse(octets)
        if frame(fn, p) != octets or r[0] != 'ok' or r[1] != fn or frame(fn, r[2]) != octets:
            bad.append(text)
    for text, want in (('', 'short'), ('81.00.00', 'short'), ('82.00.0006.0000', 'type'),
                       ('81.00.0007.0000', 'length'), ('81.00.0005.0000', 'length')):
        if parse(_x(text)) != ('header', want):
            bad.append(text)
    if parse(_x('81.0c.0004')) != ('unknown', 12) or parse(_x('81.00.0007.000000'))[0] != 'body':
        bad.append('unknown/body')
    return bad
