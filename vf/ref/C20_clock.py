"""Integer model of time.localtime / time.mktime for TZ=UTC (the runner sets TZ=UTC).

The C functions cannot take z3-backed arguments, so while a harness runs symbolically
bacpypes' calls to them are routed here; under plain replay the real functions run, and
conformance() compares both on sample instants (plain execution) whenever the harness
module is imported.  Integer seconds only: no leap seconds (POSIX time has none), no DST
(UTC has none).
"""
import time as _time

from . import C20_dates as R

DAY = 86400


def mktime_utc(tup):
    """seconds since the epoch of a struct_time-like tuple read as UTC; out-of-range hours,
    minutes and seconds are normalised by carrying, as mktime() does (24:00:00 = next day)"""
    return R.days_from_civil(tup[0], tup[1], tup[2]) * DAY + tup[3] * 3600 + tup[4] * 60 + tup[5]


def split_days(secs, candidates=None):
    """(days since the epoch, second of the day).  With `candidates` (concrete day numbers the
    harness knows the instant to lie in) the day number comes back concrete: a case split on
    the day, which keeps every date-dependent decision downstream concrete."""
    days = secs // DAY
    if candidates is not None:
        for c in candidates:
            if days == c:
                days = c
                break
        else:
            raise AssertionError("instant outside the harness's window of days")
    return days, secs - days * DAY


def localtime_utc(secs, candidates=None):
    """the nine fields of time.localtime(secs) for TZ=UTC as a plain tuple (weekday: Monday = 0)"""
    days, sod = split_days(secs, candidates)
    year, month, day = R.civil_from_days(days)
    yday = days - R.days_from_civil(year, 1, 1) + 1
    return (year, month, day, sod // 3600, (sod % 3600) // 60, sod % 60, (days + 3) % 7, yday, 0)


def conformance():
    """model vs. C library on sample instants; returns a list of problems"""
    bad = []
    if _time.timezone != 0 or _time.daylight != 0:
        return ["TZ is not UTC (the runner exports TZ=UTC)"]
    for secs in (0, 1, 59, 60, 3599, 3600, 86399, 86400, 951782399, 951782400, 951868800,
                 1709164799, 1709164800, 1709251199, 1709251200, 1704067199, 1704067200,
                 4102444800, 5000000000, -1, -86400, -2208988800):
        if tuple(_time.localtime(secs)) != localtime_utc(secs):
            bad.append(("localtime", secs))
        if _time.mktime(_time.localtime(secs)) != secs:
            bad.append(("mktime-inverse", secs))
    for tup in ((2024, 2, 28, 24, 0, 0), (2024, 2, 29, 24, 0, 0), (2023, 12, 31, 24, 0, 0),
                (2024, 2, 29, 8, 30, 0), (1970, 1, 1, 0, 0, 0), (2100, 2, 28, 24, 0, 0),
                (2024, 3, 1, 23, 59, 59)):
        if _time.mktime(tup + (0, 0, -1)) != mktime_utc(tup):
            bad.append(("mktime", tup))
    return bad
