"""C03 comparator: is a decoded bacpypes value structurally equal to the neutral model of
the value that was encoded?  Walks the MODEL (not the class tables, not dict_contents) and
reads the decoded object only through its public attributes:

    sequence / choice   getattr(obj, element name)    (None = absent / not chosen)
    SequenceOf / ListOf element                        a Python list
    ArrayOf                                            .value[0] = length, .value[1:]
    atomic element                                     the Python value
    AnyAtomic element                                  an Atomic instance (.value, class)
    Any                                                .tagList of Tag(tagClass, tagNumber, tagLVT, tagData)

Returns None when equal, else a short path + reason string (first difference).
"""
import math

from . import C01_ref as R

_MISSING = object()


def _is_int(v):
    return isinstance(v, int) and not isinstance(v, bool)


def atom_equal(atom, v):
    """python value v against the atom's value, type-aware"""
    _, kind, py, extra = atom
    if kind == "Null":
        return isinstance(v, tuple) and len(v) == 0
    if kind == "Boolean":
        return isinstance(v, bool) and v == py
    if kind in ("Unsigned", "Integer"):
        return _is_int(v) and v == py
    if kind in ("Real", "Double"):
        return isinstance(v, float) and v == py and math.copysign(1.0, v) == math.copysign(1.0, py)
    if kind == "OctetString":
        return isinstance(v, (bytes, bytearray)) and bytes(v) == bytes(py)
    if kind == "CharacterString":
        return isinstance(v, str) and v == py
    if kind == "BitString":
        return isinstance(v, list) and len(v) == len(py) and list(v) == list(py)
    if kind == "Enumerated":
        if isinstance(py, str):
            return isinstance(v, str) and v == py
        return _is_int(v) and v == py
    if kind in ("Date", "Time"):
        return isinstance(v, tuple) and len(v) == 4 and tuple(v) == tuple(py)
    if kind == "ObjectIdentifier":
        if not (isinstance(v, tuple) and len(v) == 2):
            return False
        if isinstance(py[0], str) != isinstance(v[0], str):
            return False
        return v[0] == py[0] and v[1] == py[1]
    raise AssertionError(kind)


def _tag_matches(tag, cls, num, lvt, data):
    if tag.tagClass != cls or tag.tagNumber != num:
        return False
    if lvt is not None and tag.tagLVT != lvt:
        return False
    return bytes(tag.tagData) == bytes(data)


def any_equal(items, obj, contents):
    """Any / SequenceOfAny: the tag list holds exactly the items (contents(kind, atom) =
    reference contents octets)"""
    tl = getattr(obj, "tagList", None)
    if tl is None:
        return "no tagList"
    tags = list(tl.tagList)
    if len(tags) != len(items):
        return "%d tags, expected %d" % (len(tags), len(items))
    for i, (it, tag) in enumerate(zip(items, tags)):
        if it[0] == "open":
            ok = _tag_matches(tag, 2, it[1], None, b"")
        elif it[0] == "close":
            ok = _tag_matches(tag, 3, it[1], None, b"")
        else:
            c = contents(it[1], it)
            num = R.DATATYPE.index(it[1])
            if it[1] == "Boolean":
                ok = _tag_matches(tag, 0, num, c[0], b"")
            else:
                ok = _tag_matches(tag, 0, num, len(c), bytes(c))
        if not ok:
            return "tag %d" % i
    return None


def differs(M, obj, contents, path=""):
    """None if obj equals model M, else 'path: reason'"""
    if M is None:
        if obj is not None:
            return "%s: absent element came back as %s" % (path, type(obj).__name__)
        return None
    if obj is None:
        return "%s: present element came back absent" % path
    tag = M[0]
    if tag == "atom":
        if not atom_equal(M, obj):
            return "%s: %s value differs" % (path, M[1])
        return None
    if tag == "anyatomic":
        atom = M[1]
        if type(obj).__name__ != atom[1]:
            return "%s: AnyAtomic holds %s, expected %s" % (path, type(obj).__name__, atom[1])
        if not atom_equal(atom, obj.value):
            return "%s: AnyAtomic %s value differs" % (path, atom[1])
        return None
    if tag == "any":
        r = any_equal(M[1], obj, contents)
        return None if r is None else "%s: Any %s" % (path, r)
    if tag == "list":
        if isinstance(obj, list):
            items = obj
        else:
            v = getattr(obj, "value", None)
            if not isinstance(v, list):
                return "%s: not a list" % path
            if hasattr(obj, "fixed_length") or hasattr(obj, "fix_length"):
                if len(v) < 1 or v[0] != len(v) - 1:
                    return "%s: array length element" % path
                items = v[1:]
            else:
                items = v
        if len(items) != len(M[1]):
            return "%s: %d items, expected %d" % (path, len(items), len(M[1]))
        for i, (m, o) in enumerate(zip(M[1], items)):
            r = differs(m, o, contents, "%s[%d]" % (path, i))
            if r is not None:
                return r
        return None
    if tag == "choice":
        for name in M[3]:
            v = getattr(obj, name, _MISSING)
            if v is _MISSING:
                return "%s.%s: no such attribute" % (path, name)
            if name == M[1]:
                r = differs(M[2], v, contents, path + "." + name)
                if r is not None:
                    return r
            elif v is not None:
                return "%s.%s: alternative not chosen is set" % (path, name)
        return None
    if tag == "seq":
        for name, child in M[1]:
            v = getattr(obj, name, _MISSING)
            if v is _MISSING:
                return "%s.%s: no such attribute" % (path, name)
            r = differs(child, v, contents, path + "." + name)
            if r is not None:
                return r
        return None
    raise AssertionError(tag)
