"""C18 - local engine models (a documented work-around, see DESIGN section 3 style).

`pdu.Address` reaches three things CrossHair 0.0.110 has no symbolic model for:

* `int & CONST`, `int | CONST`, `int ^ CONST` where CONST is not of the form 2**k - 1
  (the IP mask arithmetic `addrIP & addrMask`, `addrIP & ~addrMask`,
  `addrSubnet | ~addrMask`): CrossHair realises the symbolic operand, i.e. enumerates
  IPv4 addresses one per path;
* `binascii.unhexlify(<symbolic str>)` (via `debugging.xtob`): the C function refuses the
  proxy (path ends UNKNOWN);
* `binascii.hexlify(<symbolic bytes>)` (via `debugging.btox`): same.

* `str(<symbolic bytes>, 'ascii')` (in `debugging.btox`): CrossHair's `str` patch passes the
  two-argument form to the C constructor, which refuses the proxy.

This module registers exact models for them **in the worker process of a C18 obligation
only** (it is imported by vf/harness/C18.py; when crosshair is not loaded - plain replay,
the repository's interpreter, the ./check front end - it does nothing).  Every model is an
exact identity over the integers / the definition of base-16 text, is compared with the
real operation on literals at import time (`conformance()`), and every counterexample is
re-run under plain CPython where none of this is active.

  a & C  (C >= 0)  =  sum over the maximal runs [lo, lo+w) of one-bits of C of
                      ((a // 2**lo) % 2**w) * 2**lo          (floor division: also a < 0)
  a & C  (C <  0)  =  a - (a & ~C)
  a | C            =  a + C - (a & C)
  a ^ C            =  a + C - 2 * (a & C)

Two symbolic operands still fall back to CrossHair's own behaviour (realisation).
"""
import binascii
import sys


def _runs(c):
    """maximal runs of one-bits of c >= 0 as (lo, width)"""
    out = []
    lo = 0
    while c:
        if c & 1:
            w = 0
            while c & 1:
                c >>= 1
                w += 1
            out.append((lo, w))
            lo += w
        else:
            c >>= 1
            lo += 1
    return out


def and_const(a, c):
    """a & c for a concrete int c, using only + - * // % on a"""
    if c < 0:
        return a - and_const(a, ~c)
    r = 0
    for lo, w in _runs(c):
        r = r + ((a // (2 ** lo)) % (2 ** w)) * (2 ** lo)
    return r


def or_const(a, c):
    return a + c - and_const(a, c)


def xor_const(a, c):
    return a + c - 2 * and_const(a, c)


def hex_value(c):
    """value of one base-16 digit given its code point c (assumed a valid hex digit)"""
    return c - 48 - 7 * (c >= 65) - 32 * (c >= 97)


def hex_valid(c):
    return ((c >= 48) & (c <= 57)) | ((c >= 65) & (c <= 70)) | ((c >= 97) & (c <= 102))


def hex_digit(v):
    """code point of the lower-case base-16 digit of 0 <= v <= 15"""
    return 48 + v + 39 * (v >= 10)


def py_unhexlify(s):
    n = len(s)
    if n % 2:
        raise binascii.Error("Odd-length string")
    out = []
    for i in range(0, n, 2):
        hi = s[i]
        lo = s[i + 1]
        if isinstance(hi, str):
            hi = ord(hi)
            lo = ord(lo)
        if not (hex_valid(hi) & hex_valid(lo)):
            raise binascii.Error("Non-hexadecimal digit found")
        out.append(hex_value(hi) * 16 + hex_value(lo))
    return bytes(out)


def py_hexlify(data):
    out = []
    for x in data:
        out.append(hex_digit(x // 16))
        out.append(hex_digit(x % 16))
    return bytes(out)


def py_decode_ascii(data):
    ok = True
    t = ''
    for x in data:
        ok = ok & (x < 128)
        t = t + chr(x)
    if not ok:
        raise UnicodeDecodeError("ascii", bytes(data), 0, 1, "ordinal not in range(128)")
    return t


def conformance():
    bad = []
    for a in (0, 1, 0x01020304, 0xC0A800FF, 0xFFFFFFFF, 0x80000000, 0x7FFFFFFF, -1, -77, 12345678901):
        for c in (0, 1, 0xFF, 0xFFFFFF00, 0xFFFFFFFF, 0x80000000, 0xFFFE0000, ~0xFFFFFF00, ~0, ~0xFFFFFFFF,
                  0x0F0F, -4294967041, 0xAAAA5555):
            if and_const(a, c) != (a & c) or or_const(a, c) != (a | c) or xor_const(a, c) != (a ^ c):
                bad.append(("bitop", a, c))
    for t in ("00", "ff", "FF", "0a1B", "deadBEEF0123456789", "aAfF09"):
        if py_unhexlify(t) != binascii.unhexlify(t):
            bad.append(("unhexlify", t))
    for t in ("0", "0g", "x0", "0:", "/0", "@A", "G0", "`a"):
        try:
            py_unhexlify(t)
            bad.append(("unhexlify accepts", t))
        except binascii.Error:
            pass
    for b in (b"", b"\x00", b"\xff\x0a\x9f\xa0", bytes(range(256))):
        if py_hexlify(b) != binascii.hexlify(b):
            bad.append(("hexlify", b))
        if py_decode_ascii(py_hexlify(b)) != str(binascii.hexlify(b), "ascii"):
            bad.append(("decode", b))
    try:
        py_decode_ascii(b"\x80")
        bad.append(("decode accepts", b"\x80"))
    except UnicodeDecodeError:
        pass
    return bad


def install():
    """register the models with CrossHair; no-op when the engine is not loaded"""
    if "crosshair.libimpl.builtinslib" not in sys.modules or "vf.sx" not in sys.modules:
        return False
    import operator as ops
    from crosshair.core import _PATCH_REGISTRATIONS
    from crosshair.libimpl import builtinslib as B
    from crosshair.tracers import NoTracing
    from crosshair.util import CrossHairValue

    bad = conformance()
    if bad:
        raise RuntimeError("C18 engine models disagree with the real operations: %r" % (bad[:3],))

    def concrete(x):
        with NoTracing():
            return not isinstance(x, CrossHairValue)

    # the registered functions run with tracing on (numeric_binop resumes it)
    def sym_const(op, a, b):            # a: SymbolicInt, b: int
        b = int(b)
        if op is ops.and_:
            return and_const(a, b)
        if op is ops.or_:
            return or_const(a, b)
        return xor_const(a, b)

    def const_sym(op, a, b):
        return sym_const(op, b, a)

    for op in (ops.and_, ops.or_, ops.xor):
        B._BIN_OPS_SEARCH_ORDER.append((op, B.SymbolicInt, int, sym_const))
        B._BIN_OPS_SEARCH_ORDER.append((op, int, B.SymbolicInt, const_sym))
    B._BIN_OPS.clear()

    def _unhexlify(s):
        if concrete(s):
            return binascii.unhexlify(s)
        return py_unhexlify(s)

    def _hexlify(data, *a):
        if concrete(data) or a:
            return binascii.hexlify(data, *a)
        return py_hexlify(data)

    _PATCH_REGISTRATIONS[binascii.unhexlify] = _unhexlify
    _PATCH_REGISTRATIONS[binascii.hexlify] = _hexlify

    from crosshair.tracers import ResumedTracing

    def _str(*a, **kw):
        # str(<symbolic octets>, 'ascii'): decode code point by code point; everything
        # else as CrossHair's own patch of str does it (a patch cannot delegate to the
        # patch it replaces: calls made from the replaced one would come back here)
        if len(a) == 2 and not kw and not concrete(a[0]) and concrete(a[1]) and a[1] in ("ascii", "us-ascii"):
            return py_decode_ascii(a[0])
        with NoTracing():
            if len(a) == 1 and not kw:
                (x,) = a
                if isinstance(x, B.AnySymbolicStr):
                    return x
                with ResumedTracing():
                    return B.invoke_dunder(x, "__str__")
        return str(*a, **kw)

    _PATCH_REGISTRATIONS[str] = _str
    return True
