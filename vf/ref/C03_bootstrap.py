"""One-off tool that produced /verif/ref/asn1_schema.json (NOT imported by the harness).

    cd /verif && PYTHONPATH=/verif:/repo/py34 python3-vt -m vf.ref.C03_bootstrap [--check]

Provenance of the reference wire schema, stated honestly:

1. `dump_tree()` reads the element tables of the PINNED tree (py34/bacpypes apdu.py and
   basetypes.py at the commit the framework was built against) mechanically.
2. `AUDIT` below is the hand audit against ANSI/ASHRAE 135 clause 21 ("Formal description
   of application protocol data units"): the productions listed there were compared, element
   by element (order, base type, context tag number, OPTIONAL), with the text of the
   standard as the author knows it.  They are marked "audited": true.  Where the pinned tree
   disagrees with the standard the STANDARD's value goes into the JSON (`fix` entries) and
   the disagreement is listed under "deviations" in the JSON's _meta.
3. Everything else is marked "audited": false: for those productions the JSON is only the
   pinned tree's own table, i.e. a regression oracle (any later table edit is flagged), not
   a conformance statement.

The JSON is a static file.  The harness never regenerates it; `--check` only reports how the
live tree differs from it.
"""
import inspect
import json
import os
import sys

PRIM = ["Null", "Boolean", "Unsigned", "Integer", "Real", "Double", "OctetString",
        "CharacterString", "BitString", "Enumerated", "Date", "Time", "ObjectIdentifier"]

OUT = os.path.join(os.path.dirname(os.path.dirname(os.path.dirname(os.path.abspath(__file__)))),
                   "ref", "asn1_schema.json")


def dump_tree():
    from bacpypes import apdu as A, basetypes as B, constructeddata as C, primitivedata as P

    def tname(k):
        """-> (list kind or None, type name, name of the library subclass or None)"""
        if k in C._sequence_of_classes:
            return ("sequenceOf",) + tname(k.subtype)[1:]
        if k in C._list_of_classes:
            return ("listOf",) + tname(k.subtype)[1:]
        if k in C._array_of_classes:
            return ("arrayOf",) + tname(k.subtype)[1:]
        if issubclass(k, C.AnyAtomic):
            return (None, "AnyAtomic", None)
        if issubclass(k, P.Atomic):
            base = PRIM[k._app_tag]
            return (None, base, k.__name__ if k.__name__ != base else None)
        if issubclass(k, C.SequenceOfAny):
            return (None, "SequenceOfAny", None)
        if issubclass(k, C.Any):
            return (None, "Any", None)
        return (None, k.__name__, None)

    prods = {}
    for m in (B, A):
        for name, c in vars(m).items():
            if not (inspect.isclass(c) and c.__module__ == m.__name__):
                continue
            if issubclass(c, C.Choice):
                kind, els = "choice", c.choiceElements
            elif issubclass(c, C.Sequence):
                kind, els = "sequence", c.sequenceElements
                if issubclass(c, A.APCISequence) and not els and getattr(c, "serviceChoice", None) is None:
                    continue        # the five abstract bases
            else:
                continue
            out = []
            for e in els:
                lst, t, sub = tname(e.klass)
                el = {"name": e.name, "type": t, "context": e.context, "optional": bool(e.optional)}
                if lst:
                    el["list"] = lst
                if sub:
                    el["of"] = sub
                out.append(el)
            prods[name] = {"kind": kind, "module": m.__name__.split(".")[-1], "audited": False,
                           "elements": out}
    regs = {}
    for rname, reg in (("confirmed_request", A.confirmed_request_types),
                       ("complex_ack", A.complex_ack_types),
                       ("unconfirmed_request", A.unconfirmed_request_types),
                       ("error", A.error_types)):
        regs[rname] = {str(k): v.__name__ for k, v in sorted(reg.items())}
    return prods, regs


# ---------------------------------------------------------------------------- hand audit
# production -> clause / remarks.  `fix`: {element name: {field: standard's value}}.
# `kind`: the standard's kind when the tree models the production differently.
A21 = "135 clause 21"
AUDIT = {
    # ---- services, confirmed
    "AcknowledgeAlarmRequest": {}, "ConfirmedCOVNotificationRequest": {}, "COVNotificationParameters": {},
    "UnconfirmedCOVNotificationRequest": {},
    "ConfirmedEventNotificationRequest": {}, "UnconfirmedEventNotificationRequest": {},
    "EventNotificationParameters": {},
    "GetAlarmSummaryRequest": {}, "GetAlarmSummaryACK": {}, "GetAlarmSummaryAlarmSummary": {},
    "GetEnrollmentSummaryRequest": {}, "GetEnrollmentSummaryRequestPriorityFilterType": {},
    "GetEnrollmentSummaryACK": {}, "GetEnrollmentSummaryEnrollmentSummary": {},
    "GetEventInformationRequest": {}, "GetEventInformationACK": {}, "GetEventInformationEventSummary": {},
    "LifeSafetyOperationRequest": {},
    "SubscribeCOVRequest": {}, "SubscribeCOVPropertyRequest": {},
    "AtomicReadFileRequest": {}, "AtomicReadFileRequestAccessMethodChoice": {},
    "AtomicReadFileRequestAccessMethodChoiceStreamAccess": {},
    "AtomicReadFileRequestAccessMethodChoiceRecordAccess": {},
    "AtomicReadFileACK": {}, "AtomicReadFileACKAccessMethodChoice": {},
    "AtomicReadFileACKAccessMethodStreamAccess": {}, "AtomicReadFileACKAccessMethodRecordAccess": {},
    "AtomicWriteFileRequest": {}, "AtomicWriteFileRequestAccessMethodChoice": {},
    "AtomicWriteFileRequestAccessMethodChoiceStreamAccess": {},
    "AtomicWriteFileRequestAccessMethodChoiceRecordAccess": {},
    "AtomicWriteFileACK": {
        "kind": "choice",
        "remark": "AtomicWriteFile-ACK ::= CHOICE { fileStartPosition [0] INTEGER, fileStartRecord [1] INTEGER }; "
                  "the tree models it as a SEQUENCE of two OPTIONAL elements (same octets for every valid value; "
                  "the tree additionally accepts none or both)",
        "fix": {"fileStartPosition": {"optional": False}, "fileStartRecord": {"optional": False}}},
    "AddListElementRequest": {}, "RemoveListElementRequest": {},
    "CreateObjectRequest": {}, "CreateObjectRequestObjectSpecifier": {}, "CreateObjectACK": {},
    "DeleteObjectRequest": {},
    "ReadPropertyRequest": {}, "ReadPropertyACK": {},
    "ReadPropertyMultipleRequest": {}, "ReadAccessSpecification": {},
    "ReadPropertyMultipleACK": {},
    "ReadAccessResult": {
        "remark": "ReadAccessResult ::= SEQUENCE { objectIdentifier [0], listOfResults [1] SEQUENCE OF SEQUENCE {...} "
                  "OPTIONAL }: the standard marks listOfResults OPTIONAL, the tree requires it",
        "fix": {"listOfResults": {"optional": True}}},
    "ReadAccessResultElement": {}, "ReadAccessResultElementChoice": {},
    "ReadRangeRequest": {}, "Range": {}, "RangeByPosition": {}, "RangeBySequenceNumber": {}, "RangeByTime": {},
    "ReadRangeACK": {},
    "WritePropertyRequest": {
        "remark": "priority [4] Unsigned8 (1..16) OPTIONAL; the tree declares Integer (same octets for 1..16)",
        "fix": {"priority": {"type": "Unsigned", "range": [1, 16]}}},
    "WritePropertyMultipleRequest": {}, "WriteAccessSpecification": {},
    "DeviceCommunicationControlRequest": {
        "remark": "enable-disable [1] ENUMERATED is not OPTIONAL in the standard; the tree marks it optional",
        "fix": {"enableDisable": {"optional": False}}},
    "ConfirmedPrivateTransferRequest": {}, "ConfirmedPrivateTransferACK": {},
    "ConfirmedTextMessageRequest": {}, "ConfirmedTextMessageRequestMessageClass": {},
    "ReinitializeDeviceRequest": {},
    "VTOpenRequest": {}, "VTOpenACK": {}, "VTCloseRequest": {}, "VTDataRequest": {},
    # ---- services, unconfirmed
    "IAmRequest": {}, "IHaveRequest": {}, "WhoHasRequest": {}, "WhoHasLimits": {}, "WhoHasObject": {},
    "WhoIsRequest": {}, "UnconfirmedPrivateTransferRequest": {},
    "UnconfirmedTextMessageRequest": {}, "UnconfirmedTextMessageRequestMessageClass": {},
    "TimeSynchronizationRequest": {}, "UTCTimeSynchronizationRequest": {},
    "WriteGroupRequest": {}, "GroupChannelValue": {},
    # ---- errors
    "Error": {}, "ErrorType": {}, "ChangeListError": {}, "CreateObjectError": {},
    "ConfirmedPrivateTransferError": {}, "WritePropertyMultipleError": {}, "VTCloseError": {},
    # ---- base types
    "DateTime": {}, "DateRange": {}, "TimeStamp": {}, "DeviceAddress": {}, "Address": {},
    "AddressBinding": {}, "Recipient": {}, "RecipientProcess": {}, "Destination": {},
    "PropertyReference": {}, "PropertyValue": {}, "ObjectPropertyReference": {},
    "DeviceObjectPropertyReference": {}, "DeviceObjectReference": {}, "ObjectPropertyValue": {},
    "PriorityValue": {}, "CalendarEntry": {}, "SpecialEvent": {}, "SpecialEventPeriod": {},
    "DailySchedule": {}, "TimeValue": {},
    "COVSubscription": {}, "ActionCommand": {}, "ActionList": {}, "SetpointReference": {},
    "Scale": {}, "Prescale": {}, "AccumulatorRecord": {}, "ShedLevel": {}, "ClientCOV": {},
    "VTSession": {}, "LogRecord": {}, "LogRecordLogDatum": {}, "LogMultipleRecord": {}, "LogData": {},
    "LogDataLogData": {}, "LightingCommand": {}, "ChannelValue": {},
    "NameValue": {
        "remark": "BACnetNameValue ::= SEQUENCE { name [0] CharacterString, value ABSTRACT-SYNTAX.&Type OPTIONAL }; "
                  "the tree's element table says no context for name but its hand-written codec uses [0] "
                  "(wire agrees with the standard)",
        "fix": {"name": {"context": 0}}},
    "PropertyStates": {
        "remark": "write-status is [37]; the tree's table says 370 (not encodable: tag numbers are one octet)",
        "fix": {"writeStatus": {"context": 37}}},
    "EventParameter": {"remark": "the CHOICE's alternatives and context numbers; sub-sequences audited separately"},
    "EventParameterChangeOfBitstring": {}, "EventParameterChangeOfState": {}, "EventParameterChangeOfValue": {},
    "EventParameterChangeOfValueCOVCriteria": {}, "EventParameterCommandFailure": {},
    "EventParameterFloatingLimit": {}, "EventParameterOutOfRange": {}, "EventParameterChangeOfLifeSafety": {},
    "EventParameterBufferReady": {}, "EventParameterUnsignedRange": {},
    "NotificationParameters": {"remark": "the CHOICE's alternatives and context numbers; sub-sequences audited separately"},
    "NotificationParametersChangeOfBitstring": {}, "NotificationParametersChangeOfState": {},
    "NotificationParametersChangeOfValue": {}, "NotificationParametersChangeOfValueNewValue": {},
    "NotificationParametersCommandFailure": {}, "NotificationParametersFloatingLimit": {},
    "NotificationParametersOutOfRange": {}, "NotificationParametersChangeOfLifeSafety": {},
    "NotificationParametersBufferReady": {}, "NotificationParametersUnsignedRange": {},
}

# suspected (NOT vouched for, production left unaudited with the tree's own value)
SUSPECTED = [
    "VTDataACK.acceptedOctetCount: the standard (17.3 / 21) has it OPTIONAL (present only when allNewDataAccepted is FALSE); the tree requires it",
    "BDTEntry.broadcastMask: OPTIONAL in 135-2016 (absent for B/IPv6); the tree requires it",
    "EventParameterExtendedParameters: the standard's CHOICE has application-tagged primitives and reference [0]; the tree context-tags every alternative 0..8",
    "NotificationParametersExtended.parameters: the standard has [2] SEQUENCE OF CHOICE {...}; the tree has one CHOICE, whose propertyValue alternative has no context tag",
    "NotificationParametersComplexEventType: the standard has complex-event-type [6] SEQUENCE OF BACnetPropertyValue; the tree wraps one PropertyValue in [0]",
    "NotificationParametersChangeOfStatusFlagsType.presentValue: ABSTRACT-SYNTAX.&Type OPTIONAL in the standard; CharacterString, required in the tree",
]

REGISTRY_AUDIT = "service choice numbers of BACnetConfirmedServiceChoice / BACnetUnconfirmedServiceChoice / " \
                 "BACnet-Error (clause 21) checked by hand for every entry"


def build():
    prods, regs = dump_tree()
    deviations = []
    for name, a in AUDIT.items():
        if name not in prods:
            raise SystemExit("AUDIT names unknown production %s" % name)
        p = prods[name]
        p["audited"] = True
        p["source"] = A21
        if "remark" in a:
            p["remark"] = a["remark"]
        if "kind" in a and a["kind"] != p["kind"]:
            deviations.append("%s: kind %s in the standard, %s in the pinned tree" % (name, a["kind"], p["kind"]))
            p["kind"] = a["kind"]
        for en, fix in a.get("fix", {}).items():
            el = [e for e in p["elements"] if e["name"] == en]
            if len(el) != 1:
                raise SystemExit("AUDIT %s.%s: no such element" % (name, en))
            for k, v in fix.items():
                if el[0].get(k) != v:
                    if k != "range":
                        deviations.append("%s.%s: %s = %r in the standard, %r in the pinned tree"
                                          % (name, en, k, v, el[0].get(k)))
                    el[0][k] = v
    doc = {
        "_meta": {
            "what": "reference wire schema for property C03: per production the ordered elements "
                    "(name, base type, context tag number or null, optional)",
            "provenance": "bootstrapped mechanically from the pinned bacpypes tree (py34/bacpypes/apdu.py, "
                          "basetypes.py) by vf/ref/C03_bootstrap.py, then audited by hand against ANSI/ASHRAE 135 "
                          "clause 21 for the productions marked audited=true; where the audit found the tree to "
                          "disagree with the standard the standard's value is recorded here (see deviations). "
                          "Productions with audited=false carry the pinned tree's own table: a regression oracle, "
                          "not a conformance statement.",
            "element_names": "the library's attribute names (camelCase of the standard's identifiers); they are "
                             "only the key that pairs a generated value's fields with the elements",
            "types": "Null Boolean Unsigned Integer Real Double OctetString CharacterString BitString Enumerated "
                     "Date Time ObjectIdentifier (clause 20.2 application datatypes; `of` names the library's "
                     "subclass for information only), Any (ABSTRACT-SYNTAX.&Type), AnyAtomic (any primitive "
                     "application-tagged datum), SequenceOfAny, or the name of another production; "
                     "list = sequenceOf / listOf / arrayOf (identical on the wire)",
            "deviations": deviations,
            "suspected_not_vouched": SUSPECTED,
            "registries": REGISTRY_AUDIT,
        },
        "productions": prods,
        "registries": regs,
    }
    return doc


def render(doc):
    """JSON with one element per line (readable diffs)"""
    out = ["{", ' "_meta": ' + json.dumps(doc["_meta"], indent=2).replace("\n", "\n ") + ",", ' "productions": {']
    names = list(doc["productions"])
    for i, name in enumerate(names):
        p = doc["productions"][name]
        head = {k: v for k, v in p.items() if k != "elements"}
        out.append('  %s: {%s,' % (json.dumps(name), json.dumps(head)[1:-1]))
        out.append('   "elements": [')
        for j, e in enumerate(p["elements"]):
            out.append("    " + json.dumps(e) + ("," if j + 1 < len(p["elements"]) else ""))
        out.append("   ]}" + ("," if i + 1 < len(names) else ""))
    out.append(" },")
    out.append(' "registries": {')
    regs = list(doc["registries"])
    for i, r in enumerate(regs):
        out.append("  %s: %s%s" % (json.dumps(r), json.dumps(doc["registries"][r]), "," if i + 1 < len(regs) else ""))
    out.append(" }")
    out.append("}")
    return "\n".join(out) + "\n"


def check(doc):
    """how does the live tree differ from the JSON (informational)"""
    prods, regs = dump_tree()
    for name, p in sorted(prods.items()):
        q = doc["productions"].get(name)
        if q is None:
            print("new in tree:", name)
            continue
        a = [(e["name"], e["type"], e["context"], e["optional"], e.get("list")) for e in p["elements"]]
        b = [(e["name"], e["type"], e["context"], e["optional"], e.get("list")) for e in q["elements"]]
        if a != b or p["kind"] != q["kind"]:
            print("differs:", name)
            for x, y in zip(a, b):
                if x != y:
                    print("    tree", x, " schema", y)
    for name in sorted(set(doc["productions"]) - set(prods)):
        print("gone from tree:", name)
    if regs != doc["registries"]:
        print("registries differ")


if __name__ == "__main__":
    if "--check" in sys.argv:
        with open(OUT) as f:
            check(json.load(f))
    else:
        doc = build()
        os.makedirs(os.path.dirname(OUT), exist_ok=True)
        with open(OUT, "w") as f:
            f.write(render(doc))
        n = len(doc["productions"])
        a = sum(1 for p in doc["productions"].values() if p["audited"])
        print("wrote %s: %d productions, %d audited; deviations:" % (OUT, n, a))
        for dv in doc["_meta"]["deviations"]:
            print("   ", dv)
