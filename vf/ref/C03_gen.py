"""C03 generator: walks sequenceElements / choiceElements of the LIVE classes, draws the
content from `d`, and returns the value twice: as a neutral model (see C03_enc.py) and as
the bacpypes value built from it.

What is drawn (all shared per path so that the path count stays additive):

  shape   top level class: presence of every optional element, alternative of a choice,
          length of every list element (each its own draw)
          below the top level: one shared selector (quick tier: `inner` = min/max; thorough:
          inner_opt x inner_alt x inner_len) that every nested sequence / choice / list follows
  leaves  one shared leaf class `lc` (a row of LEAF_ROWS): integer width class and sign,
          string length, enumeration representative, float, bit pattern, kind of the datum
          inside Any / AnyAtomic.  Inside the class every integer / octet / character /
          date / time / instance number is its own symbolic value.

The reference schema is consulted for two hints only: an element that is OPTIONAL in the
standard but required in the class (or the other way round) is generated absent as well as
present, and a value range the standard gives for an integer element is respected.
"""
from bacpypes import primitivedata as P
from bacpypes import constructeddata as C
from bacpypes import basetypes as B

from . import C01_ref as R

MAXDEPTH = 4

# ---------------------------------------------------------------- leaf classes
# w: octets of an integer; neg: sign of signed integers; L: length of strings;
# e: enumeration representative (0 lowest defined, 1 highest defined, 2 undefined number);
# f: float; bits: bit pattern; any: what an Any holds; aa: what an AnyAtomic holds
LEAF_ROWS = [
    dict(w=1, neg=False, L=1, e=0, f=0, bits=0, any="Unsigned", aa="Unsigned"),
    dict(w=2, neg=True, L=0, e=1, f=1, bits=1, any="group", aa="Real"),
    dict(w=3, neg=False, L=2, e=2, f=2, bits=2, any="empty", aa="CharacterString"),
    dict(w=4, neg=True, L=1, e=0, f=0, bits=0, any="Real", aa="Null"),
    dict(w=1, neg=True, L=2, e=1, f=1, bits=1, any="CharacterString", aa="Enumerated"),
    dict(w=4, neg=False, L=0, e=2, f=2, bits=2, any="two", aa="Boolean"),
    dict(w=2, neg=False, L=2, e=0, f=0, bits=1, any="ObjectIdentifier", aa="Date"),
    dict(w=3, neg=True, L=1, e=1, f=1, bits=2, any="Enumerated", aa="Time"),
]
FLOATS = [72.5, -1.25, 0.0]
OTYPES = [("analogInput", 0), ("device", 8), (300, 300)]     # lowest, a common one, vendor range


def enum_table(K):
    t = {}
    for c in reversed(K.__mro__):
        t.update(getattr(c, "enumerations", None) or {})
    return t


_enum_reps = {}


def enum_reps(K):
    """[(python value, number)]: lowest defined, highest defined, one undefined number"""
    if K not in _enum_reps:
        t = enum_table(K)
        if not t:
            _enum_reps[K] = None
        else:
            byn = {}
            for name in sorted(t):
                byn.setdefault(t[name], name)
            lo, hi = min(byn), max(byn)
            # what the class itself calls that number (two names may share a number)
            und = hi + 1
            while und in byn:
                und += 1
            _enum_reps[K] = [(K(lo).value, lo), (K(hi).value, hi), (und, und)]
    return _enum_reps[K]


def kind_of(K):
    return R.DATATYPE[K._app_tag]


def is_list(K):
    return K in C._sequence_of_classes or K in C._list_of_classes or K in C._array_of_classes


def elements_of(K):
    return K.choiceElements if issubclass(K, C.Choice) else K.sequenceElements


class Gen(object):

    def __init__(self, d, thorough, maxlen, hints=None, symbolic_leaves=8):
        self.d = d
        # leaves (in element order) that get symbolic content; the ones after that get a
        # fixed value of the same leaf class (the cost of a path grows faster than linearly
        # with the number of symbolic octets it carries)
        self.sym_left = symbolic_leaves
        self.thorough = thorough
        self.maxlen = maxlen
        self.hints = hints or {}        # production name -> schema production
        self.row = LEAF_ROWS[0]
        self.symbolic_bool = False
        self._inner = {}
        self._b = None

    # ------------------------------------------------------------ shared selectors
    def pick_row(self, nrows):
        self.row = LEAF_ROWS[self.d.index(nrows, "lc")]
        self.symbolic_bool = True

    def inner(self, what, n):
        """shared selector for everything below the top level: what in opt / alt / len"""
        d = self.d
        if n <= 1:
            return 0
        if not self.thorough:
            if "all" not in self._inner:
                self._inner["all"] = d.index(2, "inner")
            return self._inner["all"]
        if what not in self._inner:
            self._inner[what] = d.index(min(n, 3), "inner_" + what)
        return self._inner[what]

    def boolean(self):
        if not self.symbolic_bool:
            return True
        if self._b is None:
            self._b = self.d.bool("b")
            self._flip = False
        self._flip = not self._flip
        # one shared symbolic boolean; consecutive leaves get b, not b, b, ...
        return self._b if self._flip else (not self._b)

    # ------------------------------------------------------------ leaves
    def sym(self):
        """may this leaf still be symbolic?"""
        if self.sym_left > 0:
            self.sym_left -= 1
            return True
        return False

    def unsigned(self, lo, hi):
        w = self.row["w"]
        while w > 1 and 256 ** (w - 1) > hi:
            w -= 1
        a = 0 if w == 1 else 256 ** (w - 1)
        b = 256 ** w - 1
        a, b = max(a, lo), min(b, hi)
        if a > b:
            a, b = lo, hi
        return self.d.int(a, b, "u") if self.sym() else b

    def signed(self, lo=None, hi=None):
        w = self.row["w"]
        if self.row["neg"]:
            a, b = -(2 ** (8 * w - 1)), (-(2 ** (8 * (w - 1) - 1)) - 1 if w > 1 else -1)
        else:
            a, b = (2 ** (8 * (w - 1) - 1) if w > 1 else 0), 2 ** (8 * w - 1) - 1
        if lo is not None:
            a, b = max(a, lo), min(b, hi)
            if a > b:
                a, b = lo, hi
        return self.d.int(a, b, "i") if self.sym() else a

    def leaf(self, K, hint=None):
        """-> atom of the primitive class K"""
        d = self.d
        kind = kind_of(K)
        rng = (hint or {}).get("range")
        if kind == "Null":
            return ("atom", kind, (), None)
        if kind == "Boolean":
            return ("atom", kind, self.boolean(), None)
        if kind == "Unsigned":
            lo = K._low_limit if K._low_limit is not None else 0
            hi = K._high_limit if K._high_limit is not None else 2 ** 32 - 1
            if rng:
                lo, hi = max(lo, rng[0]), min(hi, rng[1])
            return ("atom", kind, self.unsigned(lo, hi), None)
        if kind == "Integer":
            if rng:
                return ("atom", kind, self.signed(rng[0], rng[1]), None)
            return ("atom", kind, self.signed(), None)
        if kind in ("Real", "Double"):
            return ("atom", kind, FLOATS[self.row["f"]], None)
        if kind == "OctetString":
            if self.sym():
                return ("atom", kind, d.bytes(self.row["L"], name="o"), None)
            return ("atom", kind, b"\x5a\xa5"[:self.row["L"]], None)
        if kind == "CharacterString":
            if self.sym():
                s = "".join([chr(d.int(0x20, 0x7E, "c")) for _ in range(self.row["L"])])
            else:
                s = "az"[:self.row["L"]]
            return ("atom", kind, s, None)
        if kind == "BitString":
            n = K.bitLen or (3, 8, 9)[self.row["bits"]]
            pat = self.row["bits"]
            bits = [(1 if pat == 2 else (i + pat) % 2) for i in range(n)]
            return ("atom", kind, bits, None)
        if kind == "Enumerated":
            reps = enum_reps(K)
            if reps is None:
                v = self.unsigned(0, 2 ** 32 - 1)
                return ("atom", kind, v, v)
            py, num = reps[self.row["e"]]
            return ("atom", kind, py, num)
        if kind in ("Date", "Time"):
            if self.sym():
                return ("atom", kind, tuple([d.int(0, 255, "t") for _ in range(4)]), None)
            return ("atom", kind, (124, 2, 29, 4) if kind == "Date" else (23, 59, 58, 99), None)
        if kind == "ObjectIdentifier":
            tname, tnum = OTYPES[self.row["e"]]
            inst = d.int(0, 4194303, "inst") if self.sym() else 4194302
            return ("atom", kind, (tname, inst), (tnum, inst))
        raise NotImplementedError(K)

    def atom_of_kind(self, kind):
        K = getattr(P, kind)
        return self.leaf(K)

    def any_fill(self):
        """items of an Any: one atomic, one nested context group, nothing, two atomics"""
        what = self.row["any"]
        if what == "empty":
            return []
        if what == "group":
            # what Any.cast_in makes of TimeStamp(dateTime=DateTime(...)): [2] { Date Time }
            return [("open", 2), self.atom_of_kind("Date"), self.atom_of_kind("Time"), ("close", 2)]
        if what == "two":
            return [self.atom_of_kind("Unsigned"), self.atom_of_kind("Boolean")]
        return [self.atom_of_kind(what)]

    # ------------------------------------------------------------ structure
    def hint_elements(self, K):
        h = self.hints.get(K.__name__)
        if not h:
            return {}
        return dict((e["name"], e) for e in h["elements"])

    def optional_either(self, K):
        """names of the elements that are optional in the class or in the standard"""
        he = self.hint_elements(K)
        out = []
        for el in K.sequenceElements:
            if el.optional or (el.name in he and he[el.name]["optional"]):
                out.append(el.name)
        return out

    def top(self, K, shape):
        """the value of the class under test.  shape: 'all' (every shape in the bound, drawn),
        'full' (everything present, lists at maxlen, a representative alternative, drawn),
        'min' (optional elements absent, lists empty, first alternative)"""
        d = self.d
        if is_list(K):
            n = {"all": None, "full": self.maxlen, "min": 0}[shape]
            if n is None:
                n = d.index(self.maxlen + 1, "len")
            return ("list", [self.value(K.subtype, 1) for _ in range(n)])
        if issubclass(K, C.Choice):
            els = K.choiceElements
            if shape == "all":
                i = d.index(len(els), "alt")
            elif shape == "full":
                reps = rep_alternatives(K)
                i = reps[d.index(len(reps), "alt")]
            else:
                i = 0
            el = els[i]
            return ("choice", el.name, self.element(K, el, 1, shape), [e.name for e in els])
        h = self.hints.get(K.__name__)
        opt = self.optional_either(K)
        n = len(opt)
        if h and h["kind"] == "choice":
            # the standard says CHOICE, the class is a SEQUENCE of optionals: exactly one
            k = d.index(n, "alt") if shape != "min" else 0
            present = dict((name, i == k) for i, name in enumerate(opt))
        elif shape == "full":
            present = dict((name, True) for name in opt)
        elif shape == "min":
            present = dict((el.name, not el.optional) for el in K.sequenceElements if el.name in opt)
        elif self.thorough and n <= 6:
            present = {}
            for name in opt:
                # made concrete at once: a symbolic flag would be carried into every later branch
                present[name] = True if d.bool("p_" + name) else False
        elif n == 0:
            present = {}
        else:
            base = d.index(2, "base") == 1
            k = d.index(n + 1, "toggle") - 1
            present = dict((name, base != (i == k)) for i, name in enumerate(opt))
        fields = []
        for el in K.sequenceElements:
            if el.name in present and not present[el.name]:
                fields.append((el.name, None))
            else:
                fields.append((el.name, self.element(K, el, 1, shape)))
        return ("seq", fields)

    def element(self, K, el, depth, shape=None):
        """shape: that of the class under test for its own elements, None below"""
        hint = self.hint_elements(K).get(el.name)
        k = el.klass
        if is_list(k):
            if depth > MAXDEPTH or shape == "min":
                n = 0
            elif shape == "all":
                n = self.d.index(self.maxlen + 1, "len_" + el.name)
            elif shape == "full":
                n = self.maxlen
            else:
                n = self.inner("len", self.maxlen + 1)
            return ("list", [self.value(k.subtype, depth + 1) for _ in range(n)])
        return self.value(k, depth, hint)

    def value(self, k, depth, hint=None):
        if issubclass(k, C.AnyAtomic):
            return ("anyatomic", self.atom_of_kind(self.row["aa"]))
        if issubclass(k, P.Atomic):
            return self.leaf(k, hint)
        if issubclass(k, C.SequenceOfAny):
            # a list of application-tagged data (what ReadRange returns for a list of primitives)
            n = 1 if self.row["any"] != "empty" else 0
            return ("any", [self.atom_of_kind("Unsigned") for _ in range(n)])
        if issubclass(k, C.Any):
            return ("any", self.any_fill())
        if issubclass(k, C.Choice):
            els = k.choiceElements
            if depth >= MAXDEPTH:
                i = minimal_alternative(k)
            else:
                sel = self.inner("alt", 3)
                i = (0, len(els) - 1, len(els) // 2)[sel]
            el = els[i]
            return ("choice", el.name, self.element(k, el, depth + 1), [e.name for e in els])
        if issubclass(k, C.Sequence):
            h = self.hints.get(k.__name__)
            he = self.hint_elements(k)
            # below the top level only elements that are optional in the class AND in the
            # standard are ever left out (a disagreement is the business of the instance
            # whose class under test it is)
            opt = [el.name for el in k.sequenceElements
                   if el.optional and (el.name not in he or he[el.name]["optional"])]
            if h and h["kind"] == "choice":
                names = self.optional_either(k)
                absent = set(names[1:])
            elif depth >= MAXDEPTH:
                absent = set(opt)
            elif opt and self.inner("opt", 2) == 0:
                absent = set(opt)
            else:
                absent = set()
            fields = []
            for el in k.sequenceElements:
                if el.name in absent:
                    fields.append((el.name, None))
                else:
                    fields.append((el.name, self.element(k, el, depth + 1)))
            return ("seq", fields)
        raise NotImplementedError(k)


def minimal_alternative(K):
    """index of an atomic alternative if there is one (stops the recursion), else 0"""
    for i, el in enumerate(K.choiceElements):
        if issubclass(el.klass, P.Atomic) and not issubclass(el.klass, C.AnyAtomic):
            return i
    return 0


def rep_alternatives(K):
    """one alternative per distinct kind of content (each primitive datatype once, each
    constructed class once): the alternatives the leaf classes are crossed with"""
    seen, out = set(), []
    for i, el in enumerate(K.choiceElements):
        k = el.klass
        key = kind_of(k) if (issubclass(k, P.Atomic) and not issubclass(k, C.AnyAtomic)) else k
        if key not in seen:
            seen.add(key)
            out.append(i)
    return out


# ---------------------------------------------------------------- model -> bacpypes value
def atom_object(atom):
    """the Atomic instance an application would hand over for an AnyAtomic / put in an Any"""
    _, kind, py, _ = atom
    return getattr(P, kind)(py)


def live_any(items):
    a = C.Any()
    i = 0
    while i < len(items):
        it = items[i]
        if it[0] == "open":
            # [2] { Date Time }  ==  TimeStamp(dateTime=...)
            a.cast_in(B.TimeStamp(dateTime=B.DateTime(date=items[i + 1][2], time=items[i + 2][2])))
            i += 4
        else:
            a.cast_in(atom_object(it))
            i += 1
    return a


def to_live(K, M):
    """the value an application would build: python values for atomic elements, lists for
    SequenceOf / ListOf elements, instances for everything else"""
    if M is None:
        return None
    tag = M[0]
    if tag == "atom":
        return M[2]
    if tag == "anyatomic":
        return atom_object(M[1])
    if tag == "any":
        if issubclass(K, C.SequenceOfAny):
            lst = C.ListOf(P.Unsigned)([it[2] for it in M[1]])
            return K(lst)
        return live_any(M[1])
    if tag == "list":
        items = [to_live(K.subtype, it) for it in M[1]]
        if K in C._array_of_classes:
            return K(items)
        return items
    if tag == "choice":
        el = [e for e in K.choiceElements if e.name == M[1]][0]
        v = to_live(el.klass, M[2])
        if isinstance(v, list) and is_list(el.klass):
            # Choice.encode wants an instance of the list class, not a Python list
            v = el.klass(v)
        return K(**{M[1]: v})
    if tag == "seq":
        kw = {}
        els = dict((e.name, e) for e in K.sequenceElements)
        for name, child in M[1]:
            if child is not None:
                kw[name] = to_live(els[name].klass, child)
        return K(**kw)
    raise NotImplementedError(tag)


# ---------------------------------------------------------------- top-level item counts
def item_count(K, M, ctx):
    """number of top-level tag items (primitive tag or opening..closing group) that value M
    of class K occupies when tagged with context number ctx (None: not tagged)"""
    if M is None:
        return 0
    if ctx is not None:
        return 1
    tag = M[0]
    if tag in ("atom", "anyatomic"):
        return 1
    if tag == "any":
        n, depth = 0, 0
        for it in M[1]:
            if it[0] == "open":
                if depth == 0:
                    n += 1
                depth += 1
            elif it[0] == "close":
                depth -= 1
            elif depth == 0:
                n += 1
        return n
    if tag == "list":
        return sum(item_count(K.subtype, it, None) for it in M[1])
    if tag == "choice":
        el = [e for e in K.choiceElements if e.name == M[1]][0]
        return item_count(el.klass, M[2], el.context)
    if tag == "seq":
        els = dict((e.name, e) for e in K.sequenceElements)
        return sum(item_count(els[n].klass, c, els[n].context) for n, c in M[1])
    raise NotImplementedError(tag)
