"""Reference scheduler for C14, written from the property statement (not from task.py).

The schedule is a plain list of (due, seq, label); `seq` is the installation order.  The
task that has to fire next is the entry with the least (due, seq).  Nothing here uses a
heap, a flag on the task object or a clock of its own: the caller passes the instants.

Works on symbolic instants (only `<`, `<=`, `==` between them).  `judge` compares the fired
task against the *others* instead of sorting the list, so on an implementation that is
right every comparison is already decided by the path condition (no extra forks).
"""

NEVER, PENDING, SUSPENDED, FIRED = "never", "pending", "suspended", "fired"


class RefScheduler:
    def __init__(self, n):
        self.seq = 0
        self.pending = []            # [(due, seq, label)], unordered
        self.due = [None] * n        # instant of the latest installation
        self.state = [NEVER] * n

    def _drop(self, label):
        self.pending = [e for e in self.pending if e[2] != label]

    def install(self, label, due):
        """(re-)installation: a pending entry is moved, never duplicated"""
        self._drop(label)
        self.pending.append((due, self.seq, label))
        self.seq += 1
        self.due[label] = due
        self.state[label] = PENDING

    def suspend(self, label):
        if self.state[label] == PENDING:
            self._drop(label)
            self.state[label] = SUSPENDED

    def entry(self, label):
        for e in self.pending:
            if e[2] == label:
                return e
        return None

    def overtaken(self, label):
        """a pending entry that had to fire before `label` (earlier due time, or the same
        due time and installed earlier), or None"""
        mine = self.entry(label)
        for e in self.pending:
            if e[2] != label and (e[0] < mine[0] or (e[0] == mine[0] and e[1] < mine[1])):
                return e
        return None

    def overdue(self, now):
        for e in self.pending:
            if e[0] <= now:
                return e
        return None

    def fire(self, label):
        self._drop(label)
        self.state[label] = FIRED


def judge(ref, fired, start, until):
    """Compare what the loop did while the clock went from `start` to `until`
    (`fired` = [(label, clock seen by the callback)]) with the statement; updates `ref`.
    Returns None or (kind, details).  The sleep of the virtual loop is exact, so a task
    that becomes due while the loop runs fires at its due time and one that is overdue
    when the loop starts fires at once."""
    for pos, (label, clk) in enumerate(fired):
        st = ref.state[label]
        if st == SUSPENDED:
            return "fired-after-suspend", dict(task=label, at=clk)
        if st == FIRED:
            return "fired-twice", dict(task=label, at=clk)
        if st == NEVER:
            return "fired-uninstalled", dict(task=label, at=clk)
        due = ref.due[label]
        if clk < due:
            return "early", dict(task=label, at=clk, due=due)
        e = ref.overtaken(label)
        if e is not None:
            return "order", dict(task=label, due=due, overtook=e[2], its_due=e[0], pos=pos)
        want = due if due > start else start
        if clk != want:
            return "fire-time", dict(task=label, at=clk, due=due, loop_from=start)
        ref.fire(label)
    e = ref.overdue(until)
    if e is not None:
        return "missed", dict(task=e[2], due=e[0], loop_until=until)
    return None
