"""Reference scheduler for C14, written from the property statement (not from task.py).

The schedule is a plain list of (due, seq, label); `seq` is the installation order.  The
task that has to fire next is the entry with the least (due, seq).  Nothing here uses a
heap, a flag on the task object or a clock of its own: the caller passes the instants.

Works on symbolic instants (only `<`, `<=`, `==` between them).  `judge` compares the fired
task against the *others* instead of sorting the list, so on an implementation that is
right every comparison is already decided by the path condition (no extra forks).
"""

NEVER, PENDING, SUSPENDED, FIRED = "never", "pending", "suspended", "fired"


class RefScheduler:
    def __init__(self, n):
        self.seq = 0
        self.pending = []            # [(due, seq, label)], unordered
        self.due = [None] * n        # instant of the latest installation
        self.state = [NEVER] * n

    def _drop(self, label):
        self.pending = [e for e in self.pending if e[2] != label]

    def install(self, label, due):
        """(re-)installation: a pending entry is moved, never duplicated"""
        self._drop(label)
        self.pending.append((due, self.seq, label))
        self.seq += 1
        self.due[label] = due
        self.state[label] = PENDING

    def suspend(self, label):
        if self.state[label] == PENDING:
            self._drop(label)
            self.state[label] = SUSPENDED

    def entry(self, label):
        for e in self.pending:
            if e[2] == label:
                return e
        return None

    def fire(self, label):
        self._drop(label)
        self.state[label] = FIRED


def snapshot(ref):
    c = RefScheduler(len(ref.state))
    c.seq, c.pending, c.due, c.state = ref.seq, list(ref.pending), list(ref.due), list(ref.state)
    return c


def judge(ref, fired, start, until, classify=False):
    """Compare what the loop did while the clock went from `start` to `until`
    (`fired` = [(label, clock seen by the callback)]) with the statement; updates `ref`.
    Returns None or (kind, details).  The sleep of the virtual loop is exact, so a task
    that becomes due while the loop runs fires at its due time and one that is overdue
    when the loop starts fires at once.

    First pass: every comparison of instants is OR-ed into one condition (`|`, `&` on
    booleans: one solver decision per call instead of one per comparison).  Only when that
    condition is satisfiable the second pass (classify=True, on a snapshot) names the
    clause that is broken."""
    before = None if classify else snapshot(ref)
    bad = False
    for pos, (label, clk) in enumerate(fired):
        st = ref.state[label]            # labels and states are concrete
        if st == SUSPENDED:
            return "fired-after-suspend", dict(task=label, at=clk)
        if st == FIRED:
            return "fired-twice", dict(task=label, at=clk)
        if st == NEVER:
            return "fired-uninstalled", dict(task=label, at=clk)
        due = ref.due[label]
        mine = ref.entry(label)
        if classify:
            if clk < due:
                return "early", dict(task=label, at=clk, due=due)
            for e in ref.pending:
                if e[2] != label and (e[0] < mine[0] or (e[0] == mine[0] and e[1] < mine[1])):
                    return "order", dict(task=label, due=due, overtook=e[2], its_due=e[0], pos=pos)
            want = due if due > start else start
            if clk != want:
                return "fire-time", dict(task=label, at=clk, due=due, loop_from=start)
        else:
            bad = bad | (clk < due)
            for e in ref.pending:
                if e[2] != label:
                    # e had to fire first: earlier due time, or same time and installed earlier
                    bad = bad | (e[0] < mine[0]) | ((e[0] == mine[0]) & (e[1] < mine[1]))
            bad = bad | (((due > start) & (clk != due)) | ((due <= start) & (clk != start)))
        ref.fire(label)
    for e in ref.pending:
        if classify:
            if e[0] <= until:
                return "missed", dict(task=e[2], due=e[0], loop_until=until)
        else:
            bad = bad | (e[0] <= until)
    if bad:
        v = judge(before, fired, start, until, classify=True)
        return v if v is not None else ("reference-inconsistent", {})
    return None
