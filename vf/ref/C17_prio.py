"""Reference model for C17, written from ASHRAE 135 clause 19.2 (command prioritization).
Independent of bacpypes: only ints, bools, lists and whatever opaque values the caller
puts into the slots (they are stored and handed back, never inspected).

19.2.1   a commandable property has a Priority_Array of 16 slots (1 = highest priority),
         each NULL or a value, and a Relinquish_Default.
19.2.1.1 a write carries a priority 1..16 (absent = 16); a write of NULL relinquishes
         the slot.  The property takes the value of the lowest-numbered non-NULL slot,
         the Relinquish_Default when all sixteen are NULL.
19.2.3   minimum on / off time (binary objects): when the present value changes state
         the new state is also written to slot 6 and stays there for Minimum_On_Time
         (new state ACTIVE) resp. Minimum_Off_Time (new state INACTIVE) seconds, after
         which slot 6 is relinquished.  Slot 6 outranks 7..16, so commands at those
         priorities cannot change the state before the time is over; 1..5 can.
"""

NULL = None          # an empty slot


class RefCommandable:
    def __init__(self, relinquish_default):
        self.slots = [NULL] * 16            # slots[0] is priority 1
        self.default = relinquish_default

    def accepts(self, priority):
        """priority as carried by the write: None (absent) or an integer"""
        if priority is None:
            return True
        return 1 <= priority <= 16

    def command(self, priority, value):
        """value NULL = relinquish.  Returns False (and changes nothing) when the priority
        is outside 1..16."""
        if not self.accepts(priority):
            return False
        p = 16 if priority is None else priority
        for i in range(16):                 # no list indexing by a (possibly symbolic) int
            if p == i + 1:
                self.slots[i] = value
        return True

    def winner(self):
        """index (0..15) of the slot that decides the present value, None = default"""
        for i in range(16):
            if self.slots[i] is not NULL:
                return i
        return None

    def present(self):
        w = self.winner()
        return self.default if w is None else self.slots[w]


class RefMinOnOff(RefCommandable):
    """binary commandable with minimum on/off times on a clock the caller advances.
    States are booleans: True = ACTIVE.  `hold_until` is the instant at which slot 6 is
    to be relinquished (None: no hold pending)."""

    def __init__(self, relinquish_default, min_on, min_off, now=0):
        RefCommandable.__init__(self, relinquish_default)
        self.min_on = min_on
        self.min_off = min_off
        self.now = now
        self.pv = relinquish_default
        self.hold_until = None
        self.changes = []        # [(instant, new state, minimum time that applies)]
        self.releases = []       # instants at which slot 6 was relinquished
        # set when the state changed while a hold was pending and the new state's minimum
        # time is 0: 19.2.3 read literally leaves the old hold in place, an implementation
        # that drops it is just as defensible; callers exclude the case
        self.ambiguous = False

    def _evaluate(self, at):
        new = self.present()
        if new != self.pv:
            self.pv = new
            dur = self.min_on if new else self.min_off
            self.changes.append((at, new, dur))
            if dur > 0:
                self.slots[5] = new
                self.hold_until = at + dur
                return True
            if self.hold_until is not None:
                self.ambiguous = True
        return False

    def command_at_now(self, priority, value):
        ok = self.command(priority, value)
        if ok:
            self._evaluate(self.now)
        return ok

    def advance(self, dt):
        """move the clock; holds that end on the way (or exactly at the new instant) are
        released in order"""
        target = self.now + dt
        while self.hold_until is not None and self.hold_until <= target:
            at = self.hold_until
            self.hold_until = None
            self.slots[5] = NULL
            self.releases.append(at)
            self._evaluate(at)
        self.now = target

    def run_out(self):
        """let every pending hold end; returns the instant of the last release (None when
        nothing was pending)"""
        last = None
        while self.hold_until is not None:
            last = self.hold_until
            self.advance(self.hold_until - self.now)
        return last
