"""Reference model of the BACnet tag grammar, ASHRAE 135 clause 20.2.1.

Written from the standard, independent of bacpypes/primitivedata.py.  Only `+ - * // %`
and comparisons on (possibly symbolic) integers, so it runs unchanged under the symbolic
engine and under plain CPython.

  20.2.1.1  class bit (bit 3): 0 = application, 1 = context specific
  20.2.1.2  tag number 0..14 in bits 7..4; B'1111' = number follows in the next octet
            (15..254; 255 reserved)
  20.2.1.3.1 primitive data: bits 2..0 = length 0..4; B'101' = length follows:
            one octet 5..253; 254 + two octets (254..65535); 255 + four octets (larger)
            application BOOLEAN (application tag 1): bits 2..0 hold the VALUE, no contents
  20.2.1.3.2 constructed data: B'110' = opening tag, B'111' = closing tag, class bit 1
"""

APP, CTX, OPEN, CLOSE = 0, 1, 2, 3
BOOLEAN = 1


def header(cls, num, lvt):
    """octets (list of ints) that precede the contents of a tag.

    lvt: number of content octets for application / context tags; the VALUE for an
    application boolean; ignored for opening / closing tags.
    """
    first = 0
    if cls != APP:
        first += 8
    if num < 15:
        first += num * 16
    else:
        first += 0xF0
    if cls == OPEN:
        first += 6
    elif cls == CLOSE:
        first += 7
    elif lvt < 5:
        first += lvt
    else:
        first += 5
    out = [first]
    if num >= 15:
        out.append(num)
    if cls == APP or cls == CTX:
        if lvt < 5:
            pass
        elif lvt <= 253:
            out.append(lvt)
        elif lvt <= 65535:
            out += [254, lvt // 256, lvt % 256]
        else:
            out += [255, lvt // 16777216, (lvt // 65536) % 256, (lvt // 256) % 256, lvt % 256]
    return out


class Parsed(object):
    """one tag read from a buffer: class, number, lvt, content = data[start:end];
    `canonical` = this is exactly what a conforming encoder emits for that tag"""

    __slots__ = ('cls', 'num', 'lvt', 'start', 'end', 'canonical')

    def __init__(self, cls, num, lvt, start, end, canonical):
        self.cls, self.num, self.lvt = cls, num, lvt
        self.start, self.end, self.canonical = start, end, canonical


def _concrete(v, lo, hi):
    """v is known to lie in lo..hi: return it as a plain int (under symbolic execution this
    pins the position in the buffer, so that later indexing stays cheap)"""
    for k in range(lo, hi):
        if v == k:
            return k
    return hi


def parse(data, pos=0):
    """Read one tag at data[pos:].

    Returns None when the buffer ends inside the tag (truncated: the only outcome a
    decoder may have is the invalid-tag error).  Otherwise a Parsed.  Encodings that are
    complete but that no conforming encoder emits (length escape used for a value that
    fits the shorter form, extension octet < 15 or = 255, B'110'/B'111' with class bit 0,
    boolean value > 1) are read the obvious way and marked canonical=False.
    """
    n = len(data)
    if pos >= n:
        return None
    b = data[pos]
    pos += 1
    num = b // 16
    cbit = (b // 8) % 2
    low = b % 8
    canonical = True
    if num == 15:
        if pos >= n:
            return None
        num = data[pos]
        pos += 1
        if num < 15 or num == 255:
            canonical = False
    if low == 6 or low == 7:
        cls = OPEN if low == 6 else CLOSE
        if cbit == 0:
            canonical = False
        return Parsed(cls, num, 0, pos, pos, canonical)
    cls = CTX if cbit == 1 else APP
    lvt = low
    if low == 5:
        if pos >= n:
            return None
        lvt = data[pos]
        pos += 1
        if lvt == 254:
            if pos + 2 > n:
                return None
            lvt = data[pos] * 256 + data[pos + 1]
            pos += 2
            if lvt < 254:
                canonical = False
        elif lvt == 255:
            if pos + 4 > n:
                return None
            lvt = ((data[pos] * 256 + data[pos + 1]) * 256 + data[pos + 2]) * 256 + data[pos + 3]
            pos += 4
            if lvt < 65536:
                canonical = False
        elif lvt < 5:
            canonical = False
    if cls == APP and num == BOOLEAN:
        if lvt > 1:
            canonical = False
        return Parsed(cls, num, lvt, pos, pos, canonical)
    if pos + lvt > n:
        return None
    return Parsed(cls, num, lvt, pos, _concrete(pos + lvt, pos, n), canonical)


TRUNCATED, CANONICAL, TOLERATED = 'truncated', 'canonical', 'tolerated'


def tokenize(data, max_tags=64):
    """Split a whole buffer into tags.

    returns (verdict, [Parsed]):
      CANONICAL  every octet belongs to a complete canonical tag
      TRUNCATED  a run of complete tags is followed by a tag the buffer ends inside of
      TOLERATED  complete, but some tag is not canonical (see parse)
    """
    out = []
    pos = 0
    verdict = CANONICAL
    n = len(data)
    while pos < n:
        if len(out) >= max_tags:
            raise AssertionError("reference tokenizer: more tags than octets")
        p = parse(data, pos)
        if p is None:
            return TRUNCATED, out
        if not p.canonical:
            verdict = TOLERATED
        out.append(p)
        pos = p.end
    return verdict, out


# ---------------------------------------------------------------- bracket structure

def match_brackets(classes):
    """classic stack matcher over a list of tag classes.

    returns (partner, stray): partner[i] = index of the closing tag that closes the
    opening tag at i (None = never closed), and for a closing tag the index of its
    opening tag (None = closes nothing); for other tags None.
    """
    partner = [None] * len(classes)
    stack = []
    for i, c in enumerate(classes):
        if c == OPEN:
            stack.append(i)
        elif c == CLOSE:
            if stack:
                j = stack.pop()
                partner[j] = i
                partner[i] = j
    return partner


def find_context(classes, numbers, context):
    """What extraction by context number must give for a list of tags.

    Walks the top-level elements in order (an element is an application tag, a context
    tag, or an opening tag up to its matching closing tag):
      ('tag', i)        first matching element is the context tag at index i
      ('group', i, j)   first matching element is the group classes[i] .. classes[j];
                        its content is the tags i+1 .. j-1
      ('none',)         walked to the end, all groups balanced, nothing matched
      ('invalid',)      met an opening tag that is never closed, or a closing tag
                        that closes nothing, before any match
    """
    partner = match_brackets(classes)
    i = 0
    n = len(classes)
    while i < n:
        c = classes[i]
        if c == APP:
            i += 1
        elif c == CTX:
            if numbers[i] == context:
                return ('tag', i)
            i += 1
        elif c == OPEN:
            j = partner[i]
            if j is None:
                return ('invalid',)
            if numbers[i] == context:
                return ('group', i, j)
            i = j + 1
        else:
            return ('invalid',)
    return ('none',)


def any_prefix(classes):
    """What an ANY field takes from the front of a tag list: everything up to (not
    including) the first closing tag that closes nothing inside the field, or the whole
    list.  returns (count, balanced): balanced=False when an opening tag inside the
    taken part is never closed (the field is malformed)."""
    partner = match_brackets(classes)
    k = len(classes)
    for i, c in enumerate(classes):
        if c == CLOSE and partner[i] is None:
            k = i
            break
    balanced = True
    for i in range(k):
        if classes[i] == OPEN and (partner[i] is None or partner[i] >= k):
            balanced = False
    return k, balanced
