"""Virtual time for harnesses: the REAL bacpypes event loop (core.run, TaskManager,
deferred-call queue) on a harness-owned clock.  No crosshair dependency.

Stubs (DESIGN.md section 3, each is part of the claim):
* bacpypes.task._time      -> World.clock (non-decreasing; processing takes zero time)
* bacpypes.task._Trigger   -> _Wake: set() only records "woken" (the real one writes to a
                              pipe so that select() returns at once; no sockets here)
* asyncore.loop(timeout)   -> returns at once when the trigger was set since the last call
                              (install_task / suspend_task / deferred / stop all set it: the
                              loop must recompute its delta, exactly as with the real pipe);
                              otherwise advances World.clock by `timeout` (what select() would
                              sleep); stops the loop at the deadline / when idle
* singletons are reset per World (a new process would see exactly this)

The test suite's tests/time_machine.py is deliberately not used: it overrides
get_next_task (the code C14 is about) and moves the clock before draining deferred calls.
"""
import asyncore

import bacpypes.core as core
import bacpypes.task as task
from bacpypes.task import TaskManager

HUGE = 1.0e9     # `spin` handed to core.run: "nothing scheduled" shows up as timeout >= HUGE

_current = None


class _Wake:
    """stand-in for task._Trigger (WaitableEvent on a pipe)"""

    def __init__(self):
        self.woken = False

    def set(self):
        self.woken = True

    def clear(self):
        self.woken = False

    def isSet(self):
        return self.woken


def _now():
    return _current.clock if _current is not None else 0.0


class World:
    def __init__(self, t0=0.0):
        global _current
        _current = self
        self.clock = t0
        self.loops = 0
        self.before_sleep = []      # callables run when the loop is about to let time pass;
                                    # one returning True did work at this instant: re-evaluate
        task._Trigger = _Wake
        task._time = _now
        TaskManager._singleton_instance = None
        task._task_manager = None
        task._unscheduled_tasks[:] = []
        core.deferredFns = []
        core.taskManager = None
        core.running = False
        core.sleeptime = 0.0
        self.tm = TaskManager()

    # ---- the loop
    def run(self, duration=None, until=None, max_loops=5000):
        """run the real core.run() until virtual time `until` (or now + duration); with
        neither, until nothing is scheduled and nothing is deferred - or an hour of virtual
        time has passed or max_loops iterations were made: a stack that never falls quiet
        (it retries for ever, say) must not hang the check; the loop then simply ends and
        the harness finds the outcome missing, the transaction or the timer left.  Tasks
        due at the deadline itself are processed.  Returns the clock."""
        if duration is not None:
            until = self.clock + duration
        w = self
        state = {"n": 0}
        horizon = None if until is not None else self.clock + 3600.0

        def loop(timeout=30.0, use_poll=False, map=None, count=None):
            state["n"] += 1
            if state["n"] > max_loops:
                core.running = False
                raise RuntimeError("virtual loop did not quiesce")
            wake = w.tm.trigger
            if wake is not None and wake.woken:
                wake.woken = False
                return                      # select() woken at once, no time passes
            if core.deferredFns:
                return
            did = False
            for fn in w.before_sleep:
                if fn():
                    did = True
            if did:
                return
            if timeout >= HUGE:             # nothing scheduled
                if until is not None and w.clock < until:
                    w.clock = until
                core.running = False
                return
            t = w.clock + timeout
            if until is not None and t > until:
                w.clock = until
                core.running = False
                return
            if horizon is not None and t > horizon:
                core.running = False        # not quiet after an hour: leave what is pending to the oracles
                return
            w.clock = t

        real = asyncore.loop
        asyncore.loop = loop
        try:
            core.run(spin=HUGE, sigterm=None, sigusr1=None)
        finally:
            asyncore.loop = real
            core.running = False
        self.loops += state["n"]
        return self.clock

    def settle(self):
        """process everything due now (tasks and deferred calls), no time passes"""
        return self.run(until=self.clock)

    def idle(self):
        """True when no task is scheduled and no call is deferred (public API only:
        get_next_task reports delta None when the schedule is empty)"""
        if core.deferredFns:
            return False
        t, delta = self.tm.get_next_task()
        if t is not None:
            # it was due: put the observation back exactly as the loop would have run it
            self.tm.process_task(t)
            return False
        return delta is None
