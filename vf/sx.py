"""sx - path-exhaustive symbolic execution of a harness over the REAL bacpypes code.

A thin driver over the library layer of crosshair-tool (StateSpace / RootNode search tree,
Patched + COMPOSITE_TRACER symbolic builtins, z3).  See DESIGN.md section 2.1.
"""
import hashlib
import logging
import sys
import time
import traceback

import z3  # noqa: F401  (fail early when the tooling interpreter is wrong)
import crosshair.core_and_libs  # noqa: F401  registers the symbolic library models
import crosshair.statespace as _ss
from crosshair.core import Patched, deep_realize, proxy_for_type
from crosshair.statespace import (CallAnalysis, RootNode, StateSpace, StateSpaceContext,
                                  VerificationStatus, context_statespace)
from crosshair.tracers import COMPOSITE_TRACER, NoTracing, ResumedTracing
from crosshair.util import (ControlFlowException, IgnoreAttempt, NotDeterministic,
                            UnexploredPath)
from crosshair.libimpl.builtinslib import (ModelingDirector, RealBasedSymbolicFloat,
                                           SymbolicBool, SymbolicBoundedInt,
                                           SymbolicBoundedIntTuple, SymbolicBytes)
from crosshair.core import suspected_proxy_intolerance_exception

from .api import (Draws, HarnessError, LogTrap, Reached, Violation, install_logtrap, jsonable, raised_in_harness)

from . import sx_stubs, sx_bitops
sx_stubs.install()
sx_bitops.install()     # exact symbolic `a | b` (disjoint bits), `a & contiguous-mask`; range-checked bytes()
_bad = sx_stubs.conformance()
if _bad:
    raise HarnessError("inet stub disagrees with the C function on %r" % (_bad,))

# ---------------------------------------------------------------- solver accounting
_Q = {"n": 0, "t": 0.0}
_orig_is_sat = _ss.solver_is_sat


def _counting_is_sat(solver, *exprs):
    t = time.perf_counter()
    try:
        return _orig_is_sat(solver, *exprs)
    finally:
        _Q["n"] += 1
        _Q["t"] += time.perf_counter() - t


_ss.solver_is_sat = _counting_is_sat

# ---------------------------------------------------------------- swallowed control flow
# bacpypes has bare `except:` / `except Exception:` handlers (iocb.py, core.py,
# appservice.py) that would swallow the engine's own path-steering exceptions.  Every
# creation of one is noted; a path on which one was created but which did not end by
# that exception is conservatively classified UNKNOWN (never "confirmed").
_POISON = {"n": 0, "what": None}


def _hook_exc(cls):
    orig = cls.__init__

    def __init__(self, *a, **kw):
        _POISON["n"] += 1
        _POISON["what"] = cls.__name__
        orig(self, *a, **kw)
    cls.__init__ = __init__


for _c in (ControlFlowException, IgnoreAttempt, NotDeterministic):
    _hook_exc(_c)


class _SxLogTrap(LogTrap):
    def classify(self, exc):
        with NoTracing():
            if isinstance(exc, TypeError) and suspected_proxy_intolerance_exception(exc):
                self.intolerance = True


LOGTRAP = install_logtrap(_SxLogTrap())


# ---------------------------------------------------------------- symbolic draws
class SymbolicDraws(Draws):
    symbolic = True

    def __init__(self, twin=False):
        Draws.__init__(self)
        self.twin = twin
        self._n = 0

    def _name(self, name):
        # numbered per path: a process-global counter makes replayed prefixes create
        # differently named variables and CrossHair aborts with NotDeterministic
        self._n += 1
        return "%s_%d" % (name, self._n) + context_statespace().uniq()

    def _int(self, lo, hi, name):
        with NoTracing():
            # built directly: proxy_for_type() may "prematurely realize" (a CrossHair
            # search heuristic) and hand back a concrete value
            clo = lo if type(lo) is int else None
            chi = hi if type(hi) is int else None
            v = SymbolicBoundedInt(self._name(name), int, clo, chi)
            space = context_statespace()
            if clo is None:         # a bound that is itself symbolic
                space.add(v.var >= lo.var)
            if chi is None:
                space.add(v.var <= hi.var)
            return v

    def _bool(self, name):
        with NoTracing():
            return SymbolicBool(self._name(name), bool)

    def _bytes(self, lo, hi, name):
        with NoTracing():
            space = context_statespace()
            inner = SymbolicBoundedIntTuple([(0, 255)], self._name(name))
            space.add(inner._len.var >= lo)
            space.add(inner._len.var <= hi)
            return SymbolicBytes(inner)

    def _ignore(self):
        raise IgnoreAttempt("assume")

    def untraced(self):
        return NoTracing()


def pin_real_floats():
    """pin CrossHair's float model to real arithmetic for this path (DESIGN 2.1)"""
    with NoTracing():
        context_statespace().extra(ModelingDirector).global_representations[float] = \
            RealBasedSymbolicFloat


# ---------------------------------------------------------------- exploration
def _realize_log(d):
    with NoTracing():
        vals = deep_realize([v for _, v in d.log])
    out = []
    for (n, _), v in zip(d.log, vals):
        if isinstance(v, bytearray):
            v = bytes(v)
        out.append((n, v))
    return out


def _realize_sig(sig):
    with NoTracing():
        try:
            return jsonable(deep_realize(sig))
        except Exception as e:   # pragma: no cover
            return {"unrealizable": repr(e)}


def explore(fn, params, budget=60.0, path_timeout=60.0, twin=False, known=None,
            max_samples=4, max_new=1, pin_floats=True, max_paths=10 ** 7):
    """Run fn(d, **params) on every feasible path.

    known: callable(kind, sig_json) -> finding id or None.  Violations matching a known
    finding are recorded (first occurrence per id, with realised draws) and the search
    goes on; the search stops after `max_new` violations that match none.
    """
    root = RootNode()
    st = dict(paths=0, ok=0, ignored=0, unknown=0, exhausted=False, viol_paths=0,
              violations=[], known={}, samples=[], unknown_reasons={}, digests=0,
              harness_errors=[])
    digests = set()
    new_found = 0
    t0 = time.process_time()
    q0, qt0 = _Q["n"], _Q["t"]
    for _ in range(max_paths):
        if time.process_time() - t0 > budget:
            break
        start = time.process_time()
        space = StateSpace(execution_deadline=start + path_timeout,
                           model_check_timeout=path_timeout / 2, search_root=root)
        status = None
        d = SymbolicDraws(twin=twin)
        LOGTRAP.reset()
        poison0 = _POISON["n"]
        ended_by_cf = False
        raised = None
        reached = False
        with Patched(), COMPOSITE_TRACER, NoTracing(), StateSpaceContext(space):
            try:
                if pin_floats:
                    pin_real_floats()
                try:
                    with ResumedTracing():
                        fn(d, **params)
                except Violation as v:
                    raised = v
                except Reached:
                    reached = True
                except ControlFlowException:
                    ended_by_cf = True
                    raise
                except NotDeterministic:
                    ended_by_cf = True
                    raise
                except Exception as e:
                    with NoTracing():
                        if isinstance(e, TypeError) and suspected_proxy_intolerance_exception(e):
                            ended_by_cf = True
                            raise UnexploredPath("proxy intolerance: %r" % (e,))
                        if raised_in_harness(e):
                            # the harness itself tripped over the library's shape: inconclusive, never a violation
                            ended_by_cf = True
                            raise UnexploredPath("harness tripped: %s: %s" % (type(e).__name__, str(e)[:60]))
                    # anything else escaping the harness: reported as a violation of kind
                    # escaped-exception (it counts only if it reproduces under plain replay)
                    raised = Violation("escaped-exception", exc=type(e).__name__,
                                       where=_where(e), msg=str(e)[:120])
                # a path-steering exception was created but swallowed by library code
                if _POISON["n"] != poison0 or LOGTRAP.intolerance:
                    raise UnexploredPath("engine exception swallowed by library code (%s)"
                                         % (_POISON["what"],))
                viols = list(d.flags)
                if raised is not None:
                    viols.append(raised)
                with ResumedTracing():
                    space.detach_path()
                if viols or reached:
                    draws = _realize_log(d)
                    if reached:
                        st["violations"].append({"kind": "reach", "sig": {}, "draws": jsonable(draws)})
                        new_found += 1
                    for v in viols:
                        sig = _realize_sig(v.sig)
                        fid = known(v.kind, sig) if known else None
                        rec = {"kind": v.kind, "sig": sig, "draws": jsonable(draws)}
                        if fid is not None:
                            k = st["known"].setdefault(fid, dict(rec, count=0))
                            k["count"] += 1
                        else:
                            st["violations"].append(rec)
                            new_found += 1
                    st["viol_paths"] += 1
                    # the path is fully explored; let the search go on
                    status = VerificationStatus.CONFIRMED
                else:
                    status = VerificationStatus.CONFIRMED
                    st["ok"] += 1
                    if len(st["samples"]) < max_samples:
                        st["samples"].append({"draws": jsonable(_realize_log(d)),
                                              "notes": _realize_sig(d.notes)})
                dg = hashlib.sha1(repr([id(n) for n in space.choices_made]).encode()).hexdigest()
                digests.add(dg)
            except _Stop:
                pass
            except IgnoreAttempt:
                st["ignored"] += 1
                status = None
            except UnexploredPath as e:
                st["unknown"] += 1
                r = type(e).__name__ + (": " + str(e)[:80] if str(e) else "")
                st["unknown_reasons"][r] = st["unknown_reasons"].get(r, 0) + 1
                status = VerificationStatus.UNKNOWN
            except NotDeterministic:
                st["harness_errors"].append({"error": "NotDeterministic", "trace": traceback.format_exc()[-1500:]})
                status = VerificationStatus.UNKNOWN
                st["paths"] += 1
                break
            _, exhausted = space.bubble_status(CallAnalysis(status))
        st["paths"] += 1
        if st["harness_errors"]:
            break
        if new_found >= max_new:
            break
        if exhausted:
            st["exhausted"] = True
            break
    st["digests"] = len(digests)
    st["cpu_s"] = round(time.process_time() - t0, 3)
    st["queries"] = _Q["n"] - q0
    st["solver_s"] = round(_Q["t"] - qt0, 3)
    return st


class _Stop(BaseException):
    pass


def _where(e):
    """innermost bacpypes frame of an exception's traceback (file:function)"""
    tb = e.__traceback__
    best = "?"
    while tb is not None:
        co = tb.tb_frame.f_code
        if "/bacpypes/" in co.co_filename:
            best = co.co_filename.rsplit("/bacpypes/", 1)[1] + ":" + co.co_name
        tb = tb.tb_next
    return best


def trace_functions(fn, params, draws_list, prefix):
    """plain re-execution of sampled paths under sys.setprofile: the set of bacpypes
    functions the harness drives (the 'functions encoded'), and a consistency check
    (a sampled confirmed path must also pass under plain execution)."""
    from .api import run_concrete, unjson
    seen = set()

    def prof(frame, event, arg):
        if event == "call":
            co = frame.f_code
            f = co.co_filename
            if f.startswith(prefix):
                seen.add(f[len(prefix):].lstrip("/") + ":" + co.co_qualname)
    results = []
    for draws in draws_list:
        dl = [(n, unjson(v)) for n, v in draws]
        sys.setprofile(prof)
        try:
            r = run_concrete(fn, params, dl)
        finally:
            sys.setprofile(None)
        results.append(r["outcome"])
    return sorted(seen), results
