"""Solver-based checking of the real bacpypes code (see /verif/DESIGN.md)."""
