"""./check front end: run every obligation of a property for a tier, replay
counterexamples, write evidence, print VIOLATION / KNOWN-FINDING lines.

exit 0: nothing violated on everything explored (inconclusive obligations are listed in
        the evidence, never counted as discharged)
exit 1: a violation that reproduces under plain replay and is not a known finding
exit 3: harness error (a counterexample that does not reproduce, a crashing harness)
"""
import concurrent.futures
import hashlib
import importlib
import json
import os
import subprocess
import sys
import time

VERIF = os.path.dirname(os.path.dirname(os.path.abspath(__file__)))
PYVT = os.environ.get("VERIF_PYVT", "python3-vt")
PYREPO = os.environ.get("VERIF_PYREPO", "/venv/bin/python")
JOBS = int(os.environ.get("VERIF_JOBS", "16"))


def _env():
    from .api import REPO
    env = dict(os.environ)
    env["PYTHONPATH"] = VERIF
    env["PYTHONDONTWRITEBYTECODE"] = "1"
    env["PYTHONHASHSEED"] = "0"
    env["TZ"] = "UTC"
    env["VERIF_REPO"] = REPO
    return env


def check_env():
    from .api import repo_setup, PY34
    ok = True
    try:
        import crosshair
        import z3
        print("crosshair", crosshair.__version__, "z3", z3.get_version_string())
        if crosshair.__version__ != "0.0.110":
            print("WARNING: engine was built against crosshair-tool 0.0.110")
    except Exception as e:
        print("tooling interpreter lacks crosshair/z3:", e)
        ok = False
    try:
        repo_setup()
        import bacpypes
        print("bacpypes", bacpypes.__version__, "from", PY34)
    except Exception as e:
        print("cannot import bacpypes from the working tree:", e)
        ok = False
    r = subprocess.run([PYREPO, "-c", "import sys; print(sys.version.split()[0])"],
                       capture_output=True, text=True)
    print("repo interpreter", r.stdout.strip() or r.stderr.strip()[-200:])
    return 0 if ok else 2


def run_worker(inst, prop, max_new=None):
    cmd = [PYVT, "-m", "vf.worker", inst.module, inst.name, json.dumps(inst.params),
           str(inst.budget), str(inst.path_timeout), prop]
    t0 = time.time()
    wall_cap = inst.budget * 5.0 + 300     # CPU budgets; the machine may be heavily shared
    env = _env()
    if max_new is not None:
        env["VERIF_MAXNEW"] = str(max_new)
    try:
        p = subprocess.run(cmd, cwd=VERIF, env=env, capture_output=True, text=True,
                           timeout=wall_cap)
    except subprocess.TimeoutExpired:
        return {"crashed": "wall timeout %ds" % wall_cap, "wall_s": time.time() - t0}
    for line in reversed(p.stdout.splitlines()):
        if line.startswith("@@RESULT@@"):
            res = json.loads(line[len("@@RESULT@@"):])
            return res
    return {"crashed": "no result (exit %s)" % p.returncode,
            "stderr": p.stderr[-3000:], "stdout": p.stdout[-1000:], "wall_s": time.time() - t0}


def run_replay(path, python):
    p = subprocess.run([python, "-m", "vf.replay", path], cwd=VERIF, env=_env(),
                       capture_output=True, text=True, timeout=900)
    out = None
    for line in reversed(p.stdout.splitlines()):
        if line.startswith("{"):
            try:
                out = json.loads(line)
                break
            except Exception:
                pass
    if out is None:
        out = {"outcome": "harness_error", "error": "no output", "stderr": p.stderr[-1500:],
               "reproduced": False}
    return out


def write_replay(prop, inst, rec):
    os.makedirs(os.path.join(VERIF, "replays"), exist_ok=True)
    body = {"property": prop, "module": inst.module, "fn": inst.name, "params": inst.params,
            "draws": rec["draws"], "expect": {"kind": rec["kind"], "sig": rec["sig"]}}
    dg = hashlib.sha1(json.dumps(body, sort_keys=True).encode()).hexdigest()[:10]
    path = os.path.join(VERIF, "replays", "%s-%s-%s.json" % (prop, inst.name, dg))
    with open(path, "w") as f:
        json.dump(body, f, indent=1)
    return path


def confirm(prop, inst, rec):
    """replay a counterexample under plain execution in both interpreters"""
    path = write_replay(prop, inst, rec)
    r1 = run_replay(path, PYVT)
    r2 = run_replay(path, PYREPO)
    rep = bool(r1.get("reproduced")) and bool(r2.get("reproduced"))
    return path, rep, {"tooling": r1, "repo": r2}


def main(argv):
    if not argv or argv[0] in ("-h", "--help"):
        print(__doc__)
        return 2
    if argv[0] == "--env":
        return check_env()
    if argv[0] == "--replay":
        out = {"tooling": run_replay(argv[1], PYVT), "repo": run_replay(argv[1], PYREPO)}
        print(json.dumps(out, indent=1))
        rep = out["tooling"].get("reproduced") and out["repo"].get("reproduced")
        print("reproduced" if rep else "not reproduced")
        return 1 if rep else 0
    prop = argv[0]
    tier = argv[1] if len(argv) > 1 else os.environ.get("VERIF_TIER", "quick")
    only = None
    if "--only" in argv:
        only = argv[argv.index("--only") + 1]
    seed = int(os.environ.get("VERIF_SEED", "0") or 0)
    t0 = time.time()
    from .api import repo_setup, REPO
    repo_setup()
    from . import findings
    mod = importlib.import_module("vf.harness." + prop)
    insts = list(mod.instances(tier))
    if tier == "quick":
        # cheap obligations of the thorough tier run in the quick tier as well (list written by tools/mkpromote.py from
        # the last complete thorough run)
        try:
            with open(os.path.join(VERIF, "vf", "promote.json")) as f:
                wanted = set(json.load(f).get(prop, []))
        except Exception:
            wanted = set()
        if wanted:
            have = set(i.ident for i in insts)
            for i in mod.instances("thorough"):
                if i.ident in wanted and i.ident not in have:
                    i.budget = min(i.budget, 120.0)
                    insts.append(i)
                    have.add(i.ident)
    # the budgets in the harness modules are about twice the CPU time measured on the development machine; they are caps
    # (an instance ends when its tree is exhausted), so a slower or busier machine gets head-room instead of inconclusives
    scale = float(os.environ.get("VERIF_BUDGET_SCALE", "2.5" if tier == "quick" else "1.5"))
    for i in insts:
        i.budget = float(i.budget) * scale
        i.path_timeout = float(i.path_timeout) * min(scale, 2.0)
    if only:
        insts = [i for i in insts if only in i.ident]
    # VERIF_SEED only permutes the launch order
    order = sorted(range(len(insts)), key=lambda i: (-insts[i].budget, (i * 2654435761 + seed) % 1000003))
    results = [None] * len(insts)
    with concurrent.futures.ThreadPoolExecutor(max_workers=JOBS) as ex:
        futs = {ex.submit(run_worker, insts[i], prop): i for i in order}
        for f in concurrent.futures.as_completed(futs):
            results[futs[f]] = f.result()

    violations = []     # (inst, rec, path)
    known_seen = {}
    harness_errors = []
    inconclusive = []
    discharged = 0
    ev = dict(evaluations=0, reached=0, queries=0, solver_s=0.0, cpu_s=0.0, digests=0)
    functions = set()
    samples = []
    per_harness = []
    for inst, res in zip(insts, results):
        row = {"harness": inst.ident, "budget_s": inst.budget}
        if "crashed" in res:
            harness_errors.append({"harness": inst.ident, "error": res["crashed"],
                                   "stderr": res.get("stderr", "")[-1500:]})
            row["status"] = "crashed: " + res["crashed"]
            per_harness.append(row)
            continue
        m, tw = res["main"], res["twin"]
        ev["evaluations"] += m["paths"] + tw["paths"]
        ev["reached"] += m["ok"] + m["viol_paths"]
        ev["digests"] += m["digests"]
        ev["queries"] += m["queries"]
        ev["solver_s"] += m["solver_s"]
        ev["cpu_s"] += m["cpu_s"] + tw["cpu_s"]
        functions.update(res.get("functions", []))
        for s in m["samples"][:2]:
            if len(samples) < 12:
                samples.append({"harness": inst.ident, "draws": s["draws"], "notes": s.get("notes")})
        row.update(paths=m["paths"], reached_oracle=m["ok"] + m["viol_paths"], ignored=m["ignored"],
                   unknown=m["unknown"], exhausted=m["exhausted"], queries=m["queries"],
                   solver_s=m["solver_s"], cpu_s=m["cpu_s"], meta=res.get("meta", {}))
        reasons = []
        for he in m["harness_errors"] + tw.get("harness_errors", []):
            harness_errors.append({"harness": inst.ident, "error": he.get("error"),
                                   "trace": he.get("trace", "")})
        new_here = 0
        unreproduced = []
        for rec in m["violations"]:
            path, rep, detail = confirm(prop, inst, rec)
            if rep:
                violations.append((inst, rec, path))
                new_here += 1
            else:
                unreproduced.append({"harness": inst.ident, "error": "counterexample does not reproduce",
                                     "replay": path, "kind": rec["kind"], "detail": detail})
        if unreproduced and not new_here:
            # A counterexample that fails under plain replay usually means state leaked from one explored path
            # into the next inside the engine process (e.g. a changed library keeps data in a class-level
            # default).  Collect more candidates and report the first that does reproduce in a fresh process;
            # only if none does is this a harness error.
            again = run_worker(inst, prop, max_new=25)
            seen = {json.dumps(r["draws"], sort_keys=True) for r in m["violations"]}
            for rec in (again.get("main") or {}).get("violations", []):
                key = json.dumps(rec["draws"], sort_keys=True)
                if key in seen:
                    continue
                seen.add(key)
                path, rep, detail = confirm(prop, inst, rec)
                if rep:
                    violations.append((inst, rec, path))
                    new_here += 1
                    break
        if unreproduced and not new_here:
            harness_errors.extend(unreproduced)
        for fid, rec in m["known"].items():
            path, rep, detail = confirm(prop, inst, rec)
            if rep:
                k = known_seen.setdefault(fid, {"count": 0, "replay": path, "harness": inst.ident})
                k["count"] += rec.get("count", 1)
            else:
                harness_errors.append({"harness": inst.ident, "error": "known finding %s does not reproduce" % fid,
                                       "replay": path, "detail": detail})
        if not tw.get("reached"):
            reasons.append("reachability twin did not reach the end of the oracle")
        elif not tw.get("replayed"):
            reasons.append("reachability twin does not replay")
        if not m["exhausted"]:
            reasons.append("not exhausted within budget (%d paths)" % m["paths"])
        if m["unknown"]:
            reasons.append("%d unknown paths %s" % (m["unknown"], m["unknown_reasons"]))
        bad_samples = [r for r in res.get("sample_replays", []) if r != "ok"]
        if bad_samples:
            harness_errors.append({"harness": inst.ident, "error": "sampled confirmed path fails under plain execution",
                                   "detail": bad_samples})
        if new_here:
            row["status"] = "VIOLATED"
        elif reasons:
            row["status"] = "inconclusive: " + "; ".join(reasons)
            inconclusive.append({"harness": inst.ident, "reasons": reasons})
        else:
            row["status"] = "discharged" + (" (known findings: %s)" % ",".join(m["known"]) if m["known"] else "")
            discharged += 1
        per_harness.append(row)

    for row in per_harness:
        print("%-58s %s  paths=%s q=%s cpu=%ss" % (row["harness"][:58], row["status"], row.get("paths"),
                                                   row.get("queries"), row.get("cpu_s")))
    for fid, k in sorted(known_seen.items()):
        print("KNOWN-FINDING: property=%s %s [%s; %d paths; replay=%s]" %
              (prop, findings.describe(fid), fid, k["count"], os.path.relpath(k["replay"], VERIF)))
    for inst, rec, path in violations:
        print("VIOLATION property=%s replay=%s" % (prop, path))
        print("  harness=%s kind=%s sig=%s" % (inst.ident, rec["kind"], json.dumps(rec["sig"])[:300]))
    for he in harness_errors:
        print("HARNESS-ERROR %s: %s" % (he["harness"], str(he["error"])[:300]))
        if he.get("trace"):
            print(he["trace"])
        if he.get("stderr"):
            print(he["stderr"])

    wall = time.time() - t0
    metas = {}
    for inst in insts:
        metas.setdefault(inst.name, getattr(inst.fn, "meta", {}))
    evidence = {
        "property_id": prop,
        "tier": tier,
        "seed": seed,
        "level": "other",
        "coverage": {
            "explanation": "bounded symbolic execution of the real bacpypes code (py34/bacpypes imported from "
                           "the working tree): every feasible path of each harness within its stated bounds is "
                           "run on z3-backed symbolic inputs and each oracle assertion is decided by the solver; "
                           "an obligation counts as discharged only when its path tree is exhausted with no "
                           "unknown path, its reachability twin is reached and replays, and sampled paths pass "
                           "under plain execution",
            "obligations": len(insts),
            "discharged": discharged,
            "evaluations": ev["evaluations"],
            "distinct_nontrivial": ev["digests"],
            "rule": "one evaluation = one explored path (one solver-feasible branch combination of harness + "
                    "library code, covering every value of the symbolic inputs consistent with it); counted as "
                    "distinct and non-trivial when the path passed all assumptions and ran the oracle to its end, "
                    "distinct by the digest of its branch-decision sequence",
            "exhaustive": bool(insts) and discharged == len(insts),
            "samples": samples,
            "functions_encoded": sorted(functions),
            "bounds": {k: v.get("bounds") for k, v in metas.items()},
            "outside_bounds": {k: v.get("outside") for k, v in metas.items()},
            "stubs": sorted({s for v in metas.values() for s in v.get("stubs", [])}),
            "queries": ev["queries"],
            "solver_s": round(ev["solver_s"], 2),
            "cpu_s": round(ev["cpu_s"], 2),
            "inconclusive": inconclusive,
            "known_findings_seen": known_seen,
            "harness_errors": harness_errors,
            "per_harness": per_harness,
            "checker_cmd": "./check %s %s" % (prop, tier),
            "trusted_base": ["CPython 3.11 (tooling) / 3.12 (replay)", "crosshair-tool 0.0.110 symbolic models of builtins",
                             "z3 " + _z3v(), "stubs listed under coverage.stubs", "reference models in vf/ref"],
            "repo": REPO,
        },
        "assumptions": sorted({a for v in metas.values() for a in v.get("assumes", [])}),
        "wall_s": round(wall, 2),
        "violations": len(violations),
    }
    # a partial (--only) run never overwrites the property's evidence, nor does a run against a tree other than /repo
    # (seeded changes and mutations are checked on scratch copies through VERIF_REPO)
    evdir = os.path.join(VERIF, "evidence")
    if os.path.realpath(REPO) != "/repo":
        evdir = os.path.join(evdir, "scratch")
    os.makedirs(evdir, exist_ok=True)
    evname = prop + (".partial" if only else "") + ".json"
    with open(os.path.join(evdir, evname), "w") as f:
        json.dump(evidence, f, indent=1)
    if tier == "thorough" and not only and evdir.endswith("evidence"):
        # the evidence file belongs to the latest run of either tier; keep a record of the last complete thorough run
        os.makedirs(os.path.join(VERIF, "runs", "thorough"), exist_ok=True)
        with open(os.path.join(VERIF, "runs", "thorough", prop + ".json"), "w") as f:
            json.dump(evidence, f, indent=1)
    print("%s %s: obligations=%d discharged=%d inconclusive=%d violations=%d known=%d paths=%d queries=%d wall=%.0fs" %
          (prop, tier, len(insts), discharged, len(inconclusive), len(violations), len(known_seen),
           ev["evaluations"], ev["queries"], wall))
    if violations:
        return 1
    if harness_errors:
        return 3
    return 0


def _z3v():
    try:
        import z3
        return z3.get_version_string()
    except Exception:
        return "?"


if __name__ == "__main__":
    sys.exit(main(sys.argv[1:]))
