"""Scenario rig: complete bacpypes stacks (application - ASAP - SMAP - NSAP - vlan.Node)
on a fault-injecting virtual LAN, driven by the real event loop on a virtual clock.
No crosshair dependency (runs under plain replay too).

The medium: bacpypes.vlan.Network subclassed so that process_pdu consults a fault
schedule (deliver / drop / duplicate / hold-and-release-later / silence-from) and records
every frame.  This is the library's own virtual LAN, the medium the properties name.
"""
import bacpypes.core as _core
from bacpypes.comm import bind, Client
from bacpypes.pdu import Address, LocalBroadcast, PDU
from bacpypes.vlan import Network, Node
from bacpypes.app import Application, ApplicationIOController
from bacpypes.appservice import StateMachineAccessPoint, ApplicationServiceAccessPoint
from bacpypes.netservice import NetworkServiceAccessPoint, NetworkServiceElement
from bacpypes.local.device import LocalDeviceObject
from bacpypes.apdu import (ConfirmedPrivateTransferRequest, ConfirmedPrivateTransferACK,
                           ConfirmedPrivateTransferError, SimpleAckPDU, ComplexAckPDU, ErrorPDU,
                           RejectPDU, AbortPDU, Error)
from bacpypes.basetypes import ErrorType
from bacpypes.primitivedata import OctetString
from bacpypes.constructeddata import Any
from bacpypes.iocb import IOCB
from bacpypes.errors import InvalidParameterDatatype, AbortOther

from .world import World, _now as now

VENDOR = 999

# register the local device class once (a global registry; per-path registration would
# make paths depend on each other)
LocalDeviceObject(objectName="_reg", objectIdentifier=("device", 4194302), vendorIdentifier=VENDOR)

DROP, DUP, HOLD, SILENCE, DELAY = 0, 1, 2, 3, 4
FAULT_NAMES = {DROP: "drop", DUP: "duplicate", HOLD: "hold", SILENCE: "silence-from", DELAY: "delay"}


class Fault:
    """one fault: at frame number `index` (0-based count of frames put on the LAN) do `kind`.
    HOLD  = late arrival / reordering: the frame is delivered after `arg` younger frames, at the
            latest when the LAN falls quiet at the same instant (no timer can expire meanwhile);
    DELAY = the frame is delivered after `arg` younger frames however long that takes (timers
            may expire and retransmissions start meanwhile), at the latest at flush()."""

    def __init__(self, index, kind, arg=1):
        self.index, self.kind, self.arg = index, kind, arg


class FaultLAN(Network):
    def __init__(self, faults=(), world=None, **kw):
        Network.__init__(self, broadcast_address=LocalBroadcast(), **kw)
        if world is not None:
            world.before_sleep.append(self.release_late)
        self.faults = list(faults)
        self.n = 0
        self.frames = []      # (index, source, destination, bytes) of every frame offered
        self.fate = []        # what happened to it
        self.held = []        # [(release_after_index, pdu)]
        self.silent = False

    def process_pdu(self, pdu):
        i = self.n
        self.n += 1
        self.frames.append((i, pdu.pduSource, pdu.pduDestination, bytes(pdu.pduData)))
        action = None
        for f in self.faults:
            if f.index == i:          # symbolic index: the solver picks the placement
                action = f
                break
        if action is not None and action.kind == SILENCE:
            self.silent = True
        if self.silent:
            self.fate.append("lost")
        elif action is None:
            self.fate.append("delivered")
            Network.process_pdu(self, pdu)
        elif action.kind == DROP:
            self.fate.append("dropped")
        elif action.kind == DUP:
            self.fate.append("duplicated")
            Network.process_pdu(self, pdu)
            Network.process_pdu(self, pdu)
        elif action.kind == HOLD:
            self.fate.append("held")
            self.held.append([i + action.arg, pdu, True])
            return
        elif action.kind == DELAY:
            self.fate.append("delayed")
            self.held.append([i + action.arg, pdu, False])
            return
        # release what was held long enough (it arrives late, after younger frames)
        if self.held:
            keep = []
            for rel, p, same_instant in self.held:
                if rel <= i and not self.silent:
                    Network.process_pdu(self, p)
                else:
                    keep.append([rel, p, same_instant])
            self.held = keep

    def release_late(self):
        """the LAN fell quiet at this instant: frames that were merely reordered arrive now"""
        now_, self.held = [h for h in self.held if h[2]], [h for h in self.held if not h[2]]
        for rel, p, _ in now_:
            if not self.silent:
                Network.process_pdu(self, p)
        return bool(now_)

    def flush(self):
        """deliver frames still held (a delayed frame eventually arrives)"""
        held, self.held = self.held, []
        for rel, p, _ in held:
            if not self.silent:
                # through the deferred queue, so that the frame arrives inside the event loop like every other frame (an
                # exception in the receiving stack is then the loop's business, as it is for a frame from a socket)
                _core.deferred(Network.process_pdu, self, p)
        return len(held)


def make_device(name, inst, **kw):
    args = dict(objectName=name, objectIdentifier=("device", inst), vendorIdentifier=VENDOR,
                maxApduLengthAccepted=1024, segmentationSupported="segmentedBoth",
                maxSegmentsAccepted=16, numberOfApduRetries=3, apduTimeout=3000,
                apduSegmentTimeout=1500)
    args.update(kw)
    return LocalDeviceObject(**args)


class _NSE(NetworkServiceElement):
    _startup_disabled = True


class _StackMixin:
    """wires a full stack under an Application subclass"""

    _startup_disabled = True

    def _wire(self, dev, lan, address=None, window=None, app_timeout=None):
        self.address = address if address is not None else Address(dev.objectIdentifier[1])
        self.asap = ApplicationServiceAccessPoint()
        self.smap = StateMachineAccessPoint(dev)
        self.smap.deviceInfoCache = self.deviceInfoCache
        if window is not None:
            self.smap.proposedWindowSize = window
        if app_timeout is not None:
            self.smap.applicationTimeout = app_timeout
        self.nsap = NetworkServiceAccessPoint()
        self.nse = _NSE()
        bind(self.nse, self.nsap)
        bind(self, self.asap, self.smap, self.nsap)
        self.node = Node(self.address, lan)
        self.nsap.bind(self.node)
        self.indications = []       # requests handed to the application
        self.confirmations = []     # outcomes handed to the requesting application
        self.conf_times = []        # virtual time of each
        self.pt_result = None       # payload to answer private transfers with
        self.pt_mode = "ack"        # ack | error | reject | abort | silent
        self.pt_seen = []
        self.pt_pending = []        # requests held back in mode "later"

    def indication(self, apdu):
        self.indications.append(apdu)
        super().indication(apdu)

    # ConfirmedPrivateTransfer: the payload-carrying service used by the scenarios
    def do_ConfirmedPrivateTransferRequest(self, apdu):
        self.pt_seen.append(apdu)
        if self.pt_mode == "silent":
            return
        if self.pt_mode == "later":
            self.pt_pending.append(apdu)
            return
        if self.pt_mode == "error":
            err = ConfirmedPrivateTransferError(context=apdu)
            err.errorType = ErrorType(errorClass="services", errorCode="other")
            err.vendorID = VENDOR
            err.serviceNumber = 1
            self.response(err)
            return
        if self.pt_mode == "reject":
            raise InvalidParameterDatatype("refused by the harness application")
        if self.pt_mode == "abort":
            raise AbortOther("aborted by the harness application")
        self.pt_answer(apdu)

    def pt_answer(self, apdu, result=None):
        ack = ConfirmedPrivateTransferACK(context=apdu)
        ack.vendorID = VENDOR
        ack.serviceNumber = 1
        if result is None:
            result = self.pt_result
        if result is not None:
            ack.resultBlock = Any(OctetString(result))
        self.response(ack)


class RawPeer(Client):
    """a bare station on the LAN: sends hand-built frames, records what it receives"""

    def __init__(self, addr, lan):
        Client.__init__(self)
        self.address = addr if isinstance(addr, Address) else Address(addr)
        self.node = Node(self.address, lan)
        bind(self, self.node)
        self.received = []      # (source, bytes)

    def confirmation(self, pdu):
        self.received.append((pdu.pduSource, bytes(pdu.pduData)))

    def send(self, dest, data):
        self.request(PDU(bytes(data), destination=dest))


def frame(apdu_octets, expecting_reply=False):
    """LAN frame for a local (unrouted) APDU: NPCI version 1, control, then the APDU"""
    return bytes([0x01, 0x04 if expecting_reply else 0x00]) + bytes(apdu_octets)


class AppStack(_StackMixin, Application):
    """Application.request / confirmation interface"""

    def __init__(self, dev, lan, **kw):
        Application.__init__(self, dev)
        self._wire(dev, lan, **kw)

    def confirmation(self, apdu):
        self.confirmations.append(apdu)
        self.conf_times.append(now())


class IOStack(_StackMixin, ApplicationIOController):
    """IOCB interface (request_io); outcomes are recorded per IOCB callback"""

    def __init__(self, dev, lan, **kw):
        ApplicationIOController.__init__(self, dev)
        self._wire(dev, lan, **kw)

    def submit(self, apdu):
        iocb = IOCB(apdu)
        iocb.calls = []
        iocb.add_callback(lambda io: io.calls.append((io.ioState, io.ioResponse, io.ioError, now())))
        self.request_io(iocb)
        return iocb


def private_transfer(dest, payload, service=1):
    req = ConfirmedPrivateTransferRequest(vendorID=VENDOR, serviceNumber=service, destination=dest)
    if payload is not None:
        req.serviceParameters = Any(OctetString(payload))
    return req


def payload_of(apdu, attr):
    """octets carried in a private-transfer request / ack (None when absent)"""
    v = getattr(apdu, attr, None)
    if v is None:
        return None
    return bytes(v.cast_out(OctetString))


OUTCOME_TYPES = (SimpleAckPDU, ComplexAckPDU, ErrorPDU, RejectPDU, AbortPDU)


def outcome_kind(apdu):
    if isinstance(apdu, (SimpleAckPDU, ComplexAckPDU)):
        return "ack"
    if isinstance(apdu, ErrorPDU):
        return "error"
    if isinstance(apdu, RejectPDU):
        return "reject"
    if isinstance(apdu, AbortPDU):
        return "abort"
    return "other:" + type(apdu).__name__


def residue(stack):
    """what a stack still holds for finished business (must be empty at quiescence)"""
    r = {}
    if stack.smap.clientTransactions:
        r["clientTransactions"] = len(stack.smap.clientTransactions)
    if stack.smap.serverTransactions:
        r["serverTransactions"] = len(stack.smap.serverTransactions)
    q = getattr(stack, "queue_by_address", None)
    if q:
        r["iocb_queues"] = len(q)
    return r
