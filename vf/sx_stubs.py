"""Engine-side environment stubs (DESIGN.md section 3): C functions that CrossHair does
not model get a pure-Python stand-in *while tracing*; under plain replay the real
functions run.  Every stub here is part of the claim of the harnesses that reach it.
"""
import socket

from crosshair.core import register_patch
from crosshair.tracers import NoTracing
from crosshair.util import CrossHairValue, CrosshairUnsupported

_real_ntoa = socket.inet_ntoa
_real_aton = socket.inet_aton


def _is_concrete(x):
    with NoTracing():
        return not isinstance(x, CrossHairValue)


def py_ntoa(packed):
    if len(packed) != 4:
        raise OSError("packed IP wrong length for inet_ntoa")
    return "%d.%d.%d.%d" % (packed[0], packed[1], packed[2], packed[3])


def py_aton(s):
    parts = s.split('.')
    if len(parts) != 4:
        raise OSError("illegal IP address string passed to inet_aton")
    vals = []
    for p in parts:
        if not p.isdigit():
            raise OSError("illegal IP address string passed to inet_aton")
        v = int(p)
        if not (0 <= v <= 255):
            raise OSError("illegal IP address string passed to inet_aton")
        vals.append(v)
    return bytes(vals)


class OpaqueIP(str):
    """dotted-quad text of four *symbolic* octets.  Formatting symbolic ints as decimal
    text makes CrossHair enumerate values, so the text is kept opaque: the object is a
    real `str` (bacpypes tests isinstance(addr, str)) that remembers its octets;
    inet_aton() gives them back, ==/hash/str() are answered from the octets, every other
    text operation ends the path as UNKNOWN rather than showing the placeholder."""

    _n = 0

    def __new__(cls, octets):
        OpaqueIP._n += 1
        self = str.__new__(cls, "~ip%d~" % OpaqueIP._n)
        self.octets = octets
        return self

    def _text(self):
        o = self.octets
        return "%d.%d.%d.%d" % (int(o[0]), int(o[1]), int(o[2]), int(o[3]))

    def __eq__(self, other):
        if isinstance(other, OpaqueIP):
            a, b = self.octets, other.octets
            return a[0] == b[0] and a[1] == b[1] and a[2] == b[2] and a[3] == b[3]
        if isinstance(other, str):
            try:
                b = py_aton(other)
            except OSError:
                return False
            a = self.octets
            return a[0] == b[0] and a[1] == b[1] and a[2] == b[2] and a[3] == b[3]
        return NotImplemented

    def __ne__(self, other):
        r = self.__eq__(other)
        return r if r is NotImplemented else not r

    def __hash__(self):
        return hash(self._text())

    def __bool__(self):
        return True

    def __str__(self):
        return self._text()

    __repr__ = __str__

    def __format__(self, spec):
        return format(self._text(), spec)

    def _unsupported(self, *a, **kw):
        raise CrosshairUnsupported("text operation on an opaque symbolic IP string")

    split = rsplit = partition = __add__ = __radd__ = __getitem__ = __len__ = __iter__ = \
        __contains__ = __mod__ = encode = startswith = endswith = find = index = strip = \
        isdigit = __lt__ = __gt__ = __le__ = __ge__ = _unsupported


def _inet_ntoa(packed):
    """4 octets -> canonical dotted quad (contract of socket.inet_ntoa)"""
    if _is_concrete(packed):
        return _real_ntoa(packed)
    if len(packed) != 4:
        raise OSError("packed IP wrong length for inet_ntoa")
    vals = [packed[0], packed[1], packed[2], packed[3]]
    allc = True
    for v in vals:
        if not _is_concrete(v):
            allc = False
    if allc:
        # concrete values inside a symbolic container: use the real C function
        return _real_ntoa(bytes(vals))
    with NoTracing():
        return OpaqueIP(vals)


def _inet_aton(s):
    """canonical dotted quad d.d.d.d, 0 <= d <= 255 -> 4 octets.  The C function also
    accepts other spellings (hex, short forms): outside the claim."""
    with NoTracing():
        opaque = isinstance(s, OpaqueIP)
    if opaque:
        return bytes(s.octets)
    if _is_concrete(s):
        return _real_aton(s)
    return py_aton(s)


def _user_hashed(x):
    """an instance of a user-defined class with its own __hash__ (e.g. bacpypes Address,
    whose __eq__ accepts more than its __hash__ distinguishes: Address(20) == 20)"""
    with NoTracing():
        if isinstance(x, CrossHairValue):
            return False
        t = type(x)
        if getattr(t, "__module__", "builtins") == "builtins":
            return False
        h = getattr(t, "__hash__", None)
        return h is not None and h is not object.__hash__


def _faithful_simpledict():
    """CrossHair turns a concrete dict indexed by a non-primitive key into a SimpleDict,
    which finds entries by `==` alone.  Real dicts also require equal hashes; for classes
    whose __eq__ is wider than their __hash__ the two differ (observed: a cache holding
    key 20 answered a lookup by Address(20)).  Restore the hash condition for such keys."""
    from crosshair.simplestructs import SimpleDict, _MISSING
    orig = SimpleDict.__getitem__

    def __getitem__(self, key, default=_MISSING):
        special = _user_hashed(key)
        if not special:
            for k, _ in self.contents_:
                if _user_hashed(k):
                    special = True
                    break
        if not special:
            return orig(self, key, default)
        hk = hash(key)
        for k, v in self.contents_:
            if k is key:
                return v
            if hash(k) == hk and k == key:
                return v
        if default is _MISSING:
            raise KeyError
        return default

    SimpleDict.__getitem__ = __getitem__


def install():
    register_patch(socket.inet_ntoa, _inet_ntoa)
    register_patch(socket.inet_aton, _inet_aton)
    _faithful_simpledict()


def conformance():
    """stub vs. real function on literals (plain execution); returns list of mismatches"""
    bad = []
    for q in ("0.0.0.0", "1.2.3.4", "192.168.0.255", "255.255.255.255", "10.0.0.1", "127.0.0.1"):
        b = _real_aton(q)
        if py_aton(q) != b or py_ntoa(b) != _real_ntoa(b):
            bad.append(q)
    for q in ("1.2.3", "1.2.3.4.5", "1.2.3.256", "a.b.c.d", ""):
        try:
            py_aton(q)
            bad.append(q)
        except OSError:
            pass
    return bad
