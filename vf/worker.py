"""One obligation in one process: reachability twin, exhaustive exploration, sample re-runs.

usage: python3-vt -m vf.worker <module> <fn> <params-json> <budget> <path_timeout> <property>
prints one JSON document on the last line of stdout.
"""
import importlib
import json
import os
import resource
import sys
import time


def main(argv):
    module, fname, params_json, budget, path_timeout, prop = argv[:6]
    params = json.loads(params_json)
    budget = float(budget)
    path_timeout = float(path_timeout)
    sys.setrecursionlimit(20000)
    try:
        resource.setrlimit(resource.RLIMIT_AS, (6 << 30, 6 << 30))
    except Exception:
        pass
    from .api import repo_setup, run_concrete, unjson, PY34
    repo_setup()
    from . import sx, findings
    mod = importlib.import_module(module)
    fn = getattr(mod, fname)
    known = findings.matcher(prop, fname)
    out = {"module": module, "fn": fname, "params": params, "meta": getattr(fn, "meta", {})}
    t0 = time.time()

    # 1. reachability twin: the end of the oracle must be reachable and replayable
    tw = sx.explore(fn, params, budget=min(budget, 60.0), path_timeout=path_timeout, twin=True,
                    known=known, max_samples=0, max_new=1)
    reach = [v for v in tw["violations"] if v["kind"] == "reach"]
    out["twin"] = {"paths": tw["paths"], "reached": bool(reach), "cpu_s": tw["cpu_s"],
                   "harness_errors": tw["harness_errors"]}
    if reach:
        r = run_concrete(fn, params, [(n, unjson(v)) for n, v in reach[0]["draws"]], twin=True)
        out["twin"]["replayed"] = r["outcome"] == "reached"
        out["twin"]["replay_outcome"] = r
    elif tw["violations"]:
        # every explored path violates before the end of the oracle is reached: let the
        # main run report it
        out["twin"]["pre_violation"] = tw["violations"][0]["kind"]

    # 2. the obligation itself
    st = sx.explore(fn, params, budget=budget, path_timeout=path_timeout, known=known,
                    max_new=int(os.environ.get("VERIF_MAXNEW", "1")))
    out["main"] = st
    # 2b. the solver could not decide some paths (code it cannot follow, e.g. text formatting of symbolic numbers) or ran out
    # of budget before the tree was exhausted, and found nothing: probe the instance with deterministic pseudo-random CONCRETE draws.  A violation found this way is replayed like
    # any other; finding none changes nothing (the instance stays inconclusive).
    if (st["unknown"] or not st.get("exhausted")) and not st["violations"] and not st["known"]:
        from .api import probe
        seed = int(os.environ.get("VERIF_SEED", "0") or 0)
        try:
            found = probe(fn, params, seed=seed)
        except Exception as e:
            found = None
            out["probe_error"] = repr(e)
        out["probed"] = True
        if found is not None:
            fid = known(found["kind"], found["sig"]) if known else None
            if fid is None:
                st["violations"].append(found)
                st["viol_paths"] += 1

    # 3. plain re-execution of sampled confirmed paths: functions driven + consistency
    try:
        funcs, results = sx.trace_functions(fn, params, [s["draws"] for s in st["samples"]],
                                            os.path.join(PY34, "bacpypes"))
    except Exception as e:
        funcs, results = [], ["harness_error: %r" % (e,)]
    out["functions"] = funcs
    out["sample_replays"] = results
    out["wall_s"] = round(time.time() - t0, 2)
    sys.stdout.write("\n@@RESULT@@" + json.dumps(out) + "\n")
    sys.stdout.flush()


if __name__ == "__main__":
    main(sys.argv[1:])
