"""C13 - B/IP broadcasts reach every node once; foreign registrations expire on time."""
from ..api import Inst, Violation, meta
from ..world import World

from bacpypes.comm import bind, Client, Server
from bacpypes.pdu import Address, LocalBroadcast, PDU, unpack_ip_addr
from bacpypes.vlan import IPNetwork, IPNode, IPRouter
from bacpypes.bvllservice import BIPSimple, BIPBBMD, BIPForeign, AnnexJCodec
from bacpypes.bvll import ReadForeignDeviceTable, ReadForeignDeviceTableAck, DeleteForeignDeviceTableEntry

STUBS = ["virtual clock (task._time)", "asyncore.loop -> clock advance", "task._Trigger -> wake flag",
         "fresh singletons per path", "socket.inet_aton/inet_ntoa (canonical dotted quads)",
         "UDPMultiplexer/UDPDirector (real sockets) -> Mux shim onto vlan.IPNode, as tests/test_bvll/helpers.FauxMultiplexer"]
GRACE = 30          # J.5.2.3: a registration is removed at the latest 30 s after its time-to-live ran out


class Mux(Client, Server):
    """stands in for UDPMultiplexer: Address <-> (ip, port) tuples on a vlan.IPNode"""

    def __init__(self, addr, network):
        Client.__init__(self)
        Server.__init__(self)
        self.address = addr
        self.unicast_tuple = addr.addrTuple
        self.broadcast_tuple = addr.addrBroadcastTuple
        self.node = IPNode(addr, network)
        bind(self, self.node)

    def indication(self, pdu):
        if pdu.pduDestination.addrType == Address.localBroadcastAddr:
            dest = self.broadcast_tuple
        elif pdu.pduDestination.addrType == Address.localStationAddr:
            dest = unpack_ip_addr(pdu.pduDestination.addrAddr)
        else:
            raise RuntimeError("invalid destination address type")
        self.request(PDU(pdu, source=self.unicast_tuple, destination=dest))

    def confirmation(self, pdu):
        src = Address(pdu.pduSource)
        if pdu.pduDestination == self.broadcast_tuple:
            dest = LocalBroadcast()
        else:
            dest = Address(pdu.pduDestination)
        self.response(PDU(pdu, source=src, destination=dest))


class Top(Client):
    """the network layer of a node: records what the B/IP layer hands up"""

    def __init__(self):
        Client.__init__(self)
        self.got = []

    def confirmation(self, pdu):
        self.got.append(pdu)


class NodeX:
    def __init__(self, kind, addr, net, name):
        self.kind, self.name = kind, name
        self.address = Address(addr)
        if kind == "simple":
            self.bip = BIPSimple()
        elif kind == "foreign":
            self.bip = BIPForeign()
        else:
            self.bip = BIPBBMD(self.address)
        self.top = Top()
        self.codec = AnnexJCodec()
        self.mux = Mux(self.address, net)
        bind(self.top, self.bip, self.codec, self.mux)
        self.station = Address(self.address.addrTuple)      # how others see it (no mask)

    def broadcast(self, payload):
        self.top.request(PDU(payload, destination=LocalBroadcast()))


def layout(nsub, simple_per_subnet, nforeign, two_hop, foreign_home=None):
    """nsub subnets 192.168.k.0/24 joined by one IP router, one BBMD (.2) per subnet listing every BBMD
    (itself included), simple nodes (.3, .4), foreign devices on an extra subnet 192.168.9.0/24"""
    nets = {}
    router = IPRouter()
    for k in range(1, nsub + 1):
        nets[k] = IPNetwork("net%d" % k)
        router.add_network(Address("192.168.%d.1/24" % k), nets[k])
    nodes = []
    bbmds = []
    for k in range(1, nsub + 1):
        b = NodeX("bbmd", "192.168.%d.2/24" % k, nets[k], "bbmd%d" % k)
        bbmds.append(b)
        nodes.append(b)
        for j in range(simple_per_subnet):
            nodes.append(NodeX("simple", "192.168.%d.%d/24" % (k, 3 + j), nets[k], "simple%d.%d" % (k, j)))
    for b in bbmds:
        for other in bbmds:
            # two-hop distribution: unicast to the peer BBMD (mask /32), which re-broadcasts locally;
            # one-hop: directed broadcast to the peer's subnet (mask /24)
            b.bip.add_peer(Address("192.168.%s.2/%d" % (other.address.addrTuple[0].split('.')[2], 32 if two_hop else 24)))
    foreign = []
    if nforeign:
        nets[9] = IPNetwork("net9")
        router.add_network(Address("192.168.9.1/24"), nets[9])
        for j in range(nforeign):
            if foreign_home is not None and j == 0:
                # the first foreign device lives on the subnet of BBMD `foreign_home` (and registers elsewhere)
                f = NodeX("foreign", "192.168.%d.%d/24" % (foreign_home, 9), nets[foreign_home], "foreign0@net%d" % foreign_home)
            else:
                f = NodeX("foreign", "192.168.9.%d/24" % (3 + j), nets[9], "foreign%d" % j)
            foreign.append(f)
            nodes.append(f)
    return nets, nodes, bbmds, foreign


@meta(bounds="nsub IP subnets joined by vlan.IPRouter, one BBMD per subnet with a full distribution table (two-hop /32 entries or "
             "one-hop /24 directed broadcasts per instance, each BBMD lists itself), simple nodes per subnet and foreign devices "
             "registered round-robin from BBMD `register_at` on (TTL 30, just acknowledged) as given by the instance - with `foreign_home` the first "
             "of them lives on the subnet of that BBMD while registered with another; originator symbolic over every "
             "node; payload 2 symbolic octets",
      outside="partial distribution tables (Annex J promises full coverage only when every BBMD lists every other), more "
              "subnets / nodes than instantiated",
      stubs=STUBS)
def bip_scn(d, nsub, simple, nforeign, two_hop, register_at=0, foreign_home=None):
    w = World()
    nets, nodes, bbmds, foreign = layout(nsub, simple, nforeign, two_hop, foreign_home)
    for i, f in enumerate(foreign):
        # foreign device i registers with BBMD (register_at + i) mod #BBMDs
        f.bip.register(bbmds[(register_at + i) % len(bbmds)].station, 30)
    w.run(duration=1)
    for f in foreign:
        if f.bip.registrationStatus != 0:
            raise Violation("registration-not-acknowledged", node=f.name, status=f.bip.registrationStatus)
    for n in nodes:
        n.top.got = []
    src = d.pick(nodes, 'originator')
    payload = d.bytes(2, 2, 'payload')
    src.broadcast(payload)
    w.run(duration=1)
    for n in nodes:
        want = 0 if n is src else 1
        if len(n.top.got) != want:
            raise Violation("broadcast-delivery-count", node=n.name, got=len(n.top.got), want=want, originator=src.name,
                            two_hop=two_hop)
        for g in n.top.got:
            if bytes(g.pduData) != bytes(payload):
                raise Violation("payload-altered", node=n.name)
            if g.pduSource != src.station:
                raise Violation("source-not-originator", node=n.name, shown=str(g.pduSource), originator=str(src.station))
            if g.pduDestination.addrType != Address.localBroadcastAddr:
                raise Violation("not-shown-as-broadcast", node=n.name)
    d.reach()


def fdt_listing(w, reader, bbmd):
    """Read-Foreign-Device-Table through the wire -> [(address octets, ttl, remaining)]"""
    acks = []
    reader.bip.sap_response = lambda pdu: acks.append(pdu)      # ASE side of the reader's BIPSAP
    req = ReadForeignDeviceTable(destination=bbmd.station)
    reader.bip.sap_indication(req)
    w.settle()
    out = None
    for a in acks:
        if isinstance(a, ReadForeignDeviceTableAck):
            out = [(bytes(e.fdAddress.addrAddr), e.fdTTL, e.fdRemain) for e in a.bvlciFDT]
    return out


@meta(bounds="one BBMD with one simple node on its subnet and one foreign device on another subnet; the foreign device registers "
             "with a symbolic TTL 1..ttl_max; renewals are suppressed or not (per instance); at a symbolic whole second "
             "0..TTL+GRACE+6 after the acknowledgement the simple node broadcasts and the table is read back",
      outside="TTL above ttl_max (the BBMD ages its table in one-second ticks, every (TTL, instant) pair is a path of its "
              "own); sub-second instants",
      stubs=STUBS,
      assumes=["grace = 30 s (J.5.2.3) is the upper bound the statement allows; 'at least the time-to-live' is absolute"])
def foreign_scn(d, ttl_max, renew, action, ttl_min=1, wait_from=0, wait_to=None, at_max=None):
    w = World()
    nets, nodes, bbmds, foreign = layout(1, 1, 1, True)
    bb, simple, f = bbmds[0], nodes[1], foreign[0]
    ttl = d.int(ttl_min, ttl_max, 'ttl')
    f.bip.register(bb.station, ttl)
    w.settle()
    if f.bip.registrationStatus != 0:
        raise Violation("registration-not-acknowledged", status=f.bip.registrationStatus)
    t_ack = w.clock
    if not renew:
        f.bip.suspend_task()            # no renewal: the registration must run out
    wait = d.int(wait_from, ttl + GRACE + 6 if wait_to is None else wait_to, 'wait')
    if action == "unregister":
        at = d.int(0, ttl if at_max is None else at_max, 'unregister_at')
        d.assume(at <= wait)
        w.run(until=t_ack + at)
        f.bip.unregister()
        w.run(until=t_ack + wait)
    elif action == "delete":
        at = d.int(0, ttl, 'delete_at')
        d.assume(at <= wait)
        w.run(until=t_ack + at)
        simple.bip.sap_response = lambda pdu: None
        simple.bip.sap_indication(DeleteForeignDeviceTableEntry(f.station, destination=bb.station))
        w.run(until=t_ack + wait)
    else:
        at = None
        w.run(until=t_ack + wait)
    f.top.got = []
    simple.broadcast(b"\x10\x08")
    w.settle()
    served = len(f.top.got)
    listed = fdt_listing(w, simple, bb)
    if listed is None:
        raise Violation("read-fdt-not-answered")
    is_listed = any(a == bytes(f.station.addrAddr) for (a, t, r) in listed)
    if served > 1:
        raise Violation("foreign-device-served-twice", n=served)
    if action == "none":
        if renew:
            must, must_not = True, False
        else:
            must = wait <= ttl
            must_not = wait > ttl + GRACE
    elif action == "unregister":
        must = wait < at
        must_not = wait > at + GRACE
    else:
        must = wait < at
        must_not = wait > at            # deletion takes effect at once
    if must and served != 1:
        raise Violation("registered-foreign-device-not-served", ttl=ttl, wait=wait, action=action, at=at, renew=renew)
    if must and not is_listed:
        raise Violation("registered-foreign-device-not-listed", ttl=ttl, wait=wait, action=action, at=at)
    if must_not and served:
        raise Violation("expired-foreign-device-still-served", ttl=ttl, wait=wait, action=action, at=at)
    if must_not and is_listed:
        raise Violation("expired-foreign-device-still-listed", ttl=ttl, wait=wait, action=action, at=at)
    if served and not is_listed:
        raise Violation("served-but-not-listed", ttl=ttl, wait=wait)
    for (a, t, r) in listed:
        if a == bytes(f.station.addrAddr):
            if action == "none" and t != ttl:
                raise Violation("listed-ttl", got=t, want=ttl)
            if r <= 0 or (action == "none" and not renew and r > ttl + GRACE - wait + 1):
                raise Violation("listed-remaining-time", remaining=r, ttl=ttl, wait=wait)
    # the foreign device's own view follows
    if action == "none" and not renew and wait > ttl + GRACE + 1 and f.bip.registrationStatus == 0:
        raise Violation("foreign-device-believes-registered-after-expiry", ttl=ttl, wait=wait)
    if action == "none" and renew and f.bip.registrationStatus != 0:
        raise Violation("renewing-foreign-device-lost-registration", ttl=ttl, wait=wait)
    d.note(ttl=ttl, wait=wait, served=served, listed=is_listed)
    d.reach()


@meta(bounds="one BBMD with one simple node on its subnet and THREE foreign devices registered one after the other (TTL 60); one of "
             "them (symbolic) is taken out - its table entry is deleted by Delete-Foreign-Device-Table-Entry, or it unregisters - "
             "and after a symbolic wait (0..2 s for the deletion, grace + 1..2 s for the unregistration) the simple node "
             "broadcasts and the table is read back: exactly the other two are served, each once, and listed",
      outside="more than three foreign devices; several removals",
      stubs=STUBS,
      assumes=["grace = 30 s (J.5.2.3) is the upper bound the statement allows"])
def foreign_trio(d, action):
    w = World()
    nets, nodes, bbmds, foreign = layout(1, 1, 3, True)
    bb, simple = bbmds[0], nodes[1]
    for f in foreign:
        f.bip.register(bb.station, 60)
        w.settle()
        if f.bip.registrationStatus != 0:
            raise Violation("registration-not-acknowledged", node=f.name, status=f.bip.registrationStatus)
    j = d.index(3, 'removed')
    gone = foreign[j]
    if action == "delete":
        simple.bip.sap_response = lambda pdu: None
        simple.bip.sap_indication(DeleteForeignDeviceTableEntry(gone.station, destination=bb.station))
        wait = d.int(0, 2, 'wait')
    else:
        gone.bip.unregister()
        wait = GRACE + d.int(1, 2, 'wait')
    w.run(duration=wait)
    for f in foreign:
        f.top.got = []
    simple.broadcast(b"\x10\x08")
    w.settle()
    listed = fdt_listing(w, simple, bb)
    if listed is None:
        raise Violation("read-fdt-not-answered")
    for k, f in enumerate(foreign):
        served = len(f.top.got)
        is_listed = any(a == bytes(f.station.addrAddr) for (a, t, r) in listed)
        want = 0 if k == j else 1
        if served != want:
            raise Violation("trio-served", node=f.name, got=served, want=want, removed=j, action=action, wait=wait)
        if is_listed != bool(want):
            raise Violation("trio-listed", node=f.name, listed=is_listed, removed=j, action=action, wait=wait)
    if len(listed) != 2:
        raise Violation("trio-table-size", n=len(listed), removed=j, action=action)
    d.reach()


@meta(bounds="one BBMD, one simple node, three foreign devices registered in the same instant: the first with TTL 1 and no renewal "
             "(it runs out), the second unregisters at a symbolic second 0..3, the third stays (TTL 60).  The grace the BBMD "
             "grants is MEASURED: the remaining time it lists right after the registration minus the TTL (at most the 30 s of "
             "J.5.2.3).  At a symbolic second up to two seconds past the later of the two ends the simple node broadcasts and "
             "the table is read: the first device is gone once TTL + grace have passed, the second once the grace has passed "
             "since it unregistered (looked at half a second after the whole second, between two sweeps) - each entry ages on its "
             "own, whatever happens to its neighbours in the table - the "
             "third is served and listed throughout",
      outside="more than three entries; sub-second instants",
      stubs=STUBS, assumes=["the grace period is the one the BBMD itself lists at registration"])
def foreign_age(d):
    w = World()
    nets, nodes, bbmds, foreign = layout(1, 1, 3, True)
    bb, simple = bbmds[0], nodes[1]
    ttls = [1, 60, 60]
    for f, ttl in zip(foreign, ttls):
        f.bip.register(bb.station, ttl)
    w.settle()
    for f in foreign:
        if f.bip.registrationStatus != 0:
            raise Violation("registration-not-acknowledged", node=f.name, status=f.bip.registrationStatus)
    t0 = w.clock
    foreign[0].bip.suspend_task()
    listed = fdt_listing(w, simple, bb)
    rem = {a: r for (a, t, r) in (listed or [])}
    grace = rem.get(bytes(foreign[0].station.addrAddr), 1) - 1
    if listed is None or len(listed) != 3 or not (0 <= grace <= GRACE):
        raise Violation("age-initial-listing", listed=len(listed or []), grace=grace)
    u = d.int(0, 3, 'unregister_at')
    w.run(until=t0 + u)
    foreign[1].bip.unregister()
    end0, end1 = 1 + grace, u + grace
    wait = d.int(0, max(end0, end1) + 2, 'wait')
    d.assume(wait >= u)
    # half a second after the whole second: between two sweeps of the table
    w.run(until=t0 + wait + 0.5)
    for f in foreign:
        f.top.got = []
    simple.broadcast(b"\x10\x08")
    w.settle()
    listed = fdt_listing(w, simple, bb)
    if listed is None:
        raise Violation("read-fdt-not-answered")
    for k, (f, must, must_not) in enumerate(((foreign[0], wait < 1, wait >= end0), (foreign[1], wait < u, wait >= end1),
                                            (foreign[2], True, False))):
        served = len(f.top.got)
        is_listed = any(a == bytes(f.station.addrAddr) for (a, t, r) in listed)
        if served > 1:
            raise Violation("foreign-device-served-twice", node=f.name, n=served)
        if must and (served != 1 or not is_listed):
            raise Violation("age-not-served", node=f.name, wait=wait, unregister_at=u, grace=grace, served=served, listed=is_listed)
        if must_not and (served or is_listed):
            raise Violation("age-still-served", node=f.name, wait=wait, unregister_at=u, grace=grace, served=served, listed=is_listed)
    d.reach()


def instances(tier):
    q = tier == "quick"
    out = []
    if q:
        out.append(Inst(bip_scn, dict(nsub=2, simple=1, nforeign=1, two_hop=True), budget=80))
        out.append(Inst(bip_scn, dict(nsub=2, simple=1, nforeign=0, two_hop=False), budget=80))
        # a foreign device at the BBMD on the FAR side of a one-hop (directed broadcast) distribution
        out.append(Inst(bip_scn, dict(nsub=2, simple=0, nforeign=2, two_hop=False, register_at=1), budget=80))
        # three subnets (two peers per BBMD), and a lone BBMD with nodes and foreign devices
        out.append(Inst(bip_scn, dict(nsub=3, simple=1, nforeign=1, two_hop=True), budget=120))
        out.append(Inst(bip_scn, dict(nsub=3, simple=1, nforeign=2, two_hop=False, register_at=2), budget=120))
        out.append(Inst(bip_scn, dict(nsub=1, simple=2, nforeign=2, two_hop=True), budget=80))
        for nsub in (1, 2, 3):
            for two_hop in (True, False):
                for reg in range(nsub):
                    out.append(Inst(bip_scn, dict(nsub=nsub, simple=2, nforeign=2, two_hop=two_hop, register_at=reg),
                                    budget=120, path_timeout=120))
        for action in ("delete", "unregister"):
            out.append(Inst(foreign_trio, dict(action=action), budget=150, path_timeout=120))
        out.append(Inst(foreign_age, {}, budget=200, path_timeout=120))
        # a foreign device that lives on the subnet of one BBMD and is registered with another
        # (two-hop distribution only: with directed broadcasts into its subnet such a device hears every broadcast twice by
        # configuration - Annex J has foreign devices on subnets that no BBMD serves)
        out.append(Inst(bip_scn, dict(nsub=2, simple=1, nforeign=2, two_hop=True, register_at=1, foreign_home=1), budget=120))
        out.append(Inst(bip_scn, dict(nsub=3, simple=1, nforeign=2, two_hop=True, register_at=2, foreign_home=1), budget=120))
        out.append(Inst(foreign_scn, dict(ttl_max=2, renew=False, action="none"), budget=80, path_timeout=90))
        out.append(Inst(foreign_scn, dict(ttl_max=1, renew=True, action="none"), budget=80, path_timeout=90))
        # a time-to-live that does not divide the grace period: the device's own expiry tracking (TTL + 30) falls
        # between two renewals
        out.append(Inst(foreign_scn, dict(ttl_min=4, ttl_max=4, renew=True, action="none", wait_from=28), budget=80,
                        path_timeout=90, label="renew,ttl=4,late"))
        out.append(Inst(foreign_scn, dict(ttl_max=1, renew=False, action="unregister"), budget=80, path_timeout=90))
        out.append(Inst(foreign_scn, dict(ttl_max=1, renew=False, action="delete"), budget=80, path_timeout=90))
        # a time-to-live well above the grace period: unregistering must cut the registration short
        out.append(Inst(foreign_scn, dict(ttl_min=60, ttl_max=60, renew=False, action="unregister", at_max=1, wait_from=30,
                                          wait_to=40), budget=120, path_timeout=90, label="unregister,ttl=60"))
        # the largest time-to-live of the statement (300 s), looked at around 255/256 s (one-octet boundary of the
        # remaining-time bookkeeping) and at its end
        out.append(Inst(foreign_scn, dict(ttl_min=300, ttl_max=300, renew=False, action="none", wait_from=253, wait_to=258),
                        budget=150, path_timeout=120, label="ttl=300,around-255"))
        out.append(Inst(foreign_scn, dict(ttl_min=300, ttl_max=300, renew=False, action="none", wait_from=298, wait_to=300),
                        budget=150, path_timeout=120, label="ttl=300,at-end"))
    else:
        for nsub in (1, 2, 3):
            for two_hop in (True, False):
                for reg in range(nsub):
                    out.append(Inst(bip_scn, dict(nsub=nsub, simple=2, nforeign=2, two_hop=two_hop, register_at=reg),
                                    budget=600, path_timeout=120))
        out.append(Inst(bip_scn, dict(nsub=3, simple=1, nforeign=3, two_hop=True), budget=600, path_timeout=120))
        for action in ("delete", "unregister"):
            out.append(Inst(foreign_trio, dict(action=action), budget=600, path_timeout=120))
        out.append(Inst(foreign_age, {}, budget=900, path_timeout=120))
        for nsub in (2, 3):
            for home in range(1, nsub + 1):
                out.append(Inst(bip_scn, dict(nsub=nsub, simple=1, nforeign=2, two_hop=True, register_at=home % nsub,
                                              foreign_home=home), budget=600, path_timeout=120))
        for renew in (False, True):
            out.append(Inst(foreign_scn, dict(ttl_max=8, renew=renew, action="none"), budget=900, path_timeout=120))
        out.append(Inst(foreign_scn, dict(ttl_min=7, ttl_max=7, renew=True, action="none", wait_from=30), budget=600,
                        path_timeout=120, label="renew,ttl=7,late"))
        out.append(Inst(foreign_scn, dict(ttl_max=4, renew=False, action="unregister"), budget=900, path_timeout=120))
        out.append(Inst(foreign_scn, dict(ttl_max=4, renew=True, action="unregister"), budget=900, path_timeout=120))
        out.append(Inst(foreign_scn, dict(ttl_max=4, renew=False, action="delete"), budget=900, path_timeout=120))
        out.append(Inst(foreign_scn, dict(ttl_min=60, ttl_max=60, renew=False, action="unregister", at_max=3, wait_from=0,
                                          wait_to=70), budget=900, path_timeout=120, label="unregister,ttl=60"))
        out.append(Inst(foreign_scn, dict(ttl_min=60, ttl_max=60, renew=True, action="unregister", at_max=3, wait_from=0,
                                          wait_to=70), budget=900, path_timeout=120, label="unregister,renewing,ttl=60"))
        for ttl in (255, 256, 300):
            out.append(Inst(foreign_scn, dict(ttl_min=ttl, ttl_max=ttl, renew=False, action="none", wait_from=240),
                            budget=1500, path_timeout=180, label="ttl=%d,late" % ttl))
        out.append(Inst(foreign_scn, dict(ttl_min=300, ttl_max=300, renew=True, action="none", wait_from=250, wait_to=340),
                        budget=1500, path_timeout=180, label="renew,ttl=300"))
    return out
