"""C11 - concurrent transactions never cross: replies reach only the request they answer."""
from ..api import Inst, Violation, meta
from ..world import World
from .. import netlab as nl
from ..ref import wire

from bacpypes.pdu import Address
from bacpypes.apdu import (SimpleAckPDU, ComplexAckPDU, ErrorPDU, RejectPDU, AbortPDU,
                           ConfirmedPrivateTransferACK)

PEERS = [21, 22, 23]          # station numbers of the peers
STRANGER = 29

STUBS = ["virtual clock (task._time)", "asyncore.loop -> clock advance", "task._Trigger -> wake flag",
         "fresh singletons per path"]


def live_ids(client):
    """(peer, invoke id) of the client's live transactions, read from its outstanding requests on the wire
    is not possible once answered, so the harness tracks them from the request objects it submitted"""


def submit(client, peer, invoke=None, payload=b"\x01"):
    apdu = nl.private_transfer(Address(peer), payload)
    if invoke is not None:
        apdu.apduInvokeID = invoke
    client.request(apdu)
    return apdu


@meta(bounds="one client stack, npeers silent peer stations; k requests, each to a symbolically chosen peer; the allocation "
             "cursor starts at a symbolic value 0..255 (wrap-around is reached without 256 requests); each request "
             "optionally carries an application-chosen invoke ID (symbolic 0..255); mid_answer: the first request's peer has sent "
             "the first segment of a segmented answer and stopped (the transaction is live in another state)",
      outside="more than k outstanding requests, more than npeers peers, exhaustion of all 256 IDs toward one peer",
      stubs=STUBS + ["StateMachineAccessPoint.nextInvokeID set to the symbolic start value (the anchor state the property names)"])
def ids(d, k, npeers, chosen, mid_answer=False):
    w = World()
    lan = nl.FaultLAN([], world=w)
    client = nl.AppStack(nl.make_device("c", 10, numberOfApduRetries=0), lan)
    raw = {}
    for p in PEERS[:npeers]:
        raw[p] = nl.RawPeer(p, lan)
    start = d.int(0, 255, 'cursor')
    if not hasattr(client.smap, 'nextInvokeID'):
        d.reach()
        return      # refactored away: nothing to set, the scenario below still runs from the default
    client.smap.nextInvokeID = start
    live = []       # (peer, id)
    for i in range(k):
        peer = d.pick(PEERS[:npeers], 'peer%d' % i)
        want = None
        if chosen and d.bool('app_chooses%d' % i):
            want = d.int(0, 255, 'chosen%d' % i)
        n0 = len(lan.frames)
        try:
            apdu = submit(client, peer, want)
            refused = False
        except Exception:
            refused = True
        w.settle()
        dup = want is not None and any(p == peer and i_ == want for (p, i_) in live)
        if refused:
            if not dup:
                raise Violation("request-refused", peer=peer, chosen=want, live=live)
            if len(lan.frames) != n0:
                raise Violation("refused-request-emitted-frame")
            continue
        if dup:
            raise Violation("duplicate-invoke-id-accepted", peer=peer, chosen=want, live=live)
        got = apdu.apduInvokeID
        if want is not None and got != want:
            raise Violation("chosen-id-not-used", want=want, got=got)
        if not (0 <= got <= 255):
            raise Violation("id-out-of-range", got=got)
        for (p, i_) in live:
            if p == peer and i_ == got:
                raise Violation("invoke-id-reused-while-live", peer=peer, id=got, live=live)
        # the ID on the wire is the ID reported to the application
        if len(lan.frames) != n0 + 1:
            raise Violation("frames-per-request", n=len(lan.frames) - n0)
        n, a = wire.parse_frame(lan.frames[-1][3])
        if a["type"] != 0 or a["invoke"] != got or str(lan.frames[-1][2]) != str(Address(peer)):
            raise Violation("wire-id-mismatch", wire=a["invoke"], reported=got)
        live.append((peer, got))
        if mid_answer and i == 0:
            # the peer starts answering the first request with a segmented ComplexAck and stops after the first segment: the
            # transaction is live (it waits for the rest) and keeps its invoke ID
            raw[peer].send(client.address, nl.frame(bytes([0x3C, got, 0x00, 0x02, 18, 0x09, 0x07, 0x19, 0x01]), False))
            w.settle()
            if client.confirmations:
                raise Violation("outcome-after-first-segment", n=len(client.confirmations))
    d.note(live=live, cursor=start)
    d.reach()


REPLY_KINDS = ["simple-ack", "complex-ack", "error", "reject", "abort-srv", "abort-cli", "segment-ack-srv", "segment-ack-cli"]


def reply_octets(kind, invoke, service=18):
    if kind == "simple-ack":
        return bytes([0x20, invoke, service])
    if kind == "complex-ack":
        return bytes([0x30, invoke, service, 0x09, 0x07, 0x19, 0x01])      # vendor 7, service 1
    if kind == "error":
        # ConfirmedPrivateTransfer-Error: [0]{ class, code } [1] vendor [2] service
        return bytes([0x50, invoke, service, 0x0E, 0x91, 0x05, 0x91, 0x00, 0x0F, 0x19, 0x07, 0x29, 0x01])
    if kind == "reject":
        return bytes([0x60, invoke, 0x09])
    if kind == "abort-srv":
        return bytes([0x71, invoke, 0x00])
    if kind == "abort-cli":
        return bytes([0x70, invoke, 0x00])
    if kind == "segment-ack-srv":
        return bytes([0x41, invoke, 0x00, 0x01])
    if kind == "segment-ack-cli":
        return bytes([0x40, invoke, 0x00, 0x01])
    raise AssertionError(kind)


COMPLETES = {"simple-ack": "ack", "complex-ack": "ack", "error": "error", "reject": "reject", "abort-srv": "abort"}


@meta(bounds="one client stack with three live requests (two to peer A with different IDs, one to peer B whose ID equals "
             "one of A's: a forced cross-peer collision); one inbound APDU of every reply kind (the instance's) from a "
             "symbolic source in {A, B, stranger} with a symbolic invoke ID 0..255, then a second copy of it",
      outside="more than three live transactions, segmented transactions in flight (C05), more than one injected reply",
      stubs=STUBS)
def demux(d, kind):
    w = World()
    lan = nl.FaultLAN([], world=w)
    client = nl.AppStack(nl.make_device("c", 10, numberOfApduRetries=0, apduTimeout=3000), lan)
    peers = {p: nl.RawPeer(p, lan) for p in (PEERS[0], PEERS[1], STRANGER)}
    a1 = submit(client, PEERS[0])
    a2 = submit(client, PEERS[0])
    b1 = submit(client, PEERS[1], invoke=a1.apduInvokeID)     # same ID, other peer
    w.settle()
    live = [(PEERS[0], a1.apduInvokeID), (PEERS[0], a2.apduInvokeID), (PEERS[1], b1.apduInvokeID)]
    if a1.apduInvokeID == a2.apduInvokeID:
        raise Violation("invoke-id-reused-while-live")
    src = d.pick([PEERS[0], PEERS[1], STRANGER], 'source')
    inv = d.int(0, 255, 'invoke')
    octets = nl.frame(reply_octets(kind, inv))
    peers[src].send(client.address, octets)
    w.settle()
    match = [(p, i) for (p, i) in live if p == src and i == inv]
    completes = kind in COMPLETES and bool(match)
    confs = list(client.confirmations)
    if completes:
        if len(confs) != 1:
            raise Violation("matching-reply-not-delivered", n=len(confs), kind=kind, source=src, invoke=inv)
        c = confs[0]
        if c.apduInvokeID != inv or str(c.pduSource) != str(Address(src)):
            raise Violation("reply-delivered-for-wrong-transaction", got_id=c.apduInvokeID, got_src=str(c.pduSource))
        if nl.outcome_kind(c) != COMPLETES[kind]:
            raise Violation("reply-kind-changed", got=nl.outcome_kind(c), want=COMPLETES[kind])
    elif confs:
        raise Violation("foreign-reply-applied", n=len(confs), kind=kind, source=src, invoke=inv,
                        got=[(str(c.pduSource), c.apduInvokeID) for c in confs])
    # a second copy of the same reply is ignored
    peers[src].send(client.address, octets)
    w.settle()
    if len(client.confirmations) != len(confs):
        raise Violation("duplicate-reply-applied", kind=kind)
    # every other transaction is untouched: left alone each ends in its own local abort (no retries),
    # exactly one outcome per request, carrying its own peer and ID
    w.run()
    want = set((str(Address(p)), i) for (p, i) in live)
    got = [(str(c.pduSource), c.apduInvokeID) for c in client.confirmations]
    if sorted(got) != sorted(want):
        raise Violation("outcomes-do-not-match-requests", got=sorted(got), want=sorted(want))
    for c in client.confirmations[len(confs):]:
        if not isinstance(c, AbortPDU):
            raise Violation("untouched-transaction-did-not-time-out", got=nl.outcome_kind(c))
    if nl.residue(client):
        raise Violation("residue", r=nl.residue(client))
    d.reach()


@meta(bounds="one client stack with two live requests carrying the SAME invoke ID: one to the local station with MAC m, one to "
             "the station with the same MAC m on remote network 2 (reached through a router the client knows); one inbound "
             "APDU of the instance's reply kind with a symbolic invoke ID from a symbolic source: the local station, the "
             "remote station 2:m (relayed by the router), a station m on ANOTHER remote network 3, or the router itself",
      outside="more than two live transactions; segmented transactions in flight (C05)",
      stubs=STUBS)
def demux_routed(d, kind):
    from bacpypes.pdu import RemoteStation
    w = World()
    lan = nl.FaultLAN([], world=w)
    client = nl.AppStack(nl.make_device("c", 10, numberOfApduRetries=0, apduTimeout=3000), lan)
    m = PEERS[0]
    local = nl.RawPeer(m, lan)
    router = nl.RawPeer(50, lan)
    client.nsap.update_router_references(None, Address(50), [2, 3])
    a = nl.private_transfer(Address(m), b"\x01")
    client.request(a)
    r = nl.private_transfer(RemoteStation(2, m), b"\x02")
    r.apduInvokeID = a.apduInvokeID
    client.request(r)
    w.settle()
    if len(router.received) != 1 or len(local.received) != 1:
        raise Violation("requests-on-the-wire", to_router=len(router.received), to_local=len(local.received))
    live = {"local": str(Address(m)), "remote-2": str(RemoteStation(2, m))}
    src = d.pick(["local", "remote-2", "remote-3", "router"], 'source')
    inv = d.int(0, 255, 'invoke')
    apdu = reply_octets(kind, inv)
    if src == "local":
        local.send(client.address, nl.frame(apdu))
    elif src == "router":
        router.send(client.address, nl.frame(apdu))
    else:
        net = 2 if src == "remote-2" else 3
        router.send(client.address, bytes([0x01, 0x08, 0x00, net, 0x01, m]) + apdu)
    w.settle()
    completes = kind in COMPLETES and src in live and inv == a.apduInvokeID
    confs = list(client.confirmations)
    if completes:
        if len(confs) != 1:
            raise Violation("matching-reply-not-delivered", n=len(confs), kind=kind, source=src, invoke=inv)
        c = confs[0]
        if c.apduInvokeID != inv or str(c.pduSource) != live[src]:
            raise Violation("reply-delivered-for-wrong-transaction", got_id=c.apduInvokeID, got_src=str(c.pduSource),
                            want_src=live[src])
    elif confs:
        raise Violation("foreign-reply-applied", n=len(confs), kind=kind, source=src, invoke=inv,
                        got=[(str(c.pduSource), c.apduInvokeID) for c in confs])
    # the other transaction (both, if nothing matched) ends by its own timeout, each outcome names its own peer
    w.run()
    got = sorted((str(c.pduSource), c.apduInvokeID) for c in client.confirmations)
    want = sorted((x, a.apduInvokeID) for x in live.values())
    if got != want:
        raise Violation("outcomes-do-not-match-requests", got=got, want=want, source=src)
    for c in client.confirmations[len(confs):]:
        if not isinstance(c, AbortPDU):
            raise Violation("untouched-transaction-did-not-time-out", got=nl.outcome_kind(c))
    if nl.residue(client):
        raise Violation("residue", r=nl.residue(client))
    d.reach()


@meta(bounds="two complete stacks X and Y that are client and server of one another at the same time: Y asks X something whose "
             "answer takes three segments, X asks Y something that Y's application answers only at the end; the two "
             "requests carry the same invoke ID or different ones (symbolic), either is submitted first (symbolic): the "
             "segmented answer is complete before Y's application has answered, then X gets its answer",
      outside="lossy medium (C05); more than one transaction per direction",
      stubs=STUBS)
def cross_roles(d):
    w = World()
    lan = nl.FaultLAN([], world=w)
    X = nl.AppStack(nl.make_device("x", 20, maxApduLengthAccepted=50, segmentationSupported="segmentedBoth"), lan)
    Y = nl.AppStack(nl.make_device("y", 21, maxApduLengthAccepted=50, segmentationSupported="segmentedBoth"), lan)
    X.pt_result = bytes(range(100))
    Y.pt_mode = "later"
    same = d.bool('same_invoke_id')
    y_first = d.bool('y_first')
    ry = nl.private_transfer(X.address, b"\x01")
    ry.apduInvokeID = 9
    rx = nl.private_transfer(Y.address, b"\x02")
    rx.apduInvokeID = 9 if same else 10
    for who, req in ((Y, ry), (X, rx)) if y_first else ((X, rx), (Y, ry)):
        who.request(req)
    # within the transaction timeouts, with nothing lost, the segmented answer has arrived
    w.run(duration=1.0)
    if len(Y.confirmations) != 1 or nl.outcome_kind(Y.confirmations[0]) != "ack" \
            or nl.payload_of(Y.confirmations[0], 'resultBlock') != bytes(range(100)):
        raise Violation("segmented-answer-stalled-or-wrong", n=len(Y.confirmations), same_id=bool(same), y_first=bool(y_first),
                        got=[nl.outcome_kind(c) for c in Y.confirmations])
    if X.confirmations:
        raise Violation("answer-before-the-application-answered", got=[nl.outcome_kind(c) for c in X.confirmations])
    if len(Y.pt_pending) != 1:
        raise Violation("request-not-indicated-once", n=len(Y.pt_pending))
    Y.pt_answer(Y.pt_pending[0], result=b"\x77")
    w.run()
    if len(X.confirmations) != 1 or nl.outcome_kind(X.confirmations[0]) != "ack" \
            or nl.payload_of(X.confirmations[0], 'resultBlock') != b"\x77":
        raise Violation("second-direction-outcome", got=[nl.outcome_kind(c) for c in X.confirmations], same_id=bool(same))
    if len(Y.confirmations) != 1:
        raise Violation("outcome-count", n=len(Y.confirmations))
    if nl.residue(X) or nl.residue(Y) or not w.idle():
        raise Violation("residue", x=nl.residue(X), y=nl.residue(Y))
    d.reach()


@meta(bounds="two complete stacks X and Y with a request pending in each direction (the applications answer later), the two "
             "requests carrying the same invoke ID or different ones (symbolic); a stray segment of a ComplexAck with a non-zero "
             "sequence number and X's invoke ID reaches X from Y's address (spoofed by a third node), so that X's CLIENT "
             "transaction aborts toward Y: the abort on the wire carries the server bit 0; it ends Y's server transaction for "
             "X's request and nothing else - Y's own request to X is still answered when X's application answers",
      outside="other ways of making a client abort toward its peer",
      stubs=STUBS)
def abort_direction(d):
    from bacpypes.vlan import Node as _Node
    from bacpypes.comm import Client as _Client, bind as _bind
    from bacpypes.pdu import PDU as _PDU
    w = World()
    lan = nl.FaultLAN([], world=w)
    X = nl.AppStack(nl.make_device("x", 20), lan)
    Y = nl.AppStack(nl.make_device("y", 21), lan)
    X.pt_mode = Y.pt_mode = "later"
    same = d.bool('same_invoke_id')
    ry = nl.private_transfer(X.address, b"\x01")
    ry.apduInvokeID = 9
    rx = nl.private_transfer(Y.address, b"\x02")
    rx.apduInvokeID = 9 if same else 10
    Y.request(ry)
    X.request(rx)
    w.settle()
    if len(X.pt_pending) != 1 or len(Y.pt_pending) != 1:
        raise Violation("requests-not-indicated", x=len(X.pt_pending), y=len(Y.pt_pending))
    n0 = len(lan.frames)
    spoof = _Client()
    _bind(spoof, _Node(Address(99), lan, spoofing=True))
    spoof.confirmation = lambda pdu: None
    stray = nl.frame(bytes([0x3C, rx.apduInvokeID, 0x03, 0x02, 18, 0x09, 0x07]), False)
    spoof.request(_PDU(stray, source=Y.address, destination=X.address))
    w.settle()
    aborts = []
    for (i, src, dst, data) in lan.frames[n0:]:
        a = wire.parse_frame(data)[1]
        if a is not None and a["type"] == 7 and str(src) == str(X.address):
            aborts.append(a)
    if len(aborts) != 1 or aborts[0]["invoke"] != rx.apduInvokeID:
        raise Violation("client-abort-on-the-wire", n=len(aborts))
    if aborts[0]["srv"]:
        raise Violation("client-abort-carries-server-bit", invoke=aborts[0]["invoke"], same_id=bool(same))
    if [nl.outcome_kind(c) for c in X.confirmations] != ["abort"]:
        raise Violation("aborting-client-outcome", got=[nl.outcome_kind(c) for c in X.confirmations])
    if Y.confirmations:
        raise Violation("abort-applied-to-the-peers-own-request", got=[nl.outcome_kind(c) for c in Y.confirmations], same_id=bool(same))
    # Y's own request is still alive: X's application answers it now
    X.pt_answer(X.pt_pending[0], result=b"\x55")
    w.run()
    if [nl.outcome_kind(c) for c in Y.confirmations] != ["ack"] or nl.payload_of(Y.confirmations[0], 'resultBlock') != b"\x55":
        raise Violation("other-direction-outcome", got=[nl.outcome_kind(c) for c in Y.confirmations], same_id=bool(same))
    if nl.residue(X) or nl.residue(Y) or not w.idle():
        raise Violation("residue", x=nl.residue(X), y=nl.residue(Y))
    d.reach()


def request_octets(invoke, payload=b"\x05", seg_accepted=True):
    """unsegmented ConfirmedPrivateTransfer request, max APDU code 5, max segs code 4"""
    body = bytes([0x09, 0x07, 0x19, 0x01, 0x2E, 0x60 | len(payload)]) + bytes(payload) + bytes([0x2F])
    return bytes([0x02 if seg_accepted else 0x00, 0x45, invoke, 18]) + body


@meta(bounds="one serving stack whose application answers later; two raw peers; peer A sends a request (symbolic invoke ID), "
             "then a symbolic mix of: A retransmits it (0..2 times, at once or one second apart), B sends a request with the SAME invoke ID; then the "
             "application answers every request it was handed, with distinguishable results",
      outside="segmented requests (C05), more than two peers, retransmission after the answer was sent (a new transaction by design)",
      stubs=STUBS)
def dup_request(d):
    w = World()
    lan = nl.FaultLAN([], world=w)
    server = nl.AppStack(nl.make_device("s", 20), lan, app_timeout=5000)
    server.pt_mode = "later"
    A, B = nl.RawPeer(PEERS[0], lan), nl.RawPeer(PEERS[1], lan)
    inv = d.int(0, 255, 'invoke')
    pa, pb = b"\xAA", b"\xBB"
    A.send(server.address, nl.frame(request_octets(inv, pa), True))
    w.settle()
    retrans = d.int(0, 2, 'retransmissions')
    b_too = d.bool('peer_b_same_id')
    b_first = d.bool('b_before_retransmission')
    # retransmissions follow at once or one second apart (a client's APDU timeout); the application has 5 s
    gap = d.int(0, 1, 'seconds_between_retransmissions')
    if b_too and b_first:
        B.send(server.address, nl.frame(request_octets(inv, pb), True))
        w.settle()
    for _ in range(2):
        if _ < retrans:
            if gap:
                w.run(duration=gap)
            A.send(server.address, nl.frame(request_octets(inv, pa), True))
            w.settle()
    if gap:
        w.run(duration=gap)
    if b_too and not b_first:
        B.send(server.address, nl.frame(request_octets(inv, pb), True))
        w.settle()
    # the application was handed A's request once, and B's once if sent
    seen = [(str(r.pduSource), r.apduInvokeID, nl.payload_of(r, 'serviceParameters')) for r in server.pt_seen]
    want = [(str(A.address), inv, pa)] + ([(str(B.address), inv, pb)] if b_too else [])
    if sorted(seen) != sorted(want):
        raise Violation("application-indications", seen=seen, want=want, retransmissions=retrans)
    if A.received or B.received:
        raise Violation("reply-before-answer")
    # now the application answers each with a result naming the requester
    for r in list(server.pt_pending):
        server.pt_answer(r, result=nl.payload_of(r, 'serviceParameters'))
    w.settle()
    for peer, pay, sent in ((A, pa, True), (B, pb, b_too)):
        acks = []
        for (src, data) in peer.received:
            n, a = wire.parse_frame(data)
            acks.append((a["type"], a["invoke"], a["payload"]))
        if not sent:
            if acks:
                raise Violation("reply-to-peer-that-did-not-ask", peer=str(peer.address))
            continue
        if len(acks) != 1:
            raise Violation("replies-per-request", peer=str(peer.address), n=len(acks), retransmissions=retrans)
        t, i, body = acks[0]
        if t != 3 or i != inv:
            raise Violation("reply-header", type=t, invoke=i)
        if not bytes(body).endswith(bytes([0x2E, 0x61]) + pay + bytes([0x2F])):
            raise Violation("reply-crossed", peer=str(peer.address), body=bytes(body))
    w.run()
    if nl.residue(server):
        raise Violation("residue", r=nl.residue(server))
    d.reach()


def instances(tier):
    q = tier == "quick"
    out = []
    if q:
        out.append(Inst(ids, dict(k=3, npeers=2, chosen=False), budget=80))
        out.append(Inst(ids, dict(k=2, npeers=2, chosen=True), budget=80))
        # three requests: the same application-chosen ID live toward two peers, then the stack numbers a third
        out.append(Inst(ids, dict(k=3, npeers=2, chosen=True), budget=150))
        out.append(Inst(ids, dict(k=4, npeers=2, chosen=False), budget=150))
        out.append(Inst(ids, dict(k=4, npeers=3, chosen=False), budget=150))
        out.append(Inst(ids, dict(k=3, npeers=1, chosen=True), budget=150))
        out.append(Inst(ids, dict(k=5, npeers=3, chosen=False), budget=200, path_timeout=120))
        out.append(Inst(ids, dict(k=6, npeers=2, chosen=False), budget=200, path_timeout=120))
        out.append(Inst(ids, dict(k=4, npeers=1, chosen=True), budget=200, path_timeout=120))
        for kind in REPLY_KINDS:
            out.append(Inst(demux, dict(kind=kind), budget=60))
        for kind in REPLY_KINDS:
            out.append(Inst(demux_routed, dict(kind=kind), budget=60))
        out.append(Inst(cross_roles, {}, budget=90))
        out.append(Inst(abort_direction, {}, budget=90))
        out.append(Inst(ids, dict(k=3, npeers=2, chosen=False, mid_answer=True), budget=150))
        out.append(Inst(ids, dict(k=3, npeers=1, chosen=True, mid_answer=True), budget=150))
        out.append(Inst(dup_request, {}, budget=60))
    else:
        out.append(Inst(ids, dict(k=5, npeers=3, chosen=False), budget=900, path_timeout=120))
        out.append(Inst(ids, dict(k=6, npeers=2, chosen=False), budget=900, path_timeout=120))
        out.append(Inst(ids, dict(k=6, npeers=3, chosen=False), budget=1800, path_timeout=120))
        out.append(Inst(ids, dict(k=8, npeers=2, chosen=False), budget=1800, path_timeout=120))
        out.append(Inst(ids, dict(k=3, npeers=2, chosen=True), budget=900, path_timeout=120))
        out.append(Inst(ids, dict(k=4, npeers=2, chosen=True), budget=1800, path_timeout=120))
        out.append(Inst(ids, dict(k=4, npeers=1, chosen=True), budget=900, path_timeout=120))
        out.append(Inst(ids, dict(k=5, npeers=1, chosen=True), budget=1800, path_timeout=120))
        for kind in REPLY_KINDS:
            out.append(Inst(demux, dict(kind=kind), budget=300))
            out.append(Inst(demux_routed, dict(kind=kind), budget=300))
        out.append(Inst(cross_roles, {}, budget=300))
        out.append(Inst(abort_direction, {}, budget=300))
        out.append(Inst(ids, dict(k=5, npeers=2, chosen=False, mid_answer=True), budget=900, path_timeout=120))
        out.append(Inst(ids, dict(k=4, npeers=1, chosen=True, mid_answer=True), budget=900, path_timeout=120))
        out.append(Inst(dup_request, {}, budget=300))
    return out


# ------------------------------------------------------------------ the IOCB layer: a reply is for the request it answers
# C04's harness for requests the application gives up on runs here too: the late ack, error or abort of the abandoned request
# must not be applied to the next request queued for that peer
from .C04 import iocb_abort                                                    # noqa: E402

_c11_instances = instances


def instances(tier):
    out = _c11_instances(tier)
    out.append(Inst(iocb_abort, {}, budget=120 if tier == "quick" else 600))
    return out
