"""C08 - Network-layer headers and messages encode and decode faithfully.

npci_rt            fields -> NPDU.encode -> octets == clause 6.2 reference layout; the reference octets
                   -> NPDU.decode -> every field and the payload restored
npci_decode_total  every short octet string: refused with DecodingError when the statement forbids it
                   (version != 1, SNET = 0xFFFF, SLEN = 0, truncated), decoded to exactly the fields the
                   layout dictates when a conforming device may send it, either of the two for the rest
                   (reserved bits, net 0, global broadcast with DADR); whatever decodes is a fixed point
                   of encode/decode
npci_mutated       the same obligation on long valid frames with one octet replaced
netmsg_rt          the 12 message classes: message -> NPDU -> octets == clause 6.4 reference; reference
                   octets -> NPDU -> npdu_types registry -> message class -> parameters and header restored

Engine notes (measured): octet strings are built as bytes([d.int ...]) of concrete length - a d.bytes()
value has a symbolic length and every `del pduData[0]` in PDUData.get then costs ~40 solver queries
(10x slower overall); length octets are pinned to plain ints before the library slices by them (R.pin).
"""
from ..api import Inst, Violation, meta
from ..ref import C08_npci as R

from bacpypes.pdu import PDU, Address, RemoteStation, RemoteBroadcast, GlobalBroadcast
from bacpypes.errors import DecodingError
from bacpypes import npdu as N


# ---------------------------------------------------------------------------- helpers
def build_dadr(shape):
    """typed constructors only (ints / bytes): nothing goes through Address's text parser"""
    if shape is None:
        return None
    if shape[0] == 'station':
        return RemoteStation(shape[1], shape[2])
    if shape[0] == 'rbcast':
        return RemoteBroadcast(shape[1])
    if shape[0] == 'global':
        return GlobalBroadcast()
    raise AssertionError(shape)


def dadr_mismatch(a, shape):
    """None when the decoded destination `a` is the address described by `shape`,
    else the name of the part that differs (public attributes of pdu.Address)"""
    if shape is None:
        return None if a is None else 'present'
    if not isinstance(a, Address):
        return 'absent'
    if shape[0] == 'station':
        if a.addrType != Address.remoteStationAddr:
            return 'type'
        if a.addrNet != shape[1]:
            return 'net'
        if a.addrAddr is None or bytes(a.addrAddr) != bytes(shape[2]):
            return 'addr'
        if a.addrLen != len(shape[2]):
            return 'len'
        return None
    if shape[0] == 'rbcast':
        if a.addrType != Address.remoteBroadcastAddr:
            return 'type'
        if a.addrNet != shape[1]:
            return 'net'
        return None
    if a.addrType != Address.globalBroadcastAddr:
        return 'type'
    return None


def sadr_mismatch(a, shape):
    if shape is None:
        return None if a is None else 'present'
    return dadr_mismatch(a, ('station', shape[0], shape[1]))


def draw_station(d, tag, alen):
    # 6.2.2: a station's network number is 1..65534 (0 is never used on the wire, 0xFFFF
    # is the global broadcast network)
    net = d.int(1, 65534, tag + 'net')
    addr = octets(d, alen, tag + 'a')
    return net, addr


def octets(d, n, tag):
    """exactly n free octets as a bytes object of *concrete* length"""
    return bytes([d.int(0, 255, '%s%d' % (tag, i)) for i in range(n)])


def draw_payload(d, paylens):
    """a payload whose length is picked from `paylens`, every octet free.  The length is
    chosen by a forking pick: a frame of symbolic *length* makes every `del pduData[0]` of
    the decoder cost hundreds of solver queries, and the length forks the paths anyway."""
    return octets(d, d.pick(paylens, 'paylen'), 'p')


# ---------------------------------------------------------------------------- npci_rt
@meta(bounds="one instance per (destination kind, source kind, APDU / network message): expecting-reply "
             "flag symbolic, priority 0..3 symbolic, DNET / SNET symbolic over 1..65534, station address "
             "length picked from `dlens` / `slens` with every octet symbolic, hop count 0..255 symbolic, message "
             "type symbolic over 0..255 with vendor ID 0..65535 symbolic (mk=net) or absent (mk=apdu), payload "
             "of a length picked from `paylens` (at most 4) with every octet symbolic",
      outside="station address lengths not in `dlens` / `slens`; payload lengths not in `paylens` (the payload is copied, not interpreted); "
              "local (non-routed) source/destination which never appear in an NPCI",
      stubs=[], assumes=[])
def npci_rt(d, dk, sk, mk, dlens, slens, paylens):
    er = d.bool('er')
    prio = d.int(0, 3, 'prio')
    dshape = sshape = None
    hops = None
    if dk == 'station':
        dshape = ('station',) + draw_station(d, 'd', d.pick(dlens, 'dlen'))
    elif dk == 'rbcast':
        dshape = ('rbcast', d.int(1, 65534, 'dnet'))
    elif dk == 'global':
        dshape = ('global',)
    if sk == 'station':
        sshape = draw_station(d, 's', d.pick(slens, 'slen'))
    if dshape is not None:
        hops = d.int(0, 255, 'hops')
    msg = vendor = None
    if mk == 'net':
        msg = d.int(0, 0xFF, 'msg')
        vendor = d.int(0, 0xFFFF, 'vendor')
    payload = draw_payload(d, paylens)

    x = N.NPDU()
    x.pduExpectingReply = er
    x.pduNetworkPriority = prio
    x.npduDADR = build_dadr(dshape)
    x.npduSADR = RemoteStation(sshape[0], sshape[1]) if sshape is not None else None
    x.npduHopCount = hops
    x.npduNetMessage = msg
    x.npduVendorID = vendor         # must be ignored for message types below 0x80
    x.pduData = bytearray(payload)

    pdu = PDU()
    x.encode(pdu)
    octets_ = bytes(pdu.pduData)
    want = R.npci_octets(er, prio, dshape, sshape, hops, msg, vendor) + bytes(payload)
    if octets_ != want:
        raise Violation("layout", dk=dk, sk=sk, mk=mk, got=octets_, want=want)

    # decoding the octets the standard prescribes restores every field and the payload
    y = N.NPDU()
    y.decode(PDU(want))
    check_fields(y, er, prio, dshape, sshape, hops, msg, vendor, payload, "field-restored")
    if y.npduControl != want[1]:
        raise Violation("field-restored", attr='npduControl', got=y.npduControl, want=want[1])
    d.reach()


def check_fields(y, er, prio, dshape, sshape, hops, msg, vendor, payload, kind, skip_dadr=False):
    """the decoded NPDU `y` carries exactly these header fields and this payload
    (payload None: not looked at)"""
    if y.npduVersion != 1:
        raise Violation(kind, attr='npduVersion', got=y.npduVersion)
    if bool(y.pduExpectingReply) != bool(er):
        raise Violation(kind, attr='pduExpectingReply', got=y.pduExpectingReply, want=er)
    if y.pduNetworkPriority != prio:
        raise Violation(kind, attr='pduNetworkPriority', got=y.pduNetworkPriority, want=prio)
    if not skip_dadr:
        m = dadr_mismatch(y.npduDADR, dshape)
        if m is not None:
            raise Violation(kind, attr='npduDADR', part=m, got=repr(y.npduDADR))
    m = sadr_mismatch(y.npduSADR, sshape)
    if m is not None:
        raise Violation(kind, attr='npduSADR', part=m, got=repr(y.npduSADR))
    if dshape is not None and (y.npduHopCount is None or y.npduHopCount != hops):
        raise Violation(kind, attr='npduHopCount', got=y.npduHopCount, want=hops)
    if msg is None:
        if y.npduNetMessage is not None:
            raise Violation(kind, attr='npduNetMessage', got=y.npduNetMessage, want=None)
    else:
        if y.npduNetMessage is None or y.npduNetMessage != msg:
            raise Violation(kind, attr='npduNetMessage', got=y.npduNetMessage, want=msg)
        if vendor is not None and msg >= 0x80 and (y.npduVendorID is None or y.npduVendorID != vendor):
            raise Violation(kind, attr='npduVendorID', got=y.npduVendorID, want=vendor)
    if payload is not None and bytes(y.pduData) != bytes(payload):
        raise Violation(kind, attr='pduData', got=bytes(y.pduData), want=bytes(payload))


# ---------------------------------------------------------------------------- decoding anything
def addr_key(a):
    if a is None:
        return None
    return (a.addrType, a.addrNet, None if a.addrAddr is None else bytes(a.addrAddr))


def check_decode(d, data):
    """the obligation of `npci_decode_total` / `npci_mutated` on one octet string"""
    data = bytes(data)
    p = R.npci_parse(data)
    d.note(status=p.status, reason=p.reason)
    # the reference parse has forked on the value of every length octet it used; hand the
    # library the same octets with those positions written as plain ints (equal by the path
    # condition, so nothing changes but the cost: see R.pin)
    for i, k in p.pins:
        data = data[:i] + bytes([k]) + data[i + 1:]
    y = N.NPDU()
    try:
        y.decode(PDU(data))
    except DecodingError:
        if p.status == 'valid':
            raise Violation("refused-valid", data=data)
        return
    except Exception as e:
        # neither decoded nor refused with a decoding error
        raise Violation("refused-with-other-error", exc=type(e).__name__, status=p.status,
                        reason=p.reason, data=data)
    if p.status == 'forbidden':
        # version != 1, SNET = 0xFFFF, SLEN = 0 or truncated, and yet a header came out
        raise Violation("accepted-forbidden", reason=p.reason, data=data)

    # accepted: the fields are the ones the clause 6.2 layout dictates (not misread)
    dshape = sshape = None
    skip_dadr = False
    if p.dnet is not None:
        if p.dnet == 0xFFFF:
            dshape = ('global',)
            skip_dadr = p.dlen != 0     # the statement is silent on what this one means
        elif p.dlen == 0:
            dshape = ('rbcast', p.dnet)
        else:
            dshape = ('station', p.dnet, p.dadr)
    if p.snet is not None:
        sshape = (p.snet, p.sadr)
    check_fields(y, p.er, p.prio, dshape, sshape, p.hops, p.msg, p.vendor, data[p.hdrlen:],
                 "misread", skip_dadr=skip_dadr)

    # fixed point: what was decoded re-encodes to something that decodes identically
    p2 = PDU()
    try:
        y.encode(p2)
    except Exception as e:
        raise Violation("decoded-not-encodable", exc=type(e).__name__, data=data)
    o2 = bytes(p2.pduData)
    y2 = N.NPDU()
    try:
        y2.decode(PDU(o2))
    except Exception as e:
        raise Violation("reencoded-not-decodable", exc=type(e).__name__, data=data, got=o2)
    if addr_key(y.npduDADR) != addr_key(y2.npduDADR):
        raise Violation("not-fixed-point", attr='npduDADR', data=data)
    if addr_key(y.npduSADR) != addr_key(y2.npduSADR):
        raise Violation("not-fixed-point", attr='npduSADR', data=data)
    for attr in ('npduVersion', 'npduHopCount', 'npduNetMessage', 'npduVendorID',
                 'pduNetworkPriority'):
        if getattr(y, attr) != getattr(y2, attr):
            raise Violation("not-fixed-point", attr=attr, data=data)
    if bool(y.pduExpectingReply) != bool(y2.pduExpectingReply):
        raise Violation("not-fixed-point", attr='pduExpectingReply', data=data)
    # the reserved control bits 6 and 4 carry no field
    if R.defined_control_bits(y.npduControl) != R.defined_control_bits(y2.npduControl):
        raise Violation("not-fixed-point", attr='npduControl', data=data)
    if bytes(y.pduData) != bytes(y2.pduData):
        raise Violation("not-fixed-point", attr='pduData', data=data)
    # a header a conforming device may send has exactly one spelling
    if p.status == 'valid' and o2 != data:
        raise Violation("reencode-differs", data=data, got=o2)


@meta(bounds="every octet string of length n (one instance per length, every octet symbolic).  From 9 "
             "octets on the strings are shared out over 9 instances: `hi` = 0..7 fixes the three top bits of "
             "the control octet of a version-1 string (its low five bits stay symbolic), `hi=-1` takes every "
             "first octet other than 1",
      outside="octet strings longer than the largest n (longer *valid* shapes are covered by npci_mutated)",
      stubs=[], assumes=[])
def npci_decode_total(d, n, hi=None):
    if hi is None:
        data = octets(d, n, 'o')
    elif hi < 0:
        v = d.int(0, 255, 'o0')
        d.assume(v != 1)
        data = bytes([v]) + octets(d, n - 1, 'r')
    else:
        # the parse tree fans out on the control octet first: share it out over 8 processes
        data = bytes([1, hi * 32 + d.int(0, 31, 'o1lo')]) + octets(d, n - 2, 'r')
    check_decode(d, data)
    d.reach()


MUT_ER_PRIO = {'apdu': (True, 1), 'std': (False, 3), 'vendor': (False, 0)}


@meta(bounds="a valid frame laid out by the clause 6.2 reference from symbolic fields (expecting-reply / "
             "priority fixed per message kind: apdu (1, 1), std (0, 3), vendor (0, 0); destination kind / "
             "source kind / message kind per instance, station address lengths picked from `dlens` / `slens`, "
             "2-octet payload), then the octet at a symbolic position replaced by a symbolic value (ctl=any) or, "
             "ctl=flip, by a symbolic value everywhere except the control octet, which gets each of its 8 "
             "single-bit flips",
      outside="more than one replaced octet; insertions / deletions (truncation is covered by "
              "npci_decode_total on every short string)",
      stubs=[], assumes=[])
def npci_mutated(d, dk, sk, mk, dlens, slens, ctl):
    # expecting-reply and priority of the valid frame are concrete: position 1 replaces the
    # whole control octet by a symbolic value anyway, and symbolic ones multiply every path
    # by 8 (the library's single-bit masks make the engine enumerate the control octet)
    er, prio = MUT_ER_PRIO[mk]
    dshape = sshape = hops = None
    if dk == 'station':
        dshape = ('station',) + draw_station(d, 'd', d.pick(dlens, 'dlen'))
    elif dk == 'rbcast':
        dshape = ('rbcast', d.int(1, 65534, 'dnet'))
    elif dk == 'global':
        dshape = ('global',)
    if sk == 'station':
        sshape = draw_station(d, 's', d.pick(slens, 'slen'))
    if dshape is not None:
        hops = d.int(0, 255, 'hops')
    msg = vendor = None
    if mk == 'std':
        msg = d.int(0, 0x7F, 'msg')
    elif mk == 'vendor':
        msg = d.int(0x80, 0xFF, 'msg')
        vendor = d.int(0, 0xFFFF, 'vendor')
    frame = R.npci_octets(er, prio, dshape, sshape, hops, msg, vendor) + octets(d, 2, 'p')
    pos = d.index(len(frame), 'pos')
    if pos == 1 and ctl == 'flip':
        # the control octet: its 8 single-bit flips (every one of the 256 values in front of
        # symbolic octets is what npci_decode_total does; here it costs 256 sub-trees)
        c0 = R.npci_control(er, prio, dshape is not None, sshape is not None, msg is not None)
        v = c0 ^ (1 << d.index(8, 'bit'))
    else:
        v = d.int(0, 255, 'v')
    data = frame[:pos] + bytes([v]) + frame[pos + 1:]
    check_decode(d, data)
    d.reach()


# ---------------------------------------------------------------------------- netmsg_rt
def draw_nets(d, k):
    return [d.int(0, 0xFFFF, 'net%d' % i) for i in range(k)]


def draw_table(d, nent, infolens):
    ents = []
    for i in range(nent):
        dnet = d.int(0, 0xFFFF, 'rt%d_dnet' % i)
        port = d.int(0, 255, 'rt%d_port' % i)
        ilen = d.pick(infolens, 'rt%d_ilen' % i)
        ents.append((dnet, port, octets(d, ilen, 'rt%d_i' % i)))
    return ents


def table_mismatch(got, ents):
    if len(got) != len(ents):
        return 'count'
    for g, (dnet, port, info) in zip(got, ents):
        if g.rtDNET != dnet:
            return 'dnet'
        if g.rtPortID != port:
            return 'port'
        if g.rtPortInfo is None or bytes(g.rtPortInfo) != bytes(info):
            return 'info'
    return None


# message type -> (constructor arguments from the drawn parameters, reference body,
#                  check of the decoded instance); parameters are drawn by draw_params
def draw_params(d, mt, lists, nents, infolens):
    if mt == 0x00:
        return dict(net=d.int(0, 0xFFFF, 'net') if d.pick([True, False], 'has_net') else None)
    if mt in (0x01, 0x04, 0x05):
        return dict(nets=draw_nets(d, d.pick(lists, 'nnets')))
    if mt in (0x02, 0x08, 0x13):
        return dict(net=d.int(0, 0xFFFF, 'net'), octet=d.int(0, 255, 'octet'))
    if mt == 0x03:
        return dict(octet=d.int(0, 255, 'reason'), net=d.int(0, 0xFFFF, 'net'))
    if mt in (0x06, 0x07):
        return dict(table=draw_table(d, d.pick(nents, 'nents'), infolens))
    if mt == 0x09:
        return dict(net=d.int(0, 0xFFFF, 'net'))
    if mt == 0x12:
        return {}
    raise AssertionError(mt)


def construct(mt, q):
    if mt == 0x00:
        return N.WhoIsRouterToNetwork(q['net'])
    if mt == 0x01:
        return N.IAmRouterToNetwork(list(q['nets']))
    if mt == 0x02:
        return N.ICouldBeRouterToNetwork(q['net'], q['octet'])
    if mt == 0x03:
        return N.RejectMessageToNetwork(q['octet'], q['net'])
    if mt == 0x04:
        return N.RouterBusyToNetwork(list(q['nets']))
    if mt == 0x05:
        return N.RouterAvailableToNetwork(list(q['nets']))
    if mt == 0x06:
        return N.InitializeRoutingTable([N.RoutingTableEntry(a, b, c) for a, b, c in q['table']])
    if mt == 0x07:
        return N.InitializeRoutingTableAck([N.RoutingTableEntry(a, b, c) for a, b, c in q['table']])
    if mt == 0x08:
        return N.EstablishConnectionToNetwork(q['net'], q['octet'])
    if mt == 0x09:
        return N.DisconnectConnectionToNetwork(q['net'])
    if mt == 0x12:
        return N.WhatIsNetworkNumber()
    if mt == 0x13:
        return N.NetworkNumberIs(q['net'], q['octet'])
    raise AssertionError(mt)


def ref_body(mt, q):
    if mt == 0x00:
        return R.body_net_opt(q['net'])
    if mt in (0x01, 0x04, 0x05):
        return R.body_net_list(q['nets'])
    if mt in (0x02, 0x08, 0x13):
        return R.body_net_octet(q['net'], q['octet'])
    if mt == 0x03:
        return R.body_octet_net(q['octet'], q['net'])
    if mt in (0x06, 0x07):
        return R.body_routing_table(q['table'])
    if mt == 0x09:
        return R.body_net(q['net'])
    if mt == 0x12:
        return b''
    raise AssertionError(mt)


def params_mismatch(mt, z, q):
    """None when the decoded message instance carries the parameters q"""
    def ne(a, b):
        return a is None or a != b
    if mt == 0x00:
        if q['net'] is None:
            return None if z.wirtnNetwork is None else 'wirtnNetwork'
        return 'wirtnNetwork' if ne(z.wirtnNetwork, q['net']) else None
    if mt in (0x01, 0x04, 0x05):
        attr = {0x01: 'iartnNetworkList', 0x04: 'rbtnNetworkList', 0x05: 'ratnNetworkList'}[mt]
        got = getattr(z, attr)
        if len(got) != len(q['nets']):
            return attr + '.length'
        for a, b in zip(got, q['nets']):
            if a != b:
                return attr
        return None
    if mt == 0x02:
        return ('icbrtnNetwork' if ne(z.icbrtnNetwork, q['net']) else
                'icbrtnPerformanceIndex' if ne(z.icbrtnPerformanceIndex, q['octet']) else None)
    if mt == 0x03:
        return ('rmtnRejectionReason' if ne(z.rmtnRejectionReason, q['octet']) else
                'rmtnDNET' if ne(z.rmtnDNET, q['net']) else None)
    if mt == 0x06:
        m = table_mismatch(z.irtTable, q['table'])
        return None if m is None else 'irtTable.' + m
    if mt == 0x07:
        m = table_mismatch(z.irtaTable, q['table'])
        return None if m is None else 'irtaTable.' + m
    if mt == 0x08:
        return ('ectnDNET' if ne(z.ectnDNET, q['net']) else
                'ectnTerminationTime' if ne(z.ectnTerminationTime, q['octet']) else None)
    if mt == 0x09:
        return 'dctnDNET' if ne(z.dctnDNET, q['net']) else None
    if mt == 0x12:
        return None
    if mt == 0x13:
        return ('nniNet' if ne(z.nniNet, q['net']) else
                'nniFlag' if ne(z.nniFlag, q['octet']) else None)
    raise AssertionError(mt)


CONTEXTS = ('bare', 'global', 'routed')


@meta(bounds="one instance per message type; every network number 0..65535 and every octet parameter "
             "0..255 symbolic; Who-Is-Router with and without a network; network lists of a length picked "
             "from `lists`; routing tables with a number of entries picked from `nents`, each port-info "
             "length picked from `infolens` with symbolic content; header context picked from {no DADR/SADR, "
             "global broadcast with symbolic hop count, remote-station DADR + SADR with symbolic nets / "
             "addresses / hop count}",
      outside="list lengths / table sizes / port-info lengths other than the listed ones; proprietary "
              "(>= 0x80) and security (0x0A..0x11) messages, for which the library has no class",
      stubs=[], assumes=[])
def netmsg_rt(d, mt, lists, nents, infolens):
    name = R.MESSAGE_TYPES[mt]
    cls = getattr(N, name)
    # the registry maps the type octet of clause 6.2.4 to this very class
    if N.npdu_types.get(mt) is not cls:
        raise Violation("registry", mt=mt, want=name, got=repr(N.npdu_types.get(mt)))
    ctx = d.pick(CONTEXTS, 'ctx')
    er, prio = False, 0
    dshape = sshape = hops = None
    if ctx == 'global':
        dshape, hops = ('global',), d.int(0, 255, 'hops')
        prio = 1
    elif ctx == 'routed':
        dshape = ('station',) + draw_station(d, 'd', 1)
        sshape = draw_station(d, 's', 2)
        hops = d.int(0, 255, 'hops')
        er, prio = True, 3
    q = draw_params(d, mt, lists, nents, infolens)

    m = construct(mt, q)
    m.pduExpectingReply = er
    m.pduNetworkPriority = prio
    m.npduDADR = build_dadr(dshape)
    m.npduSADR = RemoteStation(sshape[0], sshape[1]) if sshape is not None else None
    m.npduHopCount = hops
    # the way the stack sends it: message -> NPDU -> PDU octets
    npdu = N.NPDU()
    m.encode(npdu)
    pdu = PDU()
    npdu.encode(pdu)
    got = bytes(pdu.pduData)
    want = R.npci_octets(er, prio, dshape, sshape, hops, mt, None) + ref_body(mt, q)
    if got != want:
        raise Violation("msg-layout", mt=mt, got=got, want=want)

    # the way the stack receives it: octets -> NPDU -> registry -> message class
    n2 = N.NPDU()
    n2.decode(PDU(want))
    if n2.npduNetMessage is None or n2.npduNetMessage != mt:
        raise Violation("msg-type-restored", mt=mt, got=n2.npduNetMessage)
    k = N.npdu_types.get(mt)
    z = k()
    z.decode(n2)
    if not isinstance(z, cls):
        raise Violation("registry", mt=mt, want=name, got=type(z).__name__)
    bad = params_mismatch(mt, z, q)
    if bad is not None:
        raise Violation("msg-param-restored", mt=mt, attr=bad)
    # the header of the frame stays attached to the decoded message
    check_fields(z, er, prio, dshape, sshape, hops, mt, None, None, "msg-header-restored")
    # a second frame of the same type, decoded through another default-constructed object as the stack does on
    # receive, restores ITS parameters and leaves the first message as it was (no state shared between messages)
    q2 = draw_params(d, mt, lists, nents, infolens)
    n3 = N.NPDU()
    n3.decode(PDU(R.npci_octets(er, prio, dshape, sshape, hops, mt, None) + ref_body(mt, q2)))
    z2 = k()
    z2.decode(n3)
    bad = params_mismatch(mt, z2, q2)
    if bad is not None:
        raise Violation("second-message-param-restored", mt=mt, attr=bad)
    bad = params_mismatch(mt, z, q)
    if bad is not None:
        raise Violation("first-message-changed-by-second", mt=mt, attr=bad)
    d.reach()


# ---------------------------------------------------------------------------- instances
def instances(tier):
    q = tier == "quick"
    out = []
    # --- npci_rt.  Paths per instance = |dlens| x |slens| x |paylens| x 2 (expecting reply) x 2 (mk=net:
    # message type below / from 0x80)
    lens = [1, 2, 6, 7, 19] if q else [1, 2, 6, 7, 19, 255]
    pl = [0, 4] if q else [0, 1, 2, 3, 4]
    for dk in ('none', 'station', 'rbcast', 'global'):
        for sk in ('none', 'station'):
            for mk in ('apdu', 'net'):
                both = dk == 'station' and sk == 'station'
                # thorough, both addresses present: one process per destination length
                parts = [[n] for n in lens] if (both and not q) else [lens]
                for dl in parts:
                    label = "%s,%s,%s" % (dk, sk, mk) + (",dlen=%d" % dl[0] if len(parts) > 1 else "")
                    # (the larger budget also makes the pool start the biggest trees first)
                    out.append(Inst(npci_rt, dict(dk=dk, sk=sk, mk=mk, dlens=dl, slens=lens, paylens=pl),
                                    budget=(120 if both else 90) if q else 600, label=label))
    if q:
        # the longest station addresses the length octet allows, one address at a time
        for dk, sk in (('station', 'none'), ('none', 'station')):
            out.append(Inst(npci_rt, dict(dk=dk, sk=sk, mk='apdu', dlens=[255], slens=[255], paylens=[0]),
                            budget=150, label="%s,%s,apdu,255-octet address" % (dk, sk)))
    # --- npci_decode_total: every string of 0..nmax octets; from 9 octets on one process per
    # class of control octet
    nmax = 8 if q else 14
    for n in range(0, nmax + 1):
        if n < 9:
            out.append(Inst(npci_decode_total, dict(n=n), budget=120 if n == 8 else 90))
        else:
            for hi in range(-1, 8):
                out.append(Inst(npci_decode_total, dict(n=n, hi=hi), budget=600))
    # --- npci_mutated
    for dk in ('none', 'station', 'rbcast', 'global'):
        for sk in ('none', 'station'):
            for mk in ('apdu', 'std', 'vendor'):
                both = dk == 'station' and sk == 'station'
                if q and mk == 'std' and sk == 'station':
                    continue    # quick: standard messages behind a source address only in thorough
                if q:
                    parts = [([2], [2])]
                elif both:
                    # one process per destination length; the source is 2 or 6 octets long
                    # (a 1-octet source runs with the other destination kinds)
                    parts = [([n], [2, 6]) for n in (1, 2, 6)]
                else:
                    parts = [([1, 2, 6], [1, 2, 6])]
                for dl, sl in parts:
                    label = "%s,%s,%s" % (dk, sk, mk) + (",dlen=%d" % dl[0] if len(parts) > 1 else "")
                    out.append(Inst(npci_mutated, dict(dk=dk, sk=sk, mk=mk, dlens=dl, slens=sl, ctl='any'),
                                    budget=(120 if both else 90) if q else 900, label=label))
    # --- netmsg_rt
    for mt in sorted(R.MESSAGE_TYPES):
        out.append(Inst(netmsg_rt, dict(mt=mt, lists=[0, 1, 2, 3] if q else [0, 1, 2, 3, 4, 5],
                                        nents=[0, 1, 2], infolens=[0, 1, 2]),
                        budget=60 if q else 400, label="mt=0x%02x" % mt))
    if not q:
        for mt in (0x01, 0x04, 0x05):
            out.append(Inst(netmsg_rt, dict(mt=mt, lists=[20], nents=[], infolens=[]),
                            budget=400, label="mt=0x%02x,20 networks" % mt))
        for mt in (0x06, 0x07):
            for ne in (3, 5):
                for il in (0, 3):
                    out.append(Inst(netmsg_rt, dict(mt=mt, lists=[], nents=[ne], infolens=[il]),
                                    budget=900, label="mt=0x%02x,%d ports,%d octets of port info" % (mt, ne, il)))
            out.append(Inst(netmsg_rt, dict(mt=mt, lists=[], nents=[1], infolens=[255]),
                            budget=400, label="mt=0x%02x,255 octets of port info" % mt))
    return out
