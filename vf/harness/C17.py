"""C17 - a commandable value equals its highest-priority command or the default.

Object level: obj.WriteProperty / obj.ReadProperty, the very calls do_WritePropertyRequest
and do_ReadPropertyRequest make (the over-the-wire variant belongs to the C15 rig).

prio_ops          command sequences against the 16-slot reference array (clause 19.2.1)
long_seq          long pseudo-random sequences over all priorities (concrete, seed picked)
pa_element_write  a WriteProperty aimed at one element of priorityArray, as the service
                  hands it over (a PriorityValue), is either refused or is a command
min_hold          a new state sits in slot 6 for exactly its minimum time (19.2.3)
min_on_off        commands and time interleaved, against the reference timer model
"""
from operator import index

from ..api import Inst, Violation, meta
from ..ref.C17_prio import NULL, RefCommandable, RefMinOnOff
from ..world import World

from bacpypes.object import register_object_type
from bacpypes.basetypes import DateTime, PriorityArray, PriorityValue
from bacpypes.primitivedata import (BitString, CharacterString, Date, Double, Enumerated, Integer,
                                    Null, OctetString, Real, Tag, TagList, Time, Unsigned)
import bacpypes.local.object as L

VENDOR = 917

# ------------------------------------------------------------------ datatype families
# choice   = the PriorityValue alternative clause 21 prescribes for the datatype
# values   = three values of the datatype + a relinquish default different from all three
#            (python values as Any.cast_out hands them to obj.WriteProperty)
# enum     = name -> number for enumerated datatypes (135 clause 21), else None
# symint   = range over which prio_ops draws the value symbolically instead


def _dt(date, time):
    return lambda: DateTime(date=date, time=time)


def _k(v):
    return lambda: v


FAMILIES = {
    'real':   dict(choice='real', values=[_k(1.5), _k(-2.25), _k(100.0)], default=_k(0.5)),
    'double': dict(choice='double', values=[_k(1.0e100), _k(-0.125), _k(3.0)], default=_k(0.5)),
    'binary': dict(choice='enumerated', values=[_k('active'), _k('inactive'), _k('active')],
                   default=_k('inactive'), enum={'inactive': 0, 'active': 1}),
    'door':   dict(choice='enumerated', values=[_k('unlock'), _k('pulseUnlock'), _k('extendedPulseUnlock')],
                   default=_k('lock'),
                   enum={'lock': 0, 'unlock': 1, 'pulseUnlock': 2, 'extendedPulseUnlock': 3}),
    'unsigned': dict(choice='unsigned', values=[_k(1), _k(2), _k(70000)], default=_k(9),
                     symint=(0, 2 ** 32 - 1)),
    'integer': dict(choice='integer', values=[_k(-5), _k(0), _k(70000)], default=_k(7),
                    symint=(-2 ** 31, 2 ** 31 - 1)),
    'charstr': dict(choice='characterString', values=[_k('a'), _k(''), _k('hello world')], default=_k('dflt')),
    'octets': dict(choice='octetString', values=[_k(b'\x01'), _k(b''), _k(b'\xff\x00\x10')], default=_k(b'\xaa')),
    'bits':   dict(choice='bitString', values=[lambda: [1, 0, 1], lambda: [0], lambda: [1, 1, 1, 1, 0, 0, 0, 0, 1]],
                   default=lambda: [0, 1]),
    'date':   dict(choice='date', values=[_k((124, 2, 29, 4)), _k((99, 12, 31, 5)), _k((255, 255, 255, 255))],
                   default=_k((100, 1, 1, 6))),
    'time':   dict(choice='time', values=[_k((12, 30, 0, 0)), _k((0, 0, 0, 0)), _k((255, 255, 255, 255))],
                   default=_k((1, 2, 3, 4))),
    'datetime': dict(choice='datetime',
                     values=[_dt((124, 2, 29, 4), (12, 30, 0, 0)), _dt((99, 12, 31, 5), (0, 0, 0, 0)),
                             _dt((255, 255, 255, 255), (255, 255, 255, 255))],
                     default=_dt((100, 1, 1, 6), (1, 2, 3, 4))),
}

# the 20 commandable classes of local/object.py and the datatype 135 clause 12 gives
# their Present_Value
CLASSES = [
    ('AccessDoorCmdObject', 'door'),
    ('AnalogOutputCmdObject', 'real'),
    ('AnalogValueCmdObject', 'real'),
    ('BinaryOutputCmdObject', 'binary'),
    ('BinaryValueCmdObject', 'binary'),
    ('BitStringValueCmdObject', 'bits'),
    ('CharacterStringValueCmdObject', 'charstr'),
    ('DateValueCmdObject', 'date'),
    ('DatePatternValueCmdObject', 'date'),
    ('DateTimeValueCmdObject', 'datetime'),
    ('DateTimePatternValueCmdObject', 'datetime'),
    ('IntegerValueCmdObject', 'integer'),
    ('LargeAnalogValueCmdObject', 'double'),
    ('LightingOutputCmdObject', 'real'),
    ('MultiStateOutputCmdObject', 'unsigned'),
    ('MultiStateValueCmdObject', 'unsigned'),
    ('OctetStringValueCmdObject', 'octets'),
    ('PositiveIntegerValueCmdObject', 'unsigned'),
    ('TimeValueCmdObject', 'time'),
    ('TimePatternValueCmdObject', 'time'),
]
FAMILY_OF = dict(CLASSES)
# one class per datatype family (both binary classes: they carry the minimum on/off timer)
REPRESENTATIVE = ['AnalogValueCmdObject', 'BinaryOutputCmdObject', 'BinaryValueCmdObject',
                  'MultiStateOutputCmdObject', 'IntegerValueCmdObject', 'LargeAnalogValueCmdObject',
                  'CharacterStringValueCmdObject', 'OctetStringValueCmdObject', 'BitStringValueCmdObject',
                  'DateValueCmdObject', 'TimeValueCmdObject', 'DateTimeValueCmdObject', 'AccessDoorCmdObject']

# registered once, at import, in a fixed order (the registry is process-global); through a
# subclass and a vendor identifier, as samples/CommandableMixin.py does
REGISTERED = {}
for _name, _fam in CLASSES:
    _base = getattr(L, _name)
    _cls = type('C17' + _name, (_base,), {})
    register_object_type(_cls, vendor_id=VENDOR)
    REGISTERED[_name] = _cls

CHOICE_NAMES = [e.name for e in PriorityValue.choiceElements]
ATOM = {'real': Real, 'double': Double, 'enumerated': Enumerated, 'unsigned': Unsigned, 'integer': Integer,
        'characterString': CharacterString, 'octetString': OctetString, 'bitString': BitString,
        'date': Date, 'time': Time}


# ------------------------------------------------------------------ observation
def canon(v, enum=None):
    """comparable form of a property value as read back"""
    if isinstance(v, DateTime):
        return ('DateTime', canon(v.date), canon(v.time))
    if isinstance(v, (list, tuple)):
        return tuple(canon(x) for x in v)
    if isinstance(v, (bytes, bytearray)):
        return bytes(v)
    if enum is not None and isinstance(v, str):
        return enum.get(v, v)          # an enumeration may be shown by name or by number
    return v


def slot_view(pv, fam):
    """(choice name, canonical value) of one PriorityValue; ('null', ()) for an empty slot"""
    chosen = []
    for name in CHOICE_NAMES:
        x = getattr(pv, name, None)
        if x is not None:
            chosen.append((name, x))
    if len(chosen) != 1:
        raise Violation("slot-not-one-choice", chosen=[n for n, _ in chosen])
    name, x = chosen[0]
    if name == 'null':
        return ('null', ())
    return (name, canon(x, fam.get('enum')))


def observe(obj, fam):
    """present value, the sixteen slots and the relinquish default, through ReadProperty
    (and the present value through attribute access as well)"""
    enum = fam.get('enum')
    pv = canon(obj.ReadProperty('presentValue'), enum)
    if canon(obj.presentValue, enum) != pv:
        raise Violation("attribute-read-differs", got=canon(obj.presentValue, enum), want=pv)
    n = obj.ReadProperty('priorityArray', 0)
    if n != 16:
        raise Violation("array-length", got=n)
    slots = [slot_view(obj.ReadProperty('priorityArray', i), fam) for i in range(1, 17)]
    rd = obj.ReadProperty('relinquishDefault')
    return (pv, slots, canon(rd, enum))


def expect(ref, fam):
    enum = fam.get('enum')
    slots = []
    for v in ref.slots:
        slots.append(('null', ()) if v is NULL else (fam['choice'], canon(v, enum)))
    return (canon(ref.present(), enum), slots, canon(ref.default, enum))


def compare(got, want, step, what, **ctx):
    gpv, gslots, grd = got
    wpv, wslots, wrd = want
    for i in range(16):
        if gslots[i] != wslots[i]:
            raise Violation("slot", step=step, after=what, priority=i + 1, got=gslots[i], want=wslots[i], **ctx)
    if gpv != wpv:
        raise Violation("present-value", step=step, after=what, got=gpv, want=wpv,
                        occupied=[i + 1 for i in range(16) if wslots[i][0] != 'null'], **ctx)
    if grd != wrd:
        raise Violation("relinquish-default-changed", step=step, got=grd, want=wrd, **ctx)


def _tags(taglist):
    return [(t.tagClass, t.tagNumber, t.tagLVT, bytes(t.tagData)) for t in taglist.tagList]


def wire_check(obj, ref, fam, step):
    """what a ReadProperty of the whole array puts on the wire: sixteen elements, each an
    application NULL or the value in the tag clause 21 gives the datatype (concrete values
    only; the primitive codecs themselves are C01's subject, used here on both sides)"""
    enum = fam.get('enum')
    want = TagList()
    for v in ref.slots:
        if v is NULL:
            t = Tag()
            Null().encode(t)
            want.append(t)
        elif fam['choice'] == 'datetime':
            want.append(Tag(Tag.openingTagClass, 1))
            for k, x in ((Date, v.date), (Time, v.time)):
                t = Tag()
                k(x).encode(t)
                want.append(t)
            want.append(Tag(Tag.closingTagClass, 1))
        else:
            t = Tag()
            ATOM[fam['choice']](enum[v] if enum else v).encode(t)
            want.append(t)
    got = TagList()
    try:
        obj.ReadProperty('priorityArray').encode(got)
    except Exception as e:
        raise Violation("array-not-encodable", step=step, exc=type(e).__name__, msg=str(e)[:100])
    if _tags(got) != _tags(want):
        raise Violation("array-on-the-wire", step=step, got=_tags(got), want=_tags(want))


def make(cls_name, fam, own_array=False, **kw):
    """own_array: hand the constructor sixteen fresh NULL slots instead of letting it build
    its default array (the library deep-copies a prototype sixteen times, which under
    tracing costs ten times the rest of a path); instances with own_array=False cover the
    default construction"""
    cls = REGISTERED[cls_name]
    if own_array:
        kw['priorityArray'] = PriorityArray([PriorityValue(null=()) for _ in range(16)])
    kw.setdefault('presentValue', fam['default']())
    kw.setdefault('relinquishDefault', fam['default']())
    try:
        kw.setdefault('objectIdentifier', (cls.objectType, 1))
        kw.setdefault('objectName', 'c17')
        return cls(**kw)
    except Exception as e:
        # not one command can be given to an object that cannot be made
        raise Violation("cannot-construct", cls=cls_name, exc=type(e).__name__, msg=str(e)[:100])


# ------------------------------------------------------------------ prio_ops
PRIO_SETS = {
    'p4': [None, 1, 8, 16],
    'p3': [None, 2, 9],
    'p2': [None, 5],
}


def pick_class(d, cls):
    """a class name, or a list of them to share one instance (the engine picks)"""
    if isinstance(cls, list):
        cls = d.pick(cls, 'cls')
        d.note(cls=cls)
    return cls


def draw_priority(d, prios, route):
    if prios is None or isinstance(prios, int):
        return prios                    # a concrete priority: the instance is one slice
    if prios == 'wide':
        # absent, or any integer in [-300, 300]: the library's own comparisons split it
        if route == 'pv' and d.bool('noprio'):
            return None
        return d.int(-300, 300, 'prio')
    if prios == 'hi':
        return d.int(17, 300, 'prio')
    if prios == 'lo':
        return d.int(-300, 0, 'prio')
    seq = PRIO_SETS[prios]
    if route == 'pa':
        seq = [16 if p is None else p for p in seq]     # no "absent" array index
    return d.pick(seq, 'prio')


def draw_value(d, fam, vals):
    """vals: string over '0' '1' '2' (the family's values) and '-' (relinquish).
    NULL (relinquish) or a value of the datatype; Unsigned / Integer classes get a
    symbolic value over the whole 32-bit range whatever digits are named"""
    if 'symint' in fam:
        if '-' in vals and (vals == '-' or d.bool('relinquish')):
            return NULL
        lo, hi = fam['symint']
        return d.int(lo, hi, 'value')
    c = d.pick(vals, 'value')
    if c == '-':
        return NULL
    return fam['values'][int(c)]()


def issue(obj, route, priority, value):
    """one command, the way do_WritePropertyRequest hands it to the object: a NULL arrives
    as the empty tuple.  Returns the exception when the write was refused."""
    v = () if value is NULL else value
    try:
        if route == 'pv':
            obj.WriteProperty('presentValue', v, arrayIndex=None, priority=priority)
        else:
            obj.WriteProperty('priorityArray', v, arrayIndex=priority, priority=None)
    except Exception as e:
        return e
    return None


def step_and_check(obj, ref, fam, state, step, route, priority, value, **ctx):
    """issue one command and hold the outcome against the reference; returns the new
    observed state"""
    err = issue(obj, route, priority, value)
    what = "relinquish" if value is NULL else "write"
    if err is not None:
        after = observe(obj, fam)
        if ref.accepts(priority):
            raise Violation("valid-write-refused", step=step, route=route, priority=priority,
                            exc=type(err).__name__, msg=str(err)[:80], **ctx)
        if after != state:
            raise Violation("refused-write-changed-state", step=step, route=route, priority=priority,
                            before=state, after=after, **ctx)
        return after
    if not ref.accepts(priority):
        raise Violation("bad-priority-accepted", step=step, route=route, priority=priority, **ctx)
    # the library indexed its array with it: exactly one value is left on this path
    ref.command(None if priority is None else index(priority), value)
    after = observe(obj, fam)
    compare(after, expect(ref, fam), step, what, route=route, **ctx)
    return after


@meta(bounds="one instance per class and plan; a plan is a fixed number of commands (every shorter sequence is a "
             "prefix and is checked after each command), each with its own domain [priorities, values, route]; "
             "priorities: wide = absent or a symbolic integer in [-300, 300]; hi / lo = symbolic in [17, 300] / "
             "[-300, 0]; p4 = every one of absent,1,8,16; p3 = absent,2,9; p2 = absent,5; values: each of the "
             "named ones of the class's three datatype values, '-' = relinquish (Unsigned and Integer classes: "
             "a symbolic value over the whole 32-bit range instead); route pv = WriteProperty(presentValue, "
             "priority=p), pa = WriteProperty(priorityArray, arrayIndex=p) with the bare value",
      outside="sequences longer than the plan; other values of the non-integer datatypes; values of a wrong "
              "datatype; writes of the whole priority array; attribute assignment (obj.presentValue = v is the "
              "library's internal direct write, not a command); direct=True; the over-the-wire path",
      stubs=["virtual clock (World): only gives the binary classes' MinOnOffTask a task manager; no time passes "
             "and the minimum on/off times are absent in this harness"],
      assumes=[])
def prio_ops(d, cls, plan, own_array=True):
    cls = pick_class(d, cls)
    fam = FAMILIES[FAMILY_OF[cls]]
    World()
    obj = make(cls, fam, own_array=own_array)
    ref = RefCommandable(fam['default']())
    state = observe(obj, fam)
    compare(state, expect(ref, fam), 0, "construction")
    step = 0
    for prios, vals, route in (PLANS[plan] if isinstance(plan, str) else plan):
        step += 1
        priority = draw_priority(d, prios, route)
        value = draw_value(d, fam, vals)
        state = step_and_check(obj, ref, fam, state, step, route, priority, value)
    if 'symint' not in fam:
        wire_check(obj, ref, fam, step)
    d.reach()


# ------------------------------------------------------------------ long_seq
def lcg(x):
    return (x * 1103515245 + 12345) % 2147483648


@meta(bounds="`seeds` pseudo-random command sequences of `length` commands per class (seed picked by the engine, "
             "the sequence itself concrete): priority uniform over absent and 0..17, value uniform over the "
             "class's three values and relinquish, route pv or pa; full comparison after every command and the "
             "wire image of the array after every 10th",
      outside="other sequences; this harness adds depth (long histories over all sixteen slots), not breadth",
      stubs=["virtual clock (World), no time passes"], assumes=[])
def long_seq(d, cls, length, seeds):
    cls = pick_class(d, cls)
    fam = FAMILIES[FAMILY_OF[cls]]
    World()
    x = 12345 + 7919 * d.index(seeds, 'seed')
    obj = make(cls, fam, own_array=False)
    ref = RefCommandable(fam['default']())
    state = observe(obj, fam)
    compare(state, expect(ref, fam), 0, "construction")
    for step in range(1, length + 1):
        x = lcg(x)
        k = (x // 65536) % 19           # 0..17, 18 = absent
        x = lcg(x)
        v = (x // 65536) % 4
        x = lcg(x)
        route = 'pa' if (x // 65536) % 4 == 0 and k != 18 else 'pv'
        priority = None if k == 18 else k
        value = NULL if v == 3 else fam['values'][v]()
        state = step_and_check(obj, ref, fam, state, step, route, priority, value)
        if step % 10 == 0:
            wire_check(obj, ref, fam, step)
    d.reach()


# ------------------------------------------------------------------ two objects of one class
@meta(bounds="TWO objects of the same commandable class in one process (each with the array the library builds itself): one "
             "command on the first (priority symbolic over absent/1/8/16, first or second value or relinquish), then the second "
             "is constructed - it starts with sixteen empty slots and its default - , one command on the second, then a "
             "second command on the first: after every step both objects are compared in full with their own reference",
      outside="more than two objects; objects of different classes (independent by construction)",
      stubs=["virtual clock (World), no time passes"], assumes=[])
def two_objects(d, cls):
    cls = pick_class(d, cls)
    fam = FAMILIES[FAMILY_OF[cls]]
    World()
    with d.untraced():
        a = make(cls, fam, own_array=False)
    ra = RefCommandable(fam['default']())
    sa = observe(a, fam)
    compare(sa, expect(ra, fam), 0, "construction of the first")
    sa = step_and_check(a, ra, fam, sa, 1, 'pv', d.pick([None, 1, 8, 16], 'priority_a1'), draw_value(d, fam, '01-'))
    with d.untraced():
        b = make(cls, fam, own_array=False, objectIdentifier=(REGISTERED[cls].objectType, 2), objectName='c17b')
    rb = RefCommandable(fam['default']())
    sb = observe(b, fam)
    compare(sb, expect(rb, fam), 2, "construction of the second")
    compare(observe(a, fam), expect(ra, fam), 2, "construction of the second (first object)")
    sb = step_and_check(b, rb, fam, sb, 3, 'pv', d.pick([None, 1, 8, 16], 'priority_b'), draw_value(d, fam, '01-'))
    compare(observe(a, fam), expect(ra, fam), 3, "command on the second (first object)")
    sa = step_and_check(a, ra, fam, observe(a, fam), 4, 'pv', d.pick([None, 1, 8, 16], 'priority_a2'), draw_value(d, fam, '01-'))
    compare(observe(b, fam), expect(rb, fam), 4, "command on the first (second object)")
    d.reach()


# ------------------------------------------------------------------ pa_element_write
@meta(bounds="one earlier command (priority symbolic over 1..16, or each of p3; first value), then one "
             "WriteProperty aimed at priorityArray[i], i symbolic over 1..16, carrying what do_WritePropertyRequest casts out for an "
             "array element: a PriorityValue holding the second value in the datatype's alternative (a NULL is "
             "cast out as the empty tuple: that is route pa of prio_ops); accepted as a command at priority i "
             "or refused without changing anything - both satisfy the statement",
      outside="longer histories; the whole-array write",
      stubs=["virtual clock (World), no time passes"], assumes=[])
def pa_element_write(d, cls, first="wide"):
    cls = pick_class(d, cls)
    fam = FAMILIES[FAMILY_OF[cls]]
    enum = fam.get('enum')
    World()
    obj = make(cls, fam, own_array=True)
    ref = RefCommandable(fam['default']())
    state = observe(obj, fam)
    p0 = d.int(1, 16, 'prio') if first == "wide" else d.pick(PRIO_SETS[first], 'prio')
    state = step_and_check(obj, ref, fam, state, 1, 'pv', p0, fam['values'][0]())
    i = d.int(1, 16, 'index')
    value = fam['values'][1]()
    arg = PriorityValue(**{fam['choice']: enum[value] if enum else value})
    try:
        obj.WriteProperty('priorityArray', arg, arrayIndex=i, priority=None)
        err = None
    except Exception as e:
        err = e
    pa = obj.ReadProperty('priorityArray')
    held = [type(getattr(pa[k], fam['choice'], None)).__name__ for k in range(1, 17)]
    if 'PriorityValue' in held:
        raise Violation("element-write-corrupts-slot", refused=err is not None, index=i,
                        slot_holds='PriorityValue inside PriorityValue.' + fam['choice'])
    after = observe(obj, fam)
    if err is not None:
        # the standard makes Priority_Array read-only: a refusal is fine, but it must be clean
        if after != state:
            raise Violation("refused-write-changed-state", step=2, route='pa-element', priority=i,
                            before=state, after=after)
    else:
        ref.command(index(i), value)
        compare(after, expect(ref, fam), 2, "element-write")
    if 'symint' not in fam:
        wire_check(obj, ref, fam, 2)
    d.reach()


# ------------------------------------------------------------------ minimum on / off time
BINARY = FAMILIES['binary']


def _name(state):
    return 'active' if state else 'inactive'


def expect_binary(ref):
    slots = [('null', ()) if v is NULL else ('enumerated', 1 if v else 0) for v in ref.slots]
    return (1 if ref.present() else 0, slots, 1 if ref.default else 0)


def no_errors(d, **ctx):
    errs = d.errors_logged()
    if errs:
        raise Violation("error-logged-by-event-loop", errors=errs, **ctx)


@meta(bounds="binary output / binary value; minimum on and off times symbolic, independently 0..10 s; the object "
             "starts in the state opposite to the commanded one; the clock is moved to a symbolic instant "
             "0..5 s first; one command of the new state at priority absent / 8 / 1; then the real core.run "
             "until nothing is scheduled",
      outside="times above 10 s; fractional times",
      stubs=["virtual clock (World): real core.run / TaskManager, asyncore.loop replaced by a clock advance"],
      assumes=["processing takes no time"])
def min_hold(d, cls, prio):
    w = World()
    min_on = d.int(0, 10, 'min_on')
    min_off = d.int(0, 10, 'min_off')
    new = d.bool('new_state_active')
    t0 = d.int(0, 5, 't0')
    obj = make(cls, BINARY, own_array=True, presentValue=_name(not new), relinquishDefault=_name(not new),
               minimumOnTime=min_on, minimumOffTime=min_off)
    w.run(duration=t0)
    start = w.clock
    ref = RefCommandable(not new)
    state = observe(obj, BINARY)
    compare(state, expect_binary(ref), 0, "construction")
    err = issue(obj, 'pv', prio, _name(new))
    if err is not None:
        raise Violation("valid-write-refused", priority=prio, exc=type(err).__name__, msg=str(err)[:80])
    want = min_on if new else min_off
    other = min_off if new else min_on
    ctx = dict(new_state=_name(new), min_on=min_on, min_off=min_off)
    w.settle()                          # whatever is due at this very instant (a hold of 0 s may end here)
    at_once = observe(obj, BINARY)
    w.run()                             # until nothing is scheduled any more
    held_for = w.clock - start          # the only task there can be is the release of slot 6
    no_errors(d, **ctx)
    got = observe(obj, BINARY)
    if got[1][5] != ('null', ()):
        raise Violation("slot-6-never-released", **ctx)
    if held_for != want:
        raise Violation("min-on-off-swapped" if held_for == other else "min-hold-time", held_for=held_for, **ctx)
    ref.command(prio, new)
    if want > 0:
        ref.command(6, new)
    compare(at_once, expect_binary(ref), 1, "command", **ctx)
    ref.command(6, NULL)
    compare(got, expect_binary(ref), 2, "release", **ctx)
    d.reach()


MIN_PRIOS = {'m3': [None, 8, 3], 'm2': [None, 3], 'm4': [None, 8, 3, 7]}


@meta(bounds="binary output / binary value; minimum on and off times symbolic, independently 0..10 s; initial "
             "state symbolic; n rounds of (one command: priority each of the set - m2 = absent,3; m3 = absent,8,3; "
             "m4 = absent,8,3,7; the first command's priority / value may be fixed: the instance is then one "
             "slice - value active / inactive / relinquish; then the clock advances by a symbolic whole "
             "number of seconds 0..12 through the real core.run); full comparison with the clause 19.2.3 "
             "reference after every command and after every advance; finally core.run until idle: the last "
             "release happens at exactly the instant the reference computes and slot 6 ends up empty",
      outside="commands at priority 6 itself; times above 10 s and advances above 12 s; fractional instants; "
              "the case 'state changed by a priority 1..5 command while a hold is pending and the new state's "
              "minimum time is 0' (the statement does not say whether the pending hold is dropped)",
      stubs=["virtual clock (World): real core.run / TaskManager, asyncore.loop replaced by a clock advance"],
      assumes=["processing takes no time", "no state change with minimum time 0 while a hold is pending"])
def min_on_off(d, cls, n, prios, first=None):
    w = World()
    min_on = d.int(0, 10, 'min_on')
    min_off = d.int(0, 10, 'min_off')
    s0 = d.bool('initially_active')
    obj = make(cls, BINARY, own_array=True, presentValue=_name(s0), relinquishDefault=_name(s0),
               minimumOnTime=min_on, minimumOffTime=min_off)
    ref = RefMinOnOff(s0, min_on, min_off, now=0)
    ctx = dict(min_on=min_on, min_off=min_off)
    compare(observe(obj, BINARY), expect_binary(ref), 0, "construction")
    for step in range(1, n + 1):
        if step == 1 and first is not None:         # this instance is one slice of the tree
            priority = first[0]
            c = first[1] if first[1] is not None else d.pick('10-', 'value')
        else:
            priority = d.pick(MIN_PRIOS[prios], 'prio')
            c = d.pick('10-', 'value')
        value = NULL if c == '-' else (c == '1')
        ref.command_at_now(priority, value)
        d.assume(not ref.ambiguous)
        err = issue(obj, 'pv', priority, () if value is NULL else _name(value))
        if err is not None:
            raise Violation("valid-write-refused", step=step, priority=priority, exc=type(err).__name__,
                            msg=str(err)[:80])
        w.settle()                      # whatever is due at this very instant, no time passes
        compare(observe(obj, BINARY), expect_binary(ref), step, "command", at=ref.now, **ctx)
        dt = d.int(0, 12, 'dt')
        w.run(duration=dt)
        ref.advance(dt)
        compare(observe(obj, BINARY), expect_binary(ref), step, "advance", at=ref.now,
                last_change=ref.changes[-1:], **ctx)
    w.run()
    last = ref.run_out()
    no_errors(d, **ctx)
    if last is not None and w.clock != last:
        raise Violation("last-release-instant", got=w.clock, want=last, last_change=ref.changes[-1:], **ctx)
    compare(observe(obj, BINARY), expect_binary(ref), n + 1, "idle", last_change=ref.changes[-1:], **ctx)
    d.reach()


# ------------------------------------------------------------------ instances
P3 = ["p3", "01-", "pv"]
PLANS = {
    # every priority once, on the array the constructor builds by default
    'wide1': [["wide", "012-", "pv"]],
    'wide1pa': [["wide", "01-", "pa"]],
    # one occupied slot (absent / 1 / 8 / 16), then any priority
    'occ+wide': [["p4", "0", "pv"], ["wide", "1-", "pv"]],
    # write, write-or-relinquish, write-or-relinquish over three slots, then a refused write
    'deep3': [["p3", "01", "pv"], P3, ["p3", "0-", "pv"], ["hi", "0", "pv"]],
    # thorough
    'wide2': [["wide", "01-", "pv"], ["wide", "01-", "pv"]],
    'deep3x': [["p4", "012-", "pv"]] * 3 + [["hi", "0", "pv"]],
    'deep3y': [["p4", "01-", "pv"]] * 3 + [["hi", "0", "pv"]],
    'deep2pa': [["p3", "01-", "pa"], ["p3", "01-", "pa"], ["lo", "0", "pa"]],
}
DATETIME = ['DateTimeValueCmdObject', 'DateTimePatternValueCmdObject']
# thorough: these get the three-value plan deep3x, the other twelve the two-value deep3y
THREE_VALUES = ['AnalogValueCmdObject', 'BinaryOutputCmdObject', 'MultiStateOutputCmdObject',
                'IntegerValueCmdObject', 'CharacterStringValueCmdObject', 'DateValueCmdObject',
                'DateTimeValueCmdObject', 'AccessDoorCmdObject']


def _groups(names, k):
    return [names[i:i + k] for i in range(0, len(names), k)]


def _short(classes):
    return "+".join(c.replace('CmdObject', '') for c in classes)


def instances(tier):
    """measured on the repaired tree, one core, machine under load (paths / CPU s per instance):
    quick     wide1 x4 classes 250-320 / 17-20; occ+wide x3 classes 480-970 / 15-26; deep3 324-387 / 12-20;
              long_seq 12 / 9; pa_element_write 48-144 / 2-5; min_hold 8 / 0.3; min_on_off 322-366 / 11-17;
              whole tier 42 instances, about 10300 paths, 480 CPU s
    thorough  deep3x 4096 / 120-190 (integer classes 1460 / 40); deep3y 1728 / 50-77; wide2 2979-3600 / 70-130;
              deep4 slice 1460-2187 / 50-90; deep5 slice 1092-2275 / 31-69; wide3 slice 1600 / 47;
              long_seq 48 / 27-51; pa_element_write 256 / 5-10; min_on_off n=2 m4 slice 574-706 / 18-30,
              n=3 m2 slice 1376-2425 / 59-126; whole tier 132 instances, about 190000 paths, 6400 CPU s
    """
    q = tier == "quick"
    out = []
    every = [c for c, _ in CLASSES]
    plain = [c for c in every if c not in DATETIME]
    rep = [c for c in REPRESENTATIVE if c not in DATETIME]

    def ops(classes, plan, budget, own_array=True, tag=None):
        params = dict(cls=classes if len(classes) > 1 else classes[0], plan=plan)
        if not own_array:
            params['own_array'] = False
        out.append(Inst(prio_ops, params, budget=budget, label="%s,%s" % (tag or plan, _short(classes))))

    # the two DateTime classes always get instances of their own: while they cannot be
    # constructed the search of an instance ends at that first violation
    if q:
        for g in _groups(plain, 4) + [DATETIME]:
            ops(g, 'wide1', 120, own_array=False)
        for g in _groups(rep, 3) + [DATETIME[:1]]:
            ops(g, 'occ+wide', 120)
        for c in rep + DATETIME[:1]:
            ops([c], 'deep3', 120)
        ops(['AnalogValueCmdObject', 'BinaryValueCmdObject'], 'wide1pa', 60)
        for g in _groups(plain, 6) + [DATETIME]:
            out.append(Inst(long_seq, dict(cls=g, length=100, seeds=2), budget=120, label="100x2," + _short(g)))
        for g in (['AnalogValueCmdObject', 'MultiStateValueCmdObject', 'CharacterStringValueCmdObject'],
                  ['BinaryOutputCmdObject', 'AccessDoorCmdObject'], DATETIME[:1]):
            out.append(Inst(pa_element_write, dict(cls=g, first='p3'), budget=60, label=_short(g)))
    else:
        for g in _groups(plain, 2) + [DATETIME]:
            ops(g, 'wide1', 300, own_array=False)
        for c in every:
            ops([c], 'deep3x' if c in THREE_VALUES else 'deep3y', 600)
        for c in REPRESENTATIVE:
            if c != 'BinaryValueCmdObject':
                ops([c], 'wide2', 600)
            ops([c], 'deep2pa', 300)
        ops(plain[:9], 'wide1pa', 300)
        ops(plain[9:], 'wide1pa', 300)
        for c in ['AnalogValueCmdObject', 'BinaryValueCmdObject', 'MultiStateValueCmdObject']:
            for lead in PRIO_SETS['p3']:
                ops([c], [[lead, "01-", "pv"]] + [P3] * 3 + [["hi", "0", "pv"]], 600, tag="deep4/first=%s" % lead)
        for c in ['AnalogOutputCmdObject', 'BinaryOutputCmdObject', 'PositiveIntegerValueCmdObject']:
            for lead in PRIO_SETS['p2']:
                for v in ("0-" if 'symint' in FAMILIES[FAMILY_OF[c]] else "01-"):
                    ops([c], [[lead, v, "pv"]] + [["p2", "01-", "pv"]] * 4, 600,
                        tag="deep5/first=%s%s" % (lead, v))
        for c in ['LightingOutputCmdObject']:
            for lead in PRIO_SETS['p4']:
                ops([c], [[lead, "0", "pv"], ["wide", "1-", "pv"], ["wide", "0-", "pv"]], 600,
                    tag="wide3/first=%s" % lead)
        for g in _groups(plain, 3) + [DATETIME]:
            out.append(Inst(long_seq, dict(cls=g, length=100, seeds=16), budget=300, label="100x16," + _short(g)))
        for c in REPRESENTATIVE:
            out.append(Inst(pa_element_write, dict(cls=c, first='wide'), budget=300, label=_short([c])))

    # minimum on / off time
    for c in ('BinaryOutputCmdObject', 'BinaryValueCmdObject'):
        for p in (None, 8, 1):
            out.append(Inst(min_hold, dict(cls=c, prio=p), budget=60))
        if q:
            for p in MIN_PRIOS['m2']:
                out.append(Inst(min_on_off, dict(cls=c, n=2, prios='m2', first=[p, None]), budget=120,
                                label="%s,n=2,m2,first=%s" % (_short([c]), p)))
        else:
            for p in MIN_PRIOS['m4']:
                out.append(Inst(min_on_off, dict(cls=c, n=2, prios='m4', first=[p, None]), budget=600,
                                label="%s,n=2,m4,first=%s" % (_short([c]), p)))
            for p in MIN_PRIOS['m2']:
                for v in '10-':
                    out.append(Inst(min_on_off, dict(cls=c, n=3, prios='m2', first=[p, v]), budget=900,
                                    label="%s,n=3,m2,first=%s%s" % (_short([c]), p, v)))
    return out


# ------------------------------------------------------------------ commands as WriteProperty requests over the wire
from ..world import World as _World                                            # noqa: E402
from .. import netlab as _nl                                                   # noqa: E402
from bacpypes.service.object import ReadWritePropertyServices as _RWServices   # noqa: E402
from bacpypes.apdu import (WritePropertyRequest as _WPR, ReadPropertyRequest as _RPR,      # noqa: E402
                           ReadPropertyACK as _RPACK, SimpleAckPDU as _SimpleAck)
from bacpypes.constructeddata import Any as _Any                               # noqa: E402
from bacpypes.primitivedata import Null as _Null                               # noqa: E402


class _WireDevice(_nl.AppStack, _RWServices):
    pass


from bacpypes.basetypes import BinaryPV as _BinaryPV                           # noqa: E402

WIRE_FAMILIES = {
    'AnalogValueCmdObject': (Real, [1.5, 0.0, 72.5]),
    'MultiStateValueCmdObject': (Unsigned, [1, 2, 0]),
    'BinaryValueCmdObject': (_BinaryPV, ['active', 'inactive']),
    'CharacterStringValueCmdObject': (CharacterString, ['', 'a']),
}


@meta(bounds="a device stack holding one commandable object and a client stack; n WriteProperty requests for presentValue over "
             "the wire, each with priority from {absent, 1, 8, 16, 0, 17} (0 and 17 must be refused) and a value from the class's "
             "set or Null (relinquish) - in quick the earlier commands of a sequence are values at an absent or middle priority; "
             "after every request presentValue and the whole priority array are read back with ReadProperty requests; the "
             "priority array is sixteen fresh slots handed to the constructor, or (default-array instances) the one the "
             "library builds itself",
      outside="more than n commands per sequence; classes other than the four instantiated (the object level covers all 20)",
      stubs=["virtual clock (task._time)", "asyncore.loop -> clock advance", "task._Trigger -> wake flag", "fresh singletons per path"])
def prio_wire(d, cls, n, full=False, own_array=True):
    w = _World()
    lan = _nl.FaultLAN([], world=w)
    server = _WireDevice(_nl.make_device("s", 20), lan)
    client = _nl.AppStack(_nl.make_device("c", 10), lan)
    fam = FAMILIES[FAMILY_OF[cls]]
    if own_array:
        obj = make(cls, fam, own_array=True)
    else:
        # the library's own default priority array (ArrayOf.fix_length copies a prototype sixteen times); nothing
        # symbolic takes part in the construction, so it runs untraced
        with d.untraced():
            obj = make(cls, fam, own_array=False)
    server.add_object(obj)
    objid = obj.objectIdentifier
    atom, values = WIRE_FAMILIES[cls]
    ref = RefCommandable(fam['default']())

    def ask(apdu):
        n0 = len(client.confirmations)
        apdu.pduDestination = server.address
        client.request(apdu)
        w.run()
        if len(client.confirmations) != n0 + 1:
            raise Violation("wire-no-single-reply", n=len(client.confirmations) - n0)
        return client.confirmations[-1]

    def read(prop, index=None):
        r = ask(_RPR(objectIdentifier=objid, propertyIdentifier=prop, propertyArrayIndex=index))
        if not isinstance(r, _RPACK):
            raise Violation("wire-read-refused", prop=prop, index=index, got=type(r).__name__)
        return r.propertyValue

    for step in range(n):
        if step < n - 1 and not full:
            # the earlier commands only set the scene: a value at an absent or middle priority
            prio = d.pick([None, 8], 'priority%d' % step)
            relinquish = False
        else:
            prio = d.pick([None, 1, 8, 16, 0, 17], 'priority%d' % step)
            relinquish = d.bool('relinquish%d' % step)
        value = NULL if relinquish else d.pick(values[:2], 'value%d' % step)
        req = _WPR(objectIdentifier=objid, propertyIdentifier='presentValue')
        req.propertyValue = _Any()
        if relinquish:
            req.propertyValue.cast_in(_Null())
        else:
            req.propertyValue.cast_in(atom(value))
        if prio is not None:
            req.priority = prio
        reply = ask(req)
        accepted = ref.accepts(prio)
        if accepted:
            if not isinstance(reply, _SimpleAck):
                raise Violation("wire-command-refused", step=step, priority=prio, relinquish=relinquish,
                                got=type(reply).__name__, reason=getattr(reply, 'apduAbortRejectReason', None))
            ref.command(prio, NULL if relinquish else value)
        elif isinstance(reply, _SimpleAck):
            raise Violation("wire-out-of-range-priority-acked", step=step, priority=prio)
        # read back over the wire
        pv = read('presentValue')
        got_pv = canon(pv.cast_out(atom), fam.get('enum'))
        want_pv = canon(ref.present(), fam.get('enum'))
        if got_pv != want_pv:
            raise Violation("wire-present-value", step=step, got=got_pv, want=want_pv, priority=prio, relinquish=relinquish)
        arr = read('priorityArray').cast_out(PriorityArray)
        if len(arr) != 16:
            raise Violation("wire-array-length", got=len(arr))
        for i in range(16):
            name, val = slot_view(arr[i + 1], fam)
            want = ref.slots[i]
            if want is NULL:
                if name != 'null':
                    raise Violation("wire-slot", step=step, slot=i + 1, got=(name, val), want='null')
            elif name == 'null' or val != canon(want, fam.get('enum')):
                raise Violation("wire-slot", step=step, slot=i + 1, got=(name, val), want=want)
    d.reach()


_c17_instances = instances


def instances(tier):
    out = _c17_instances(tier)
    q = tier == "quick"
    for cls in (['AnalogValueCmdObject', 'BinaryValueCmdObject'] if q else list(WIRE_FAMILIES)):
        out.append(Inst(prio_wire, dict(cls=cls, n=2, full=not q), budget=150 if q else 900, path_timeout=120))
    for cls in (['AnalogValueCmdObject', 'BinaryOutputCmdObject'] if q else sorted(REGISTERED)):
        out.append(Inst(two_objects, dict(cls=cls), budget=150 if q else 600, path_timeout=120))
    out.append(Inst(prio_wire, dict(cls='AnalogValueCmdObject', n=2, full=not q, own_array=False), budget=300 if q else 900,
                    path_timeout=120, label="AnalogValueCmdObject,default-array"))
    if not q:
        out.append(Inst(prio_wire, dict(cls='AnalogValueCmdObject', n=3, full=False), budget=900, path_timeout=120))
    return out
