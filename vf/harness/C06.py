"""C06 - routers deliver each packet once to exactly the addressed stations."""
from ..api import Inst, Violation, meta
from ..world import World
from ..ref import wire

from bacpypes.comm import bind, Client
from bacpypes.pdu import (Address, LocalBroadcast, LocalStation, RemoteStation, RemoteBroadcast,
                          GlobalBroadcast, PDU)
from bacpypes.vlan import Network, Node
from bacpypes.netservice import NetworkServiceAccessPoint, NetworkServiceElement
from bacpypes.apdu import UnconfirmedRequestPDU

STUBS = ["virtual clock (task._time)", "asyncore.loop -> clock advance", "task._Trigger -> wake flag",
         "fresh singletons per path"]


class _NSE(NetworkServiceElement):
    _startup_disabled = True


class LogNet(Network):
    def __init__(self, net):
        Network.__init__(self, name="net%d" % net, broadcast_address=LocalBroadcast())
        self.net = net
        self.frames = []        # (source, destination, octets)

    def process_pdu(self, pdu):
        self.frames.append((pdu.pduSource, pdu.pduDestination, bytes(pdu.pduData)))
        Network.process_pdu(self, pdu)


class Station(Client):
    """network layer of one station with a capture of what it hands to the layer above"""

    def __init__(self, net, stn, lan, knows_net):
        Client.__init__(self)
        self.net, self.stn = net, stn
        self.addr = Address(stn)
        self.nsap = NetworkServiceAccessPoint()
        self.nse = _NSE()
        bind(self.nse, self.nsap)
        bind(self, self.nsap)
        self.node = Node(self.addr, lan)
        if knows_net:
            self.nsap.bind(self.node, net, self.addr)
        else:
            self.nsap.bind(self.node)
        self.got = []

    def confirmation(self, apdu):
        self.got.append(apdu)

    def send(self, dest, payload, service=8):
        pdu = UnconfirmedRequestPDU(service)
        pdu.put_data(payload)
        pdu.pduDestination = dest
        self.request(pdu)


class Router:
    def __init__(self, ports, lans, stn):
        self.nsap = NetworkServiceAccessPoint()
        self.nse = _NSE()
        bind(self.nse, self.nsap)
        self.ports = list(ports)
        for net in ports:
            a = Address(stn)
            self.nsap.bind(Node(a, lans[net]), net, a)


# topologies: networks (each with 2 stations, numbers 1 and 2) and routers given by their ports; all loop-free
TOPO = {
    "pair": dict(nets=[1, 2], routers=[[1, 2]]),
    "line3": dict(nets=[1, 2, 3], routers=[[1, 2], [2, 3]]),
    "star3": dict(nets=[1, 2, 3], routers=[[1, 2, 3]]),
    "line4": dict(nets=[1, 2, 3, 4], routers=[[1, 2], [2, 3], [3, 4]]),
    "star4": dict(nets=[1, 2, 3, 4], routers=[[1, 2, 3, 4]]),
    "tree5": dict(nets=[1, 2, 3, 4, 5], routers=[[1, 2, 3], [3, 4], [3, 5]]),
    "line5": dict(nets=[1, 2, 3, 4, 5], routers=[[1, 2], [2, 3], [3, 4], [4, 5]]),
}


def distances(topo, src):
    """router hops from network src to every network (reference breadth-first search)"""
    dist = {src: 0}
    frontier = [src]
    while frontier:
        nxt = []
        for n in frontier:
            for ports in topo["routers"]:
                if n in ports:
                    for m in ports:
                        if m not in dist:
                            dist[m] = dist[n] + 1
                            nxt.append(m)
        frontier = nxt
    return dist


def on_path(topo, src, dst):
    """networks a packet from src to dst travels over: the shortest chain of networks in which
    neighbours share a router (unique when the network/router graph is loop-free)"""
    parent = {src: None}
    frontier = [src]
    while frontier and dst not in parent:
        nxt = []
        for n in frontier:
            for ports in topo["routers"]:
                if n in ports:
                    for m in ports:
                        if m not in parent:
                            parent[m] = n
                            nxt.append(m)
        frontier = nxt
    path = []
    n = dst
    while n is not None:
        path.append(n)
        n = parent[n]
    return list(reversed(path))


def build(topo, knows_net):
    lans = {n: LogNet(n) for n in topo["nets"]}
    stations = {}
    for n in topo["nets"]:
        for k in (1, 2):
            stations[(n, k)] = Station(n, k, lans[n], knows_net)
    routers = [Router(ports, lans, 10 + i) for i, ports in enumerate(topo["routers"])]
    return lans, stations, routers


@meta(bounds="the instance's loop-free topology (2 stations per network, routers of 2..4 ports) built concretely; source station, "
             "destination kind (unicast / local broadcast / remote broadcast / global broadcast), destination network and "
             "station symbolic; router caches cold or warmed by the routers' own startup announcements (per instance); stations "
             "that do / do not know their network number, or learn it from the routers' Network-Number-Is (per instance); "
             "history=True: an earlier unicast between station 1 of a symbolic pair of networks leaves the caches partly "
             "warm, then station 2 of a symbolic network sends a unicast or remote broadcast; ends=True: only traffic between "
             "the two ends of the topology; a station that knows its network number addresses its own network either in "
             "the local form or by that number (symbolic); payload of 3 symbolic octets",
      outside="topologies other than the six instantiated (random trees of up to 8 networks), more than 2 stations per network, "
              "route-aware addressing (settings.route_aware)",
      stubs=STUBS)
def route_scn(d, topo, warm, knows_net, announce=False, history=False, ends=False):
    T = TOPO[topo]
    w = World()
    lans, stations, routers = build(T, knows_net)
    if warm:
        for r in routers:
            r.nse.startup()
        w.run()
    if announce == "ask":
        # every station that does not know its network number asks (What-Is-Network-Number); the routers answer
        for x in stations.values():
            x.nse.what_is_network_number()
        w.run()
    elif announce:
        # the routers tell every network its number (Network-Number-Is): stations bound without one learn it
        for r in routers:
            r.nse.network_number_is()
        w.run()
    if history:
        # an earlier exchange leaves the caches PARTLY warm: station 1 of a symbolic network wrote to station 1 of
        # another; who knows which path depends on where the discovery went
        nets_ = T["nets"]
        pairs = [(a, b) for a in nets_ for b in nets_ if a != b]
        a, b = d.pick(pairs, 'earlier_exchange')
        stations[(a, 1)].send(RemoteStation(b, 1), bytes([0xEE, a, b]))
        w.run()
        if len(stations[(b, 1)].got) != 1:
            raise Violation("delivery-count", station=(b, 1), got=len(stations[(b, 1)].got), want=1, kind="earlier-unicast",
                            source=(a, 1), topo=topo)
    for x in stations.values():
        x.got = []
    for lan in lans.values():
        lan.frames = []
    keys = sorted(stations)
    if history:
        src = d.pick([k for k in keys if k[1] == 2], 'source')
        kind = d.pick(["unicast", "remote-broadcast"], 'kind')
    elif ends:
        # only the two ends of the topology: the longest paths, every router on the way starts cold
        src = d.pick([k for k in keys if k[0] in (T["nets"][0], T["nets"][-1])], 'source')
        kind = d.pick(["unicast", "remote-broadcast"], 'kind')
    else:
        src = d.pick(keys, 'source')
        kind = d.pick(["unicast", "local-broadcast", "remote-broadcast", "global-broadcast"], 'kind')
    sn, sk = src
    far = T["nets"][-1] if sn == T["nets"][0] else T["nets"][0]
    payload = d.bytes(3, 3, 'payload')
    # a station that knows its network number may address its own network by that number
    by_number = bool(knows_net and not history and not ends and d.bool('own_network_by_number'))
    if kind == "unicast":
        dst = d.pick([k for k in keys if k != src and (not history or (k[1] == 1 and k[0] != sn))
                      and (not ends or k[0] == far)], 'destination')
        dn, dk = dst
        dest = (RemoteStation(dn, dk) if by_number else LocalStation(dk)) if dn == sn else RemoteStation(dn, dk)
        expect = {dst}
        path = on_path(T, sn, dn)
    elif kind == "local-broadcast":
        dest = RemoteBroadcast(sn) if by_number else LocalBroadcast()
        expect = {k for k in keys if k[0] == sn and k != src}
        path = [sn]
    elif kind == "remote-broadcast":
        dn = far if ends else d.pick([n for n in T["nets"] if n != sn], 'dnet')
        dest = RemoteBroadcast(dn)
        expect = {k for k in keys if k[0] == dn}
        path = on_path(T, sn, dn)
    else:
        dest = GlobalBroadcast()
        expect = {k for k in keys if k != src}
        path = list(T["nets"])
    stations[src].send(dest, payload)
    w.run()

    # exactly the addressed stations, each exactly once, payload intact
    for k in keys:
        n = len(stations[k].got)
        want = 1 if k in expect else 0
        if n != want:
            raise Violation("delivery-count", station=k, got=n, want=want, kind=kind, source=src, topo=topo)
        for apdu in stations[k].got:
            if bytes(apdu.pduData) != bytes(payload) or apdu.apduService != 8:
                raise Violation("payload-altered", station=k)
    # on the wire: one frame with the payload on each network of the path and on no other, hop count = 255 - router hops
    dist = distances(T, sn)
    for n, lan in lans.items():
        carrying = []
        for (s, dd, data) in lan.frames:
            np_ = wire.parse_npdu(data)
            if not np_["net_msg"] and bytes(np_["payload"][2:]) == bytes(payload):
                carrying.append(np_)
        want = 1 if n in path else 0
        if len(carrying) != want:
            raise Violation("frames-on-network", net=n, got=len(carrying), want=want, kind=kind, source=src, topo=topo)
        for np_ in carrying:
            if np_["hops"] is not None and np_["hops"] != 255 - dist[n]:
                raise Violation("hop-count", net=n, hops=np_["hops"], want=255 - dist[n])
            if dist[n] > 0 and np_["snet"] != sn and knows_net:
                raise Violation("source-network-on-wire", net=n, snet=np_["snet"], want=sn)
    # the source shown to each recipient leads a reply back to the originator and to nobody else
    shown_to = {k: stations[k].got[0].pduSource for k in sorted(expect)}
    for k in sorted(expect):
        shown = shown_to[k]
        for x in stations.values():
            x.got = []
        reply = bytes([0xA5, k[0], k[1]])
        stations[k].send(shown, reply)
        w.run()
        for k2 in keys:
            n = len(stations[k2].got)
            want = 1 if k2 == src else 0
            if n != want:
                raise Violation("reply-not-routable", replier=k, shown=str(shown), station=k2, got=n, want=want,
                                kind=kind, source=src, topo=topo)
        if bytes(stations[src].got[0].pduData) != reply:
            raise Violation("reply-altered")
    d.reach()


@meta(bounds="three networks joined in a triangle by three two-port routers (a cycle); one global or remote broadcast injected "
             "on network 1 by a raw station with a symbolic hop count 0..hmax",
      outside="hop counts above hmax (each forward lowers the count by one: route_scn checks 255 - hops on every leg); "
              "larger cycles; termination of the routing-protocol chatter (Who-Is/I-Am-Router-To-Network are re-originated "
              "by every router without a hop count and circulate without end in a cyclic topology - observed, not part of "
              "the statement, which is about forwarded packets)",
      stubs=STUBS)
def route_cycle(d, hmax, remote):
    w = World()
    T = dict(nets=[1, 2, 3], routers=[[1, 2], [2, 3], [3, 1]])
    lans, stations, routers = build(T, True)
    h = d.int(0, hmax, 'hop_count')
    payload = bytes([0x10, 0x08, 0x77])
    raw = Node(Address(99), lans[1])
    top = Client()
    bind(top, raw)
    top.confirmation = lambda pdu: None
    if remote:
        hdr = bytes([0x01, 0x20, 0x00, 0x03, 0x00, h])        # DNET 3 broadcast
    else:
        hdr = bytes([0x01, 0x20, 0xFF, 0xFF, 0x00, h])        # global broadcast
    top.request(PDU(hdr + payload, destination=LocalBroadcast()))
    if remote:
        # path discovery in a cyclic topology sets off I-Am-Router-To-Network announcements that every
        # router re-originates (they carry no hop count): that chatter is outside the statement, which
        # speaks of forwarded packets; run a bounded number of loop iterations and look at data frames
        w.run(duration=60.0, max_loops=400)
    else:
        w.run(duration=60.0)
        if not w.idle():
            raise Violation("does-not-quiesce")
    total = 0
    for n, lan in lans.items():
        for (s, dd, data) in lan.frames:
            np_ = wire.parse_npdu(data)
            if np_["net_msg"]:
                continue
            total += 1
            if np_["hops"] is not None and np_["hops"] > h:
                raise Violation("hop-count-not-decreasing", hops=np_["hops"], injected=h)
    # two copies circulate in opposite directions and each dies with its hop count
    if total > 1 + 2 * h:
        raise Violation("too-many-frames", total=total, hop_count=h)
    if not remote:
        for k, x in stations.items():
            if h == 0 and k[0] != 1 and x.got:
                raise Violation("forwarded-with-exhausted-hop-count", station=k)
    d.note(frames=total, hop_count=h)
    d.reach()


def _raw(lan, stn):
    node = Node(Address(stn), lan)
    top = Client()
    bind(top, node)
    top.got = []
    top.confirmation = lambda pdu: top.got.append(pdu)
    return top


CACHES = {
    # what the router knows about networks 20 and 21 beyond its own ports; "o1"/"o2" = the first / second port other than
    # the arrival port (a conforming station sends a packet to a router only for networks that router offered on the
    # station's network, and a router never offers a path that leads back: the arrival port is therefore not among them)
    "empty": {},
    "20-via-o1": {20: ("o1", 50)},
    "20-via-o2,21-via-o1": {20: ("o2", 50), 21: ("o1", 51)},
    "20,21-same-router": {20: ("o1", 50), 21: ("o1", 50)},
}


@meta(bounds="ONE forwarding step of a real three-port router (networks 1, 2, 3) from a chosen state of its routing cache: "
             "an arbitrary application-layer NPDU built octet by octet - priority and expecting-reply bits, no DADR / remote "
             "station / remote broadcast / global broadcast, destination network in {arrival network, another port, known via "
             "a neighbour router, unknown}, 1-octet destination MAC, no SADR / SADR of an unknown remote network / SADR "
             "claiming a directly connected network, hop count 0..255 - all symbolic, arrives on a symbolic port from station "
             "99; every frame the router then puts on its three networks is parsed by the independent decoder and compared "
             "with the forwarding rule of clause 6.5: nothing onto the arrival network, nothing with hop count 0, one copy on "
             "exactly the right port(s) addressed to the right MAC, hop count lowered by one, DNET/DADR dropped on the last "
             "leg, SNET/SADR supplied on the first hop and preserved afterwards, priority/expecting-reply/payload untouched; "
             "then a reply toward the shown SADR network, arriving on another port, must go to station 99 on the first port",
      outside="network-layer messages carrying a DADR; MAC addresses longer than one octet; packets addressed to the router "
              "itself (its own application); "
              "cache states in which the destination is reached through the arrival port (not reachable when every router "
              "offers only paths that lead away from the asking network, checked by route_scn)",
      assumes=["the destination is not reached through the arrival port (see 'outside')", "destination MAC != the router's"],
      stubs=STUBS)
def route_step(d, cache):
    w = World()
    lans = {n: LogNet(n) for n in (1, 2, 3)}
    # the router has another MAC on each of its networks (MACs are unique per LAN only): 11, 12, 13
    r = Router([], lans, 0)
    for net in (1, 2, 3):
        r.nsap.bind(Node(Address(10 + net), lans[net]), net, Address(10 + net))
    a = d.pick([1, 2, 3], 'arrival_port')
    others = [n for n in (1, 2, 3) if n != a]
    via = {}
    for dnet, (o, mac) in CACHES[cache].items():
        snet = others[0] if o == "o1" else others[1]
        via[dnet] = (snet, mac)
        r.nsap.update_router_references(snet, Address(mac), [dnet])
    src = _raw(lans[a], 99)
    sinks = {n: _raw(lans[n], 77) for n in (1, 2, 3)}

    prio = d.int(0, 3, 'priority')
    der = d.bool('expecting_reply')
    dk = d.pick(["none", "station", "remote-broadcast", "global"], 'dadr_kind')
    sk = d.pick(["none", "remote", "spoof"], 'sadr_kind')
    hop = d.int(0, 255, 'hop_count')
    body = bytes([0x10, 0x08]) + bytes(d.bytes(1, 1, 'payload'))
    control = prio + (4 if der else 0)
    hdr = b""
    dnet = dmac = None
    if dk != "none":
        control += 0x20
        if dk == "global":
            dnet = 0xFFFF
            hdr += bytes([0xFF, 0xFF, 0])
        else:
            dnet = d.pick([a, others[0], others[1], 20, 21, 22], 'dnet')
            if dk == "station":
                dmac = d.int(1, 254, 'dmac')
                # a packet addressed to the router itself (its MAC on the destination network) is for its own application,
                # which this step does not model; the router's MAC on ANOTHER network is an ordinary station address here
                d.assume(not (dnet in (1, 2, 3) and dmac == 10 + dnet))
                hdr += bytes([dnet >> 8, dnet & 255, 1, dmac])
            else:
                hdr += bytes([dnet >> 8, dnet & 255, 0])
    snet = smac = None
    if sk != "none":
        control += 0x08
        snet = 30 if sk == "remote" else d.pick([1, 2, 3], 'spoofed_snet')
        smac = d.int(1, 254, 'smac')
        hdr += bytes([snet >> 8, snet & 255, 1, smac])
    if dk != "none":
        hdr += bytes([hop])
    frame = bytes([1, control]) + hdr + body
    dest = d.pick(["to-router", "broadcast"], 'mac_destination')
    src.request(PDU(frame, destination=Address(10 + a) if dest == "to-router" else LocalBroadcast()))
    w.run()

    # reference forwarding rule
    want = {}       # port -> (mac destination or None for broadcast, expected header fields)
    shown_snet, shown_smac = (snet, smac) if sk == "remote" else (a, 99)
    if sk == "spoof" or dk == "none" or dnet == a:
        pass
    elif dk == "global":
        for n in others:
            want[n] = (None, 0xFFFF, b"")
    elif dnet in (1, 2, 3):
        want[dnet] = (dmac, None, None)
    elif dnet in via:
        want[via[dnet][0]] = (via[dnet][1], dnet, bytes([dmac]) if dk == "station" else b"")
    for n in (1, 2, 3):
        data_frames = []
        for (s_, dd, data) in lans[n].frames:
            if s_ == Address(99) and n == a:
                continue
            np_ = wire.parse_npdu(data)
            if np_["net_msg"]:
                if n == a:
                    raise Violation("step-emits-on-arrival-network", net=n, msg_type=np_["msg_type"], dadr_kind=dk, sadr_kind=sk)
                continue
            data_frames.append((dd, np_))
        expected = 1 if (n in want and hop > 0) else 0
        if len(data_frames) != expected:
            raise Violation("step-frames-on-port", port=n, arrival=a, got=len(data_frames), want=expected, dadr_kind=dk,
                            sadr_kind=sk, dnet=dnet, hop_is_zero=bool(hop == 0), cache=cache)
        for dd, np_ in data_frames:
            mac, wdnet, wdadr = want[n]
            if mac is None:
                if dd.addrType != Address.localBroadcastAddr:
                    raise Violation("step-mac-destination", port=n, got=str(dd), want="broadcast")
            elif dd != Address(mac):
                raise Violation("step-mac-destination", port=n, got=str(dd), want=mac)
            if np_["dnet"] != wdnet or (wdnet is not None and np_["dadr"] != wdadr):
                raise Violation("step-dnet", port=n, got=[np_["dnet"], np_["dadr"].hex() if np_["dadr"] is not None else None],
                                want=[wdnet, wdadr.hex() if wdadr is not None else None])
            if wdnet is not None and np_["hops"] != hop - 1:
                raise Violation("step-hop-count", port=n, got=np_["hops"], injected=int(hop))
            if np_["snet"] != shown_snet or np_["sadr"] != bytes([shown_smac]):
                raise Violation("step-source", port=n, got=[np_["snet"], np_["sadr"].hex() if np_["sadr"] is not None else None],
                                want=[shown_snet, shown_smac])
            if np_["priority"] != prio or np_["expecting_reply"] != bool(der) or np_["payload"] != body:
                raise Violation("step-content-altered", port=n)
    d.reach()

    # a reply to the network shown as source goes back through the arrival port to station 99
    if sk == "remote":
        for lan in lans.values():
            lan.frames = []
        b = others[0]
        back = _raw(lans[b], 98)
        reply = bytes([1, 0x20, 0, 30, 1, smac, 255, 0x10, 0x08, 0x5A])
        back.request(PDU(reply, destination=Address(10 + b)))
        w.run()
        for n in (1, 2, 3):
            got = [(dd, wire.parse_npdu(data)) for (s_, dd, data) in lans[n].frames
                   if not (n == b and s_ == Address(98))]
            got = [(dd, np_) for dd, np_ in got if not np_["net_msg"]]
            expected = 1 if n == a else 0
            if len(got) != expected:
                raise Violation("step-reply-frames-on-port", port=n, arrival=a, got=len(got), want=expected)
            for dd, np_ in got:
                if dd != Address(99) or np_["dnet"] != 30 or np_["dadr"] != bytes([smac]) or np_["hops"] != 254:
                    raise Violation("step-reply-misdirected", got=str(dd), dnet=np_["dnet"])


@meta(bounds="the instance's loop-free topology with cold caches; a symbolic station sends THREE packets back to back toward a "
             "symbolic remote network before any path is known - a unicast to each of its two stations and a remote broadcast "
             "- so that the later ones wait for the path discovery the first one started; each must arrive exactly once, at "
             "exactly the addressed stations, with the originator shown as source",
      outside="bursts longer than three packets; bursts toward several remote networks at once",
      stubs=STUBS)
def route_burst(d, topo, knows_net=True):
    T = TOPO[topo]
    w = World()
    lans, stations, routers = build(T, knows_net)
    keys = sorted(stations)
    src = d.pick(keys, 'source')
    sn, sk = src
    dn = d.pick([n for n in T["nets"] if n != sn], 'dnet')
    tag = d.bytes(1, 1, 'payload')
    sends = [("unicast-1", RemoteStation(dn, 1), {(dn, 1)}), ("unicast-2", RemoteStation(dn, 2), {(dn, 2)}),
             ("remote-broadcast", RemoteBroadcast(dn), {(dn, 1), (dn, 2)})]
    for i, (name, dest, _) in enumerate(sends):
        stations[src].send(dest, bytes([0xB0 + i]) + bytes(tag))
    w.run()
    for i, (name, dest, expect) in enumerate(sends):
        body = bytes([0xB0 + i]) + bytes(tag)
        for k in keys:
            got = [a for a in stations[k].got if bytes(a.pduData) == body]
            want = 1 if k in expect else 0
            if len(got) != want:
                raise Violation("burst-delivery-count", packet=name, position=i, station=k, got=len(got), want=want,
                                source=src, dnet=dn, topo=topo)
            for a in got:
                if knows_net and a.pduSource != RemoteStation(sn, sk):
                    raise Violation("burst-source-shown", packet=name, shown=str(a.pduSource), source=src)
    for k in keys:
        if len(stations[k].got) != sum(1 for (_, _, e) in sends if k in e):
            raise Violation("burst-unexpected-delivery", station=k, got=len(stations[k].got))
    d.reach()


@meta(bounds="the instance's loop-free topology with cold caches; a station on the first and a station on the last network (symbolic "
             "stations) send a unicast to each other IN THE SAME INSTANT, so that the two path discoveries cross on the way; "
             "each arrives exactly once at the addressed station and nowhere else",
      outside="more than two simultaneous discoveries",
      stubs=STUBS)
def route_cross(d, topo):
    T = TOPO[topo]
    w = World()
    lans, stations, routers = build(T, True)
    n1, n2 = T["nets"][0], T["nets"][-1]
    a = (n1, d.pick([1, 2], 'station_a'))
    b = (n2, d.pick([1, 2], 'station_b'))
    tag = bytes(d.bytes(1, 1, 'payload'))
    stations[a].send(RemoteStation(b[0], b[1]), b"\xA1" + tag)
    stations[b].send(RemoteStation(a[0], a[1]), b"\xB2" + tag)
    w.run()
    for k in sorted(stations):
        got = sorted(bytes(x.pduData) for x in stations[k].got)
        want = [b"\xB2" + tag] if k == a else [b"\xA1" + tag] if k == b else []
        if got != want:
            raise Violation("crossing-delivery", station=k, got=len(got), want=len(want), a=a, b=b, topo=topo)
    d.reach()


@meta(bounds="the instance's loop-free topology, stations bound WITHOUT a network number, cold caches; a symbolic station sends a "
             "unicast to a symbolic remote station (it caches the path it discovers); then the routers announce the network "
             "numbers (Network-Number-Is) and every station learns its own; then the same station sends to the same remote "
             "network again, and the addressee answers to the source it is shown: each packet arrives exactly once",
      outside="stations that learn their number before they ever send (route_scn learns-net)",
      stubs=STUBS)
def learn_then_send(d, topo):
    T = TOPO[topo]
    w = World()
    lans, stations, routers = build(T, False)
    keys = sorted(stations)
    src = d.pick(keys, 'source')
    dst = d.pick([k for k in keys if k[0] != src[0]], 'destination')

    def one(tag, sender, dest, want_at):
        for x in stations.values():
            x.got = []
        stations[sender].send(dest, tag)
        w.run()
        for k in keys:
            n = len([x for x in stations[k].got if bytes(x.pduData) == tag])
            if n != (1 if k == want_at else 0):
                raise Violation("learn-then-send-delivery", phase=tag.hex(), station=k, got=n, want=1 if k == want_at else 0,
                                source=src, destination=dst, topo=topo)
        return stations[want_at].got[0].pduSource

    one(b"\x01\x01", src, RemoteStation(dst[0], dst[1]), dst)
    for r in routers:
        r.nse.network_number_is()
    w.run()
    shown = one(b"\x02\x02", src, RemoteStation(dst[0], dst[1]), dst)
    one(b"\x03\x03", dst, shown, src)
    d.reach()


def instances(tier):
    q = tier == "quick"
    out = []
    topos = ["pair", "line3", "star3"] if q else list(TOPO)
    for t in topos:
        for warm in (False, True):
            for knows in (True, False):
                if q and (warm and not knows):
                    continue
                out.append(Inst(route_scn, dict(topo=t, warm=warm, knows_net=knows), budget=80 if q else 900,
                                path_timeout=90, label="%s,%s,%s" % (t, "warm" if warm else "cold",
                                                                     "knows-net" if knows else "net-unknown")))
    # three routers between the ends, everything cold: the discovery has to travel the whole way and back
    for t in (["line4"] if q else ["line4", "line5"]):
        out.append(Inst(route_scn, dict(topo=t, warm=False, knows_net=True, ends=True), budget=150 if q else 900,
                        path_timeout=90, label="%s,cold,ends-only" % t))
    for t in (["line3"] if q else ["line3", "star3", "line4", "tree5"]):
        out.append(Inst(route_scn, dict(topo=t, warm=False, knows_net=True, history=True), budget=120 if q else 900,
                        path_timeout=90, label="%s,partly-warm" % t))
    for t in (["pair", "line3"] if q else list(TOPO)):
        out.append(Inst(route_scn, dict(topo=t, warm=False, knows_net=False, announce=True), budget=80 if q else 900,
                        path_timeout=90, label="%s,cold,learns-net" % t))
    for t in (["line3"] if q else ["pair", "line3", "star3", "tree5"]):
        out.append(Inst(route_scn, dict(topo=t, warm=False, knows_net=False, announce="ask"), budget=80 if q else 900,
                        path_timeout=90, label="%s,cold,asks-net" % t))
    for t in (["line3"] if q else ["pair", "line3", "star3", "line4", "tree5"]):
        out.append(Inst(route_burst, dict(topo=t), budget=120 if q else 600, path_timeout=90, label=t))
    for t in (["line3"] if q else ["pair", "line3", "line4", "tree5"]):
        out.append(Inst(route_cross, dict(topo=t), budget=120 if q else 600, path_timeout=90, label=t))
    for t in (["pair", "line3"] if q else ["pair", "line3", "star3", "line4", "tree5"]):
        out.append(Inst(learn_then_send, dict(topo=t), budget=150 if q else 600, path_timeout=90, label=t))
    for c in CACHES:
        out.append(Inst(route_step, dict(cache=c), budget=300 if q else 900, path_timeout=60, label=c))
    out.append(Inst(route_cycle, dict(hmax=3 if q else 6, remote=False), budget=80 if q else 300))
    out.append(Inst(route_cycle, dict(hmax=3 if q else 6, remote=True), budget=80 if q else 300))
    return out
