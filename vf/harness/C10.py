"""C10 - a device answers every well-framed request and stays healthy under garbage."""
from ..api import Inst, Violation, meta
from ..world import World
from .. import netlab as nl
from ..ref import wire

from bacpypes.pdu import Address
from bacpypes.object import AnalogValueObject
from bacpypes.service.device import WhoIsIAmServices
from bacpypes.service.object import ReadWritePropertyServices, ReadWritePropertyMultipleServices
from bacpypes import apdu as A

STUBS = ["virtual clock (task._time)", "asyncore.loop -> clock advance", "task._Trigger -> wake flag",
         "fresh singletons per path"]


class Device(nl.AppStack, WhoIsIAmServices, ReadWritePropertyServices, ReadWritePropertyMultipleServices):
    pass


PEER = 31
REPLY_TYPES = (2, 3, 5, 6, 7)       # simple ack, complex ack, error, reject, abort


def make_world():
    w = World()
    lan = nl.FaultLAN([], world=w)
    dev = Device(nl.make_device("dut", 20), lan)
    av = AnalogValueObject(objectIdentifier=("analogValue", 1), objectName="av1", presentValue=72.5,
                           statusFlags=[0, 0, 0, 0], units="degreesFahrenheit")
    dev.add_object(av)
    peer = nl.RawPeer(PEER, lan)
    return w, lan, dev, peer, av


# a valid ReadProperty(analogValue 1, presentValue) and the value octets of its answer
def read_pv(invoke):
    return bytes([0x00, 0x05, invoke, 0x0C, 0x0C, 0x00, 0x80, 0x00, 0x01, 0x19, 0x55])


PV_ACK_BODY = bytes([0x0C, 0x00, 0x80, 0x00, 0x01, 0x19, 0x55, 0x3E, 0x44, 0x42, 0x91, 0x00, 0x00, 0x3F])


def replies(peer, start=0):
    out = []
    for (src, data) in peer.received[start:]:
        try:
            n, a = wire.parse_frame(data)
        except wire.Malformed:
            raise Violation("device-emitted-malformed-frame", data=data)
        if a is not None:
            out.append(a)
    return out


def check_health(d, w, lan, dev, peer, what):
    """after quiescence: no transaction, no timer, no deferred call; a fresh valid request is answered correctly"""
    w.run()
    r = nl.residue(dev)
    if r:
        raise Violation("leftover-transaction", residue=r, after=what)
    if not w.idle():
        raise Violation("leftover-timer", after=what)
    n0 = len(peer.received)
    peer.send(dev.address, nl.frame(read_pv(0xEE), True))
    w.run()
    rs = replies(peer, n0)
    if len(rs) != 1 or rs[0]["type"] != 3 or rs[0]["invoke"] != 0xEE or bytes(rs[0]["payload"]) != PV_ACK_BODY:
        raise Violation("subsequent-valid-request-not-answered", after=what,
                        got=[(x["type"], x["invoke"], bytes(x["payload"])) for x in rs])
    if nl.residue(dev) or not w.idle():
        raise Violation("leftover-after-valid-request", after=what)


@meta(bounds="one device stack (Who-Is/I-Am, ReadProperty/WriteProperty, ReadPropertyMultiple/WritePropertyMultiple services; "
             "one analog value); one ConfirmedRequest with intact fixed header: invoke ID 0..255, max-segments code 0..7, "
             "max-response code 0..15 and SA flag symbolic; service choice = the instance's (a registered service) or symbolic "
             "over all unregistered choices; parameter area of 0..n octets, content and length symbolic",
      outside="parameter areas longer than n octets; segmented requests (C05); services beyond the sample device's beyond "
              "'is rejected as unrecognised'",
      stubs=STUBS)
def svc_garbage(d, svc, n):
    w, lan, dev, peer, av = make_world()
    inv = d.int(0, 255, 'invoke')
    maxsegs = d.int(0, 7, 'maxsegs')
    maxresp = d.int(0, 15, 'maxresp')
    sa = d.bool('sa')
    if svc is None:
        choice = d.int(0, 255, 'service')
        for known in sorted(A.confirmed_request_types):
            d.assume(choice != known)
    else:
        choice = svc
    params = d.bytes(0, n, 'params')
    hdr = bytes([0x02 if sa else 0x00, maxsegs * 16 + maxresp, inv, choice])
    peer.send(dev.address, nl.frame(hdr + bytes(params), True))
    w.run()
    rs = replies(peer)
    mine = [x for x in rs if x["invoke"] == inv and x["type"] in REPLY_TYPES]
    reserved = maxresp > 5          # reserved max-APDU code: whether "exactly one reply" applies is arguable,
    if not reserved:                # the health clause below applies regardless
        if len(mine) != 1 or len(rs) != 1:
            errs = [e[1] for e in d.errors_logged()]
            d.flag(True, "not-exactly-one-reply", n=len(mine), service=choice, params=params, logged=errs,
                   registered=svc is not None)
    elif len(rs) > 1:
        raise Violation("more-than-one-reply", n=len(rs))
    if svc is None and not reserved:
        for x in mine:
            if not (x["type"] == 6 and x["reason"] == 9):
                d.flag(True, "unknown-service-not-rejected-as-unrecognized", type=x["type"], reason=x["reason"])
    check_health(d, w, lan, dev, peer, "service-garbage")
    d.note(service=choice, reply=[(x["type"], x["reason"]) for x in mine])
    d.reach()


VALID = {
    "read-property": lambda inv: read_pv(inv),
    "write-property": lambda inv: bytes([0x00, 0x05, inv, 0x0F, 0x0C, 0x00, 0x80, 0x00, 0x01, 0x19, 0x55,
                                         0x3E, 0x44, 0x42, 0x90, 0x00, 0x00, 0x3F]),
    "read-property-multiple": lambda inv: bytes([0x00, 0x05, inv, 0x0E, 0x0C, 0x00, 0x80, 0x00, 0x01, 0x1E, 0x09, 0x55,
                                                 0x09, 0x4D, 0x1F]),
    "who-is": lambda inv: bytes([0x10, 0x08, 0x09, 0x14, 0x19, 0x14]),
}


@meta(bounds="a valid frame of the instance's service (built octet by octet from the standard) with ONE mutation at a "
             "symbolic position: substitution by a symbolic octet / deletion / insertion of a symbolic octet; delivered "
             "together with a second, valid ReadProperty queued in the same instant and followed by a third valid request",
      outside="two or more mutations per frame; services other than the four instantiated",
      stubs=STUBS)
def frame_mutation(d, service, mutation, part=None):
    w, lan, dev, peer, av = make_world()
    inv = 0x21
    apdu = VALID[service](inv)
    confirmed = apdu[0] >> 4 == 0
    full = nl.frame(apdu, confirmed)
    last = len(full) - (0 if mutation == "insert" else 1)
    lo, hi = 0, last
    if part is not None:        # (i, n): the i-th of n position ranges, to share the tree between processes
        i, n = part
        lo, hi = (last + 1) * i // n, (last + 1) * (i + 1) // n - 1
    pos = d.int(lo, hi, 'position')
    if mutation == "delete":
        mutant = full[:pos] + full[pos + 1:]
    else:
        octet = d.int(0, 255, 'octet')
        if mutation == "substitute":
            d.assume(octet != full[pos])
            mutant = full[:pos] + bytes([octet]) + full[pos + 1:]
        else:
            mutant = full[:pos] + bytes([octet]) + full[pos:]
    other = nl.RawPeer(PEER + 1, lan)
    # the mutant and a valid request from another station are queued at the same moment
    peer.send(dev.address, mutant)
    other.send(dev.address, nl.frame(read_pv(0x42), True))
    w.run()
    # the valid one is answered correctly whatever the mutant did
    ro = replies(other)
    if len(ro) != 1 or ro[0]["type"] != 3 or ro[0]["invoke"] != 0x42 or bytes(ro[0]["payload"]) != PV_ACK_BODY:
        raise Violation("concurrent-valid-request-not-answered", mutant=mutant,
                        got=[(x["type"], x["invoke"]) for x in ro], logged=[e[1] for e in d.errors_logged()])
    # if the mutant still is a confirmed request with an intact fixed header for this device it gets one reply
    rs = replies(peer)
    try:
        n, a = wire.parse_frame(mutant)
    except wire.Malformed:
        n, a = None, None
    intact = (n is not None and n["version"] == 1 and not n["net_msg"] and n["dnet"] is None and n["snet"] is None
              and a is not None and a["type"] == 0 and not a["seg"] and a["maxresp"] <= 5)
    if intact:
        mine = [x for x in rs if x["invoke"] == a["invoke"] and x["type"] in REPLY_TYPES]
        if len(mine) != 1 or len(rs) != 1:
            d.flag(True, "not-exactly-one-reply", n=len(mine), mutant=mutant, logged=[e[1] for e in d.errors_logged()])
    elif len(rs) > 1:
        raise Violation("more-than-one-reply", n=len(rs), mutant=mutant)
    check_health(d, w, lan, dev, peer, "mutated-frame")
    d.reach()


@meta(bounds="a symbolic octet string of 0..n octets delivered to the device at the link level (so it reaches the NPDU "
             "decoder and whatever lies above), before or after (symbolic order) a valid request queued in the same instant",
      outside="octet strings longer than n",
      stubs=STUBS)
def layer_noise(d, n, first):
    w, lan, dev, peer, av = make_world()
    noise = d.bytes(0, n, 'noise')
    if first is not None:
        d.assume(len(noise) > 0)
        d.assume(noise[0] == first)
    other = nl.RawPeer(PEER + 1, lan)
    noise_first = d.bool('noise_first')
    if noise_first:
        peer.send(dev.address, noise)
    other.send(dev.address, nl.frame(read_pv(0x42), True))
    if not noise_first:
        peer.send(dev.address, noise)
    w.run()
    ro = replies(other)
    if len(ro) != 1 or ro[0]["type"] != 3 or ro[0]["invoke"] != 0x42 or bytes(ro[0]["payload"]) != PV_ACK_BODY:
        raise Violation("concurrent-valid-request-not-answered", noise=noise,
                        got=[(x["type"], x["invoke"]) for x in ro], logged=[e[1] for e in d.errors_logged()])
    check_health(d, w, lan, dev, peer, "noise")
    d.reach()


def instances(tier):
    q = tier == "quick"
    out = []
    svcs = sorted(A.confirmed_request_types)
    impl = [12, 15, 14, 16]     # ReadProperty, WriteProperty, ReadPropertyMultiple, WritePropertyMultiple
    if q:
        # the services the device implements, plus a sample of the others; all of them in thorough
        svcs = impl + [5, 10, 18, 26, 6]
    for s in svcs:
        n = (2 if s in impl else 1) if q else (3 if s in impl else 2)
        out.append(Inst(svc_garbage, dict(svc=s, n=n), budget=80 if q else 900, path_timeout=60,
                        label="%s,n=%d" % (A.confirmed_request_types[s].__name__, n)))
    out.append(Inst(svc_garbage, dict(svc=None, n=1 if q else 2), budget=80 if q else 300, label="unregistered"))
    for service in VALID:
        for mutation in ("substitute", "delete", "insert"):
            if q and service in ("write-property", "read-property-multiple") and mutation == "insert":
                continue
            flen = len(VALID[service](0)) + 2
            parts = 1 if mutation == "delete" else max(3, flen // (4 if q else 3))
            for i in range(parts):
                out.append(Inst(frame_mutation, dict(service=service, mutation=mutation, part=(i, parts)),
                                budget=80 if q else 900, path_timeout=60,
                                label="%s,%s,part%d/%d" % (service, mutation, i + 1, parts)))
    if q:
        out.append(Inst(layer_noise, dict(n=2, first=None), budget=80))
        out.append(Inst(layer_noise, dict(n=3, first=1), budget=80, label="n=3,version-1"))
    else:
        out.append(Inst(layer_noise, dict(n=3, first=None), budget=300))
        out.append(Inst(layer_noise, dict(n=6, first=1), budget=900, label="n=6,version-1"))
    return out
