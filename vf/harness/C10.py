"""C10 - a device answers every well-framed request and stays healthy under garbage."""
from ..api import Inst, Violation, meta
from ..world import World
from .. import netlab as nl
from ..ref import wire

from bacpypes.pdu import Address
from bacpypes.object import AnalogValueObject
from bacpypes.service.device import WhoIsIAmServices, DeviceCommunicationControlServices
from bacpypes.service.object import ReadWritePropertyServices, ReadWritePropertyMultipleServices
from bacpypes import apdu as A

STUBS = ["virtual clock (task._time)", "asyncore.loop -> clock advance", "task._Trigger -> wake flag",
         "fresh singletons per path"]


class Device(nl.AppStack, WhoIsIAmServices, ReadWritePropertyServices, ReadWritePropertyMultipleServices):
    pass


class DeviceDCC(Device, DeviceCommunicationControlServices):
    """the same device with the DeviceCommunicationControl service"""

    def __init__(self, *a, **kw):
        Device.__init__(self, *a, **kw)
        DeviceCommunicationControlServices.__init__(self)


PEER = 31
REPLY_TYPES = (2, 3, 5, 6, 7)       # simple ack, complex ack, error, reject, abort


def make_world(seg="segmentedBoth"):
    w = World()
    lan = nl.FaultLAN([], world=w)
    dev = Device(nl.make_device("dut", 20, segmentationSupported=seg), lan)
    av = AnalogValueObject(objectIdentifier=("analogValue", 1), objectName="av1", presentValue=72.5,
                           statusFlags=[0, 0, 0, 0], units="degreesFahrenheit")
    dev.add_object(av)
    peer = nl.RawPeer(PEER, lan)
    return w, lan, dev, peer, av


# a valid ReadProperty(analogValue 1, presentValue) and the value octets of its answer
def read_pv(invoke):
    return bytes([0x00, 0x05, invoke, 0x0C, 0x0C, 0x00, 0x80, 0x00, 0x01, 0x19, 0x55])


PV_ACK_BODY = bytes([0x0C, 0x00, 0x80, 0x00, 0x01, 0x19, 0x55, 0x3E, 0x44, 0x42, 0x91, 0x00, 0x00, 0x3F])


def replies(peer, start=0):
    out = []
    for (src, data) in peer.received[start:]:
        try:
            n, a = wire.parse_frame(data)
        except wire.Malformed:
            raise Violation("device-emitted-malformed-frame", data=data)
        if a is not None:
            out.append(a)
    return out


def draw_noise(d, n, first):
    """octet string of 0..n octets; with `first` the leading octets are CONCRETE (classes are looked up by them) and
    0..n further octets are free; built with a concrete length per path"""
    if first is None:
        return d.bytes(0, n, 'noise')
    k = d.index(n + 1, 'noise_tail_length')
    return bytes(list(first) + [d.int(0, 255, 'noise%d' % i) for i in range(k)])


def check_health(d, w, lan, dev, peer, what):
    """after quiescence: no transaction, no timer, no deferred call; a fresh valid request is answered correctly"""
    w.run()
    r = nl.residue(dev)
    if r:
        raise Violation("leftover-transaction", residue=r, after=what)
    if not w.idle():
        raise Violation("leftover-timer", after=what)
    n0 = len(peer.received)
    peer.send(dev.address, nl.frame(read_pv(0xEE), True))
    w.run()
    rs = replies(peer, n0)
    if len(rs) != 1 or rs[0]["type"] != 3 or rs[0]["invoke"] != 0xEE or bytes(rs[0]["payload"]) != PV_ACK_BODY:
        raise Violation("subsequent-valid-request-not-answered", after=what,
                        got=[(x["type"], x["invoke"], bytes(x["payload"])) for x in rs])
    if nl.residue(dev) or not w.idle():
        raise Violation("leftover-after-valid-request", after=what)


@meta(bounds="one device stack (Who-Is/I-Am, ReadProperty/WriteProperty, ReadPropertyMultiple/WritePropertyMultiple services; "
             "one analog value); one ConfirmedRequest with intact fixed header: invoke ID 0..255, max-segments code 0..7, "
             "max-response code 0..15 and SA flag symbolic; service choice = the instance's (a registered service) or symbolic "
             "over all unregistered choices; parameter area of 0..n octets, content and length symbolic",
      outside="parameter areas longer than n octets; segmented requests (C05); services beyond the sample device's beyond "
              "'is rejected as unrecognised'",
      stubs=STUBS)
def svc_garbage(d, svc, n):
    w, lan, dev, peer, av = make_world()
    inv = d.int(0, 255, 'invoke')
    maxsegs = d.int(0, 7, 'maxsegs')
    maxresp = d.int(0, 15, 'maxresp')
    sa = d.bool('sa')
    if svc is None:
        choice = d.int(0, 255, 'service')
        for known in sorted(A.confirmed_request_types):
            d.assume(choice != known)
    else:
        choice = svc
    params = d.bytes(0, n, 'params')
    hdr = bytes([0x02 if sa else 0x00, maxsegs * 16 + maxresp, inv, choice])
    peer.send(dev.address, nl.frame(hdr + bytes(params), True))
    w.run()
    rs = replies(peer)
    mine = [x for x in rs if x["invoke"] == inv and x["type"] in REPLY_TYPES]
    reserved = maxresp > 5          # reserved max-APDU code: the header is complete and names the invoke ID, the request
    if not reserved:                # cannot be served (no size to answer within) - it is refused once, not met with silence
        if len(mine) != 1 or len(rs) != 1:
            errs = [e[1] for e in d.errors_logged()]
            d.flag(True, "not-exactly-one-reply", n=len(mine), service=choice, params=params, logged=errs,
                   registered=svc is not None)
    else:
        refusals = [x for x in mine if x["type"] in (6, 7)]
        if len(refusals) != 1 or len(rs) != 1:
            d.flag(True, "reserved-max-apdu-not-refused-once", n=len(refusals), replies=len(rs), service=choice,
                   logged=[e[1] for e in d.errors_logged()])
    if svc is None and not reserved:
        for x in mine:
            if not (x["type"] == 6 and x["reason"] == 9):
                d.flag(True, "unknown-service-not-rejected-as-unrecognized", type=x["type"], reason=x["reason"])
    check_health(d, w, lan, dev, peer, "service-garbage")
    d.note(service=choice, reply=[(x["type"], x["reason"]) for x in mine])
    d.reach()


def _v_read_property(inv, d):
    return read_pv(inv)


def _v_write_property(inv, d):
    # presentValue := Real 72.0 (the write itself is refused: read-only property)
    v = [0x42, 0x90, 0x00, 0x00]
    return bytes([0x00, 0x05, inv, 0x0F, 0x0C, 0x00, 0x80, 0x00, 0x01, 0x19, 0x55, 0x3E, 0x44] + v + [0x3F])


def _v_rpm(inv, d):
    return bytes([0x00, 0x05, inv, 0x0E, 0x0C, 0x00, 0x80, 0x00, 0x01, 0x1E, 0x09, 0x55, 0x09, 0x4D, 0x1F])


def _v_who_is(inv, d):
    return bytes([0x10, 0x08, 0x09, 0x14, 0x19, 0x14])


def _v_subscribe_cov(inv, d):
    # [0] process id, [1] analogValue 1, [2] issue confirmed notifications, [3] lifetime: value octets free
    pid, flag, life = 1, d.int(0, 1, 'confirmed'), 60
    return bytes([0x00, 0x05, inv, 0x05, 0x09, pid, 0x1C, 0x00, 0x80, 0x00, 0x01, 0x29, flag, 0x39, life])


VALID = {
    "read-property": _v_read_property,
    "write-property": _v_write_property,
    "read-property-multiple": _v_rpm,
    "who-is": _v_who_is,
    "subscribe-cov": _v_subscribe_cov,
}
FRAME_LEN = {"read-property": 13, "write-property": 20, "read-property-multiple": 17, "who-is": 8, "subscribe-cov": 17}


@meta(bounds="a valid frame of the instance's service (built octet by octet from the standard; SubscribeCOV's "
             "confirmed flag is free) with ONE mutation at a "
             "symbolic position: substitution by a symbolic octet / deletion / insertion of a symbolic octet; delivered "
             "together with a second, valid ReadProperty queued in the same instant and followed by a third valid request",
      outside="two or more mutations per frame; services other than the four instantiated",
      stubs=STUBS)
def frame_mutation(d, service, mutation, part=None, seg="segmentedBoth", header_only=False):
    w, lan, dev, peer, av = make_world(seg)
    inv = 0x21
    apdu = VALID[service](inv, d)
    confirmed = service != "who-is"
    full = nl.frame(apdu, confirmed)
    last = len(full) - (0 if mutation == "insert" else 1)
    positions = list(range(last + 1))
    if service == "write-property" and mutation == "substitute":
        # not the four value octets of the Real: any substitution there is just another valid value (and the
        # float decoder makes the engine enumerate all 256 of them)
        positions = [p for p in positions if p < 15 or p > 18]
    if header_only:             # NPCI and the fixed APDU header
        positions = [p for p in positions if p < 6]
    if part is not None:        # (i, n): the i-th of n slices of the positions, to share the tree between processes
        i, n = part
        positions = positions[len(positions) * i // n: len(positions) * (i + 1) // n]
    pos = d.pick(positions, 'position')
    if mutation == "delete":
        mutant = full[:pos] + full[pos + 1:]
    else:
        octet = d.int(0, 255, 'octet')
        if mutation == "substitute":
            d.assume(octet != full[pos])
            mutant = full[:pos] + bytes([octet]) + full[pos + 1:]
        else:
            mutant = full[:pos] + bytes([octet]) + full[pos:]
    other = nl.RawPeer(PEER + 1, lan)
    # the mutant and a valid request from another station are queued at the same moment
    peer.send(dev.address, mutant)
    other.send(dev.address, nl.frame(read_pv(0x42), True))
    w.run()
    # the valid one is answered correctly whatever the mutant did
    ro = replies(other)
    if len(ro) != 1 or ro[0]["type"] != 3 or ro[0]["invoke"] != 0x42 or bytes(ro[0]["payload"]) != PV_ACK_BODY:
        raise Violation("concurrent-valid-request-not-answered", mutant=mutant,
                        got=[(x["type"], x["invoke"]) for x in ro], logged=[e[1] for e in d.errors_logged()])
    # if the mutant still is a confirmed request with an intact fixed header for this device it gets one reply
    rs = replies(peer)
    try:
        n, a = wire.parse_frame(mutant)
    except wire.Malformed:
        n, a = None, None
    intact = (n is not None and n["version"] == 1 and not n["net_msg"] and n["dnet"] is None and n["snet"] is None
              and a is not None and a["type"] == 0 and not a["seg"] and a["maxresp"] <= 5)
    reserved = (n is not None and n["version"] == 1 and not n["net_msg"] and n["dnet"] is None and n["snet"] is None
                and a is not None and a["type"] == 0 and not a["seg"] and a["maxresp"] > 5 and a["hdrlen"] == 4)
    if intact:
        mine = [x for x in rs if x["invoke"] == a["invoke"] and x["type"] in REPLY_TYPES]
        if len(mine) != 1 or len(rs) != 1:
            d.flag(True, "not-exactly-one-reply", n=len(mine), mutant=mutant, logged=[e[1] for e in d.errors_logged()])
    elif reserved:
        # the header is complete, only the maximum-response code is one the standard reserves: the request cannot be
        # served (no size to answer within) but its invoke ID is known - it is refused, not met with silence
        mine = [x for x in rs if x["invoke"] == a["invoke"] and x["type"] in (6, 7)]
        if len(mine) != 1 or len(rs) != 1:
            d.flag(True, "reserved-max-apdu-not-refused-once", n=len(mine), replies=len(rs), mutant=mutant,
                   logged=[e[1] for e in d.errors_logged()])
    elif len(rs) > 1:
        raise Violation("more-than-one-reply", n=len(rs), mutant=mutant)
    check_health(d, w, lan, dev, peer, "mutated-frame")
    d.reach()


@meta(bounds="a symbolic octet string of 0..n octets delivered to the device at the link level (so it reaches the NPDU "
             "decoder and whatever lies above), unicast or broadcast (symbolic), before or after (symbolic order) a valid request "
             "queued in the same instant",
      outside="octet strings longer than n",
      stubs=STUBS)
def layer_noise(d, n, first):
    w, lan, dev, peer, av = make_world()
    noise = draw_noise(d, n, first)
    other = nl.RawPeer(PEER + 1, lan)
    noise_first = d.bool('noise_first')
    # addressed to the device or broadcast on its LAN
    to = nl.LocalBroadcast() if d.bool('as_broadcast') else dev.address
    if noise_first:
        peer.send(to, noise)
    other.send(dev.address, nl.frame(read_pv(0x42), True))
    if not noise_first:
        peer.send(to, noise)
    w.run()
    # what the DEVICE sent to the other station (a broadcast noise frame reaches that station too)
    other.received = [(src, data) for (src, data) in other.received if src == dev.address]
    peer.received = [(src, data) for (src, data) in peer.received if src == dev.address]
    ro = replies(other)
    if len(ro) != 1 or ro[0]["type"] != 3 or ro[0]["invoke"] != 0x42 or bytes(ro[0]["payload"]) != PV_ACK_BODY:
        raise Violation("concurrent-valid-request-not-answered", noise=noise,
                        got=[(x["type"], x["invoke"]) for x in ro], logged=[e[1] for e in d.errors_logged()])
    check_health(d, w, lan, dev, peer, "noise")
    d.reach()


@meta(bounds="a device that supports DeviceCommunicationControl (no password, no duration in the request); one well-formed DCC "
             "request whose enable-disable value is symbolic over 0..255 except 1 (1 = disable, which silences the device by "
             "design); a valid ReadProperty from another station is queued at the same moment and one follows: the DCC request "
             "gets exactly one reply, both reads are answered - a value the enumeration does not define must not mute the device",
      outside="DCC with a duration or a password; the legitimate effect of 'disable'",
      stubs=STUBS)
def dcc_values(d):
    w = World()
    lan = nl.FaultLAN([], world=w)
    dev = DeviceDCC(nl.make_device("dut", 20), lan)
    av = AnalogValueObject(objectIdentifier=("analogValue", 1), objectName="av1", presentValue=72.5,
                           statusFlags=[0, 0, 0, 0], units="degreesFahrenheit")
    dev.add_object(av)
    peer = nl.RawPeer(PEER, lan)
    other = nl.RawPeer(PEER + 1, lan)
    v = d.int(0, 255, 'enable_disable')
    d.assume(v != 1)
    peer.send(dev.address, nl.frame(bytes([0x00, 0x05, 0x31, 0x11, 0x19, v]), True))
    other.send(dev.address, nl.frame(read_pv(0x42), True))
    w.run()
    rs = replies(peer)
    mine = [x for x in rs if x["invoke"] == 0x31 and x["type"] in REPLY_TYPES]
    if len(mine) != 1 or len(rs) != 1:
        d.flag(True, "not-exactly-one-reply", n=len(mine), service=17, value=v, logged=[e[1] for e in d.errors_logged()])
    ro = replies(other)
    if len(ro) != 1 or ro[0]["type"] != 3 or ro[0]["invoke"] != 0x42 or bytes(ro[0]["payload"]) != PV_ACK_BODY:
        raise Violation("concurrent-valid-request-not-answered", value=v, got=[(x["type"], x["invoke"]) for x in ro])
    check_health(d, w, lan, dev, peer, "dcc-value")
    d.reach()


@meta(bounds="a transfer that is begun and abandoned: the first segment of a segmented ReadProperty request (sequence number 0, "
             "more-follows, proposed window symbolic 1..4), then symbolically nothing / the same segment again / a segment out of "
             "sequence (number 2) / a segment-ack out of the blue, then silence: within 60 s of virtual time (the segment "
             "timeout is 1.5 s, four of them are allowed for a missing segment) the device holds no transaction and no timer, "
             "and a valid request with the same invoke ID is answered",
      outside="longer abandoned transfers",
      stubs=STUBS)
def half_open(d):
    w, lan, dev, peer, av = make_world()
    win = d.int(1, 4, 'proposed_window')
    inv = 0xEE                      # the invoke ID check_health uses afterwards
    first = bytes([0x0C, 0x05, inv, 0x00, win, 0x0C, 0x0C, 0x00, 0x80, 0x00, 0x01])
    peer.send(dev.address, nl.frame(first, True))
    w.run(until=w.clock)
    follow = d.pick(["nothing", "same-again", "out-of-sequence", "stray-segment-ack"], 'then')
    if follow == "same-again":
        peer.send(dev.address, nl.frame(first, True))
    elif follow == "out-of-sequence":
        peer.send(dev.address, nl.frame(bytes([0x0C, 0x05, inv, 0x02, win, 0x0C, 0x19, 0x55]), True))
    elif follow == "stray-segment-ack":
        peer.send(dev.address, nl.frame(bytes([0x40, inv, 0x00, win]), False))
    w.run(until=w.clock + 60.0)
    r = nl.residue(dev)
    if r:
        raise Violation("leftover-transaction", residue=r, after="abandoned-transfer", then=follow, seconds=60)
    if not w.idle():
        raise Violation("leftover-timer", after="abandoned-transfer", then=follow, seconds=60)
    check_health(d, w, lan, dev, peer, "abandoned-transfer")
    d.reach()


LONG_NAME = "n" * 64


def _named_world(seg):
    w = World()
    lan = nl.FaultLAN([], world=w)
    dev = Device(nl.make_device("dut", 20, segmentationSupported=seg, maxApduLengthAccepted=50), lan)
    av = AnalogValueObject(objectIdentifier=("analogValue", 1), objectName=LONG_NAME, presentValue=72.5,
                           statusFlags=[0, 0, 0, 0], units="degreesFahrenheit")
    dev.add_object(av)
    return w, lan, dev, nl.RawPeer(PEER, lan), av


@meta(bounds="a device whose answer does not fit: ReadProperty of a 64-character object name (a ComplexAck of 79 octets) with a "
             "symbolic max-response code 0..5 (50..1476 octets), symbolic segmented-response-accepted flag and max-segments "
             "code, toward a device of each segmentation capability: exactly one reply with the invoke ID - the answer in one "
             "APDU, its first segment, or an abort - never silence; afterwards the device is clean and healthy",
      outside="answers longer than two segments",
      stubs=STUBS)
def long_answer(d, seg):
    w, lan, dev, peer, av = _named_world(seg)
    maxresp = d.int(0, 5, 'maxresp')
    maxsegs = d.int(0, 7, 'maxsegs')
    sa = d.bool('sa')
    inv = 0x33
    req = bytes([0x02 if sa else 0x00, maxsegs * 16 + maxresp, inv, 0x0C, 0x0C, 0x00, 0x80, 0x00, 0x01, 0x19, 0x4D])
    peer.send(dev.address, nl.frame(req, True))
    w.run(until=w.clock)
    rs = replies(peer)
    mine = [x for x in rs if x["invoke"] == inv and x["type"] in REPLY_TYPES]
    if len(mine) != 1 or len(rs) != 1:
        d.flag(True, "not-exactly-one-reply", n=len(mine), replies=len(rs), maxresp=maxresp, sa=bool(sa), seg=seg,
               logged=[e[1] for e in d.errors_logged()])
    elif mine[0]["type"] == 3 and mine[0]["seg"]:
        # the first segment of the answer: acknowledge every segment, the transfer ends
        n0 = 0
        for _ in range(8):
            segs = [x for x in replies(peer)[n0:] if x["type"] == 3]
            n0 = len(replies(peer))
            if not segs or not segs[-1]["mor"]:
                break
            peer.send(dev.address, nl.frame(bytes([0x40, inv, segs[-1]["seq"], 0x04]), False))
            w.run(until=w.clock)
        last = [x for x in replies(peer) if x["type"] == 3][-1]
        peer.send(dev.address, nl.frame(bytes([0x40, inv, last["seq"], 0x04]), False))
    check_health(d, w, lan, dev, peer, "long-answer")
    d.reach()


@meta(bounds="a segmented answer that is abandoned: ReadProperty of the 64-character object name with max-response 50 octets and "
             "segmented response accepted toward a segmentedBoth device; after its first segment the peer sends one SegmentAck "
             "with a symbolic sequence number 0..255, symbolic window 1..127 and symbolic nak / server bits - a proper ack, a "
             "duplicate, or one far past the last segment - and then falls silent: within 60 s of virtual time the device holds "
             "no transaction and no timer and a valid request with the same invoke ID is answered",
      outside="more than one stray segment-ack",
      stubs=STUBS)
def half_read(d):
    w, lan, dev, peer, av = _named_world("segmentedBoth")
    inv = 0xEE
    req = bytes([0x02, 0x00, inv, 0x0C, 0x0C, 0x00, 0x80, 0x00, 0x01, 0x19, 0x4D])
    peer.send(dev.address, nl.frame(req, True))
    w.run(until=w.clock)
    first = [x for x in replies(peer) if x["type"] == 3 and x["seg"]]
    if len(first) != 1:
        raise Violation("no-first-segment", n=len(first))
    seq = d.int(0, 255, 'acked_sequence_number')
    win = d.int(1, 127, 'window')
    nak = d.bool('nak')
    srv = d.bool('server_bit')
    peer.send(dev.address, nl.frame(bytes([0x40 + (2 if nak else 0) + (1 if srv else 0), inv, seq, win]), False))
    w.run(until=w.clock + 60.0)
    r = nl.residue(dev)
    if r:
        raise Violation("leftover-transaction", residue=r, after="abandoned-answer", seq=seq, window=win, seconds=60)
    if not w.idle():
        raise Violation("leftover-timer", after="abandoned-answer", seq=seq, window=win, seconds=60)
    del peer.received[:]
    # the invoke ID is free again: the same request is answered from its first segment
    peer.send(dev.address, nl.frame(req, True))
    w.run(until=w.clock)
    again = [x for x in replies(peer) if x["type"] == 3 and x["seg"] and x["seq"] == 0 and x["invoke"] == inv]
    if len(again) != 1:
        raise Violation("subsequent-valid-request-not-answered", after="abandoned-answer", got=[(x["type"], x["invoke"]) for x in replies(peer)])
    d.reach()


ODD = {
    # well-framed requests with unusual but legal encodings; each must get exactly one reply
    "rpm-index-5-octets": lambda d: bytes([0x02, 0x05, 0x44, 0x0E, 0x0C, 0x00, 0x80, 0x00, 0x01, 0x1E, 0x09, 0x55, 0x1D, 0x05,
                                           d.int(0, 255, 'i0'), d.int(0, 1, 'i1'), 0x00, 0x00, d.int(0, 255, 'i4'), 0x1F]),
    "rp-index-5-octets": lambda d: bytes([0x02, 0x05, 0x44, 0x0C, 0x0C, 0x00, 0x80, 0x00, 0x01, 0x19, 0x55, 0x2D, 0x05,
                                          d.int(0, 255, 'i0'), d.int(0, 1, 'i1'), 0x00, 0x00, d.int(0, 255, 'i4')]),
    "rp-index-max": lambda d: bytes([0x02, 0x05, 0x44, 0x0C, 0x0C, 0x00, 0x80, 0x00, 0x01, 0x19, 0x55, 0x2C,
                                     0xFF, 0xFF, 0xFF, d.int(0, 255, 'i3')]),
    "rp-property-4-octets": lambda d: bytes([0x02, 0x05, 0x44, 0x0C, 0x0C, 0x00, 0x80, 0x00, 0x01, 0x1C,
                                             d.int(0, 255, 'p0'), d.int(0, 255, 'p1'), 0x00, d.int(0, 255, 'p3')]),
    "rp-instance-any": lambda d: bytes([0x02, 0x05, 0x44, 0x0C, 0x0C, d.int(0, 255, 'o0'), d.int(0, 255, 'o1'), 0x00,
                                        d.int(0, 255, 'o3'), 0x19, 0x55]),
}


@meta(bounds="well-framed requests with unusual encodings (the instance's): array indexes written in five octets (values to 2^40), "
             "the largest four-octet index, four-octet property identifiers, any object type and instance - the free octets "
             "symbolic; each gets exactly one reply with its invoke ID, the concurrent valid request is answered, the device "
             "stays healthy",
      outside="other unusual encodings",
      stubs=STUBS)
def odd_requests(d, which):
    w, lan, dev, peer, av = make_world()
    other = nl.RawPeer(PEER + 1, lan)
    req = ODD[which](d)
    peer.send(dev.address, nl.frame(req, True))
    other.send(dev.address, nl.frame(read_pv(0x42), True))
    w.run()
    rs = replies(peer)
    mine = [x for x in rs if x["invoke"] == 0x44 and x["type"] in REPLY_TYPES]
    if len(mine) != 1 or len(rs) != 1:
        d.flag(True, "not-exactly-one-reply", n=len(mine), replies=len(rs), request=req, logged=[e[1] for e in d.errors_logged()])
    ro = replies(other)
    if len(ro) != 1 or ro[0]["type"] != 3 or ro[0]["invoke"] != 0x42 or bytes(ro[0]["payload"]) != PV_ACK_BODY:
        raise Violation("concurrent-valid-request-not-answered", request=req, got=[(x["type"], x["invoke"]) for x in ro])
    check_health(d, w, lan, dev, peer, "odd-request")
    d.reach()


class LearningDevice(Device):
    """a device whose application records the I-Am announcements it hears (DeviceInfoCache.iam_device_info)"""

    def do_IAmRequest(self, apdu):
        self.deviceInfoCache.iam_device_info(apdu)


@meta(bounds="a device that has cached the requesting station's I-Am (max APDU 50 or 1024, each of the four segmentation values, "
             "symbolic); that station then sends a request whose header says what it likes - segmented-response-accepted flag "
             "and max-response code symbolic - and whose outcome is an acknowledgement with data (ReadProperty), an error "
             "(WriteProperty to a read-only property) or a reject (WriteProperty without a value), symbolic: exactly one reply; "
             "the same request again is answered again; the device stays clean and healthy",
      outside="requests that need a segmented answer (long_answer)",
      stubs=STUBS)
def known_client(d):
    w = World()
    lan = nl.FaultLAN([], world=w)
    dev = LearningDevice(nl.make_device("dut", 20), lan)
    av = AnalogValueObject(objectIdentifier=("analogValue", 1), objectName="av1", presentValue=72.5,
                           statusFlags=[0, 0, 0, 0], units="degreesFahrenheit")
    dev.add_object(av)
    peer = nl.RawPeer(PEER, lan)
    size = d.pick([50, 1024], 'announced_max_apdu')
    seg = d.int(0, 3, 'announced_segmentation')
    peer.send(dev.address, nl.frame(bytes([0x10, 0x00, 0xC4, 0x02, 0x00, 0x00, PEER, 0x22, size >> 8, size & 255,
                                           0x91, seg, 0x21, 0x0F]), False))
    w.run()
    if dev.deviceInfoCache.get_device_info(peer.address) is None:
        raise Violation("i-am-not-learned")
    sa = d.bool('sa')
    maxresp = d.int(0, 5, 'maxresp')
    what = d.pick(["read", "write-denied", "write-no-value"], 'request')
    inv = 0x51
    hdr = bytes([0x02 if sa else 0x00, 0x40 + maxresp, inv])
    body = {"read": bytes([0x0C, 0x0C, 0x00, 0x80, 0x00, 0x01, 0x19, 0x55]),
            "write-denied": bytes([0x0F, 0x0C, 0x00, 0x80, 0x00, 0x01, 0x19, 0x4D, 0x3E, 0x75, 0x02, 0x00, 0x78, 0x3F]),
            "write-no-value": bytes([0x0F, 0x0C, 0x00, 0x80, 0x00, 0x01, 0x19, 0x55, 0x3E, 0x3F])}[what]
    for attempt in (1, 2):
        n0 = len(peer.received)
        peer.send(dev.address, nl.frame(hdr + body, True))
        w.run()
        rs = replies(peer, n0)
        mine = [x for x in rs if x["invoke"] == inv and x["type"] in REPLY_TYPES]
        if len(mine) != 1 or len(rs) != 1:
            d.flag(True, "not-exactly-one-reply", n=len(mine), replies=len(rs), attempt=attempt, request=what, sa=bool(sa),
                   announced=[size, seg], logged=[e[1] for e in d.errors_logged()])
    check_health(d, w, lan, dev, peer, "known-client")
    d.reach()


@meta(bounds="two stations use the SAME invoke ID at the same time: the first asks for the 64-character object name with a 50-octet "
             "limit (a segmented answer: it acknowledges segment by segment), the second sends a plain ReadProperty while the "
             "first transfer is under way (after a symbolic number 0..1 of acknowledged segments, of two): the second gets its own "
             "answer at once, the first transfer runs to its end with the right octets",
      outside="more than two stations",
      stubs=STUBS)
def same_id_clients(d):
    w, lan, dev, peer, av = _named_world("segmentedBoth")
    other = nl.RawPeer(PEER + 1, lan)
    inv = 0x42
    peer.send(dev.address, nl.frame(bytes([0x02, 0x00, inv, 0x0C, 0x0C, 0x00, 0x80, 0x00, 0x01, 0x19, 0x4D]), True))
    w.run(until=w.clock)
    after = d.int(0, 1, 'acknowledged_before_the_second_request')
    got = b""
    seen = 0
    asked = False
    for step in range(12):
        segs = [x for x in replies(peer)[seen:] if x["type"] == 3]
        seen = len(replies(peer))
        if step == after and not asked:
            asked = True
            other.send(dev.address, nl.frame(read_pv(inv), True))
            w.run(until=w.clock)
            ro = replies(other)
            if len(ro) != 1 or ro[0]["type"] != 3 or ro[0]["invoke"] != inv or bytes(ro[0]["payload"]) != PV_ACK_BODY:
                raise Violation("second-client-not-answered", got=[(x["type"], x["invoke"]) for x in ro], after=after)
            segs += [x for x in replies(peer)[seen:] if x["type"] == 3]
            seen = len(replies(peer))
        if not segs:
            break
        for x in segs:
            got += bytes(x["payload"])
        peer.send(dev.address, nl.frame(bytes([0x40, inv, segs[-1]["seq"], 0x01]), False))
        w.run(until=w.clock)
        if not segs[-1]["mor"]:
            break
    name = bytes(LONG_NAME, "ascii")
    if name not in got or len(replies(other)) != 1:
        raise Violation("first-transfer-disturbed", octets=len(got), second_replies=len(replies(other)), after=after)
    w.run()
    if nl.residue(dev) or not w.idle():
        raise Violation("leftover-transaction", residue=nl.residue(dev), after="same-id-clients")
    d.reach()


@meta(bounds="an answer at the size boundary: ReadProperty of an object name of 33..37 characters (a ComplexAck of 48..52 octets) "
             "with max-response 50 octets toward a device that cannot segment: an answer that fits the announced size is GIVEN "
             "(one unsegmented ComplexAck), one that does not is refused with an abort - exactly one reply either way",
      outside="other sizes",
      stubs=STUBS)
def fitting_answer(d):
    n = d.pick([33, 34, 35, 36, 37], 'name_length')
    w = World()
    lan = nl.FaultLAN([], world=w)
    dev = Device(nl.make_device("dut", 20, segmentationSupported="noSegmentation", maxApduLengthAccepted=50), lan)
    av = AnalogValueObject(objectIdentifier=("analogValue", 1), objectName="n" * n, presentValue=72.5,
                           statusFlags=[0, 0, 0, 0], units="degreesFahrenheit")
    dev.add_object(av)
    peer = nl.RawPeer(PEER, lan)
    inv = 0x33
    peer.send(dev.address, nl.frame(bytes([0x00, 0x00, inv, 0x0C, 0x0C, 0x00, 0x80, 0x00, 0x01, 0x19, 0x4D]), True))
    w.run()
    rs = replies(peer)
    if len(rs) != 1 or rs[0]["invoke"] != inv:
        raise Violation("not-exactly-one-reply", n=len(rs), name_length=n)
    fits = 15 + n <= 50        # 3 octets of header, 12 of framing, the characters
    if fits and (rs[0]["type"] != 3 or rs[0]["seg"]):
        raise Violation("fitting-answer-refused", name_length=n, octets=15 + n, got=rs[0]["type"])
    if not fits and rs[0]["type"] != 7:
        raise Violation("oversize-answer-not-aborted", name_length=n, octets=15 + n, got=rs[0]["type"])
    check_health(d, w, lan, dev, peer, "fitting-answer")
    d.reach()


@meta(bounds="two stations with the SAME MAC octet, one on the device's LAN and one on remote network 5 behind a router, use the same "
             "invoke ID: the local one has begun a segmented request (first segment acknowledged) when the router relays a "
             "plain ReadProperty from the remote one: the remote station gets its answer through the router, the local "
             "transfer is not disturbed (its next segment is acknowledged)",
      outside="more than two stations",
      stubs=STUBS)
def same_mac_clients(d):
    w, lan, dev, peer, av = make_world()
    router = nl.RawPeer(50, lan)
    inv = d.pick([0x42, 0x00], 'invoke')
    first = bytes([0x0C, 0x05, inv, 0x00, 0x02, 0x0C, 0x0C, 0x00, 0x80, 0x00, 0x01])
    peer.send(dev.address, nl.frame(first, True))
    w.run(until=w.clock)
    acks = [x for x in replies(peer) if x["type"] == 4]
    if len(acks) != 1:
        raise Violation("first-segment-not-acknowledged", n=len(acks))
    router.send(dev.address, bytes([0x01, 0x0C, 0x00, 0x05, 0x01, PEER]) + read_pv(inv))
    w.run(until=w.clock)
    got = []
    for (src, data) in router.received:
        nn, a = wire.parse_frame(data)
        if a is not None:
            got.append((nn, a))
    if len(got) != 1 or got[0][0]["dnet"] != 5 or got[0][0]["dadr"] != bytes([PEER]) or got[0][1]["type"] != 3 \
            or got[0][1]["invoke"] != inv or bytes(got[0][1]["payload"]) != PV_ACK_BODY:
        raise Violation("remote-twin-not-answered", n=len(got), to_local=[(x["type"], x["invoke"]) for x in replies(peer)])
    if [x["type"] for x in replies(peer)] != [4]:
        raise Violation("local-transfer-disturbed", got=[x["type"] for x in replies(peer)])
    peer.send(dev.address, nl.frame(bytes([0x08, 0x05, inv, 0x01, 0x02, 0x0C, 0x19, 0x55]), True))
    w.run()
    kinds = [x["type"] for x in replies(peer)]
    if kinds[:2] != [4, 4] or len(kinds) != 3 or kinds[2] != 3:
        raise Violation("local-transfer-disturbed", got=kinds, after="last segment")
    del peer.received[:]
    check_health(d, w, lan, dev, peer, "same-mac-clients")
    d.reach()


@meta(bounds="a device bound without a network number hears Network-Number-Is twice (numbers 1..3 symbolic, equal or different) and "
             "then a ReadProperty relayed by a router from a station on one of those networks (symbolic): it is answered "
             "through the router - unless that network is the one the device now believes to be its own",
      outside="more than two announcements",
      stubs=STUBS)
def renumbered(d):
    w, lan, dev, peer, av = make_world()
    router = nl.RawPeer(50, lan)
    n1 = d.pick([1, 2, 3], 'first_number')
    n2 = d.pick([1, 2, 3], 'second_number')
    for n in (n1, n2):
        router.send(nl.LocalBroadcast(), bytes([0x01, 0x80, 0x13, 0x00, n, 0x01]))
        w.run()
    snet = d.pick([1, 2, 3], 'requesters_network')
    d.assume(snet != n2)
    del router.received[:]
    router.send(dev.address, bytes([0x01, 0x0C, 0x00, snet, 0x01, 0x07]) + read_pv(0x42))
    w.run()
    got = []
    for (src, data) in router.received:
        nn, a = wire.parse_frame(data)
        if a is not None:
            got.append((nn, a))
    if len(got) != 1 or got[0][0]["dnet"] != snet or got[0][1]["type"] != 3 or bytes(got[0][1]["payload"]) != PV_ACK_BODY:
        raise Violation("routed-request-not-answered-after-renumbering", n=len(got), first=n1, second=n2, requester=snet)
    check_health(d, w, lan, dev, peer, "renumbered")
    d.reach()


@meta(bounds="garbage that claims to be relayed from a remote network: station G sends a frame whose NPCI names source "
             "network 5 (SADR 7) followed by a concrete first APDU octet and 0..n symbolic octets (or nothing); "
             "then the real router R relays a valid ReadProperty from network 5 (from station 7 or 9); order of the two symbolic",
      outside="longer garbage; several remote networks; garbage with a DNET",
      stubs=STUBS)
def routed_noise(d, n):
    w, lan, dev, peer, av = make_world()
    router = nl.RawPeer(PEER + 1, lan)
    g_sadr = 7
    first = d.pick([[], [0x00], [0x10], [0x30], [0x70]], 'garbage_apdu_starts_with')
    k = d.index(n + 1, 'noise_tail_length') if first else 0
    area = bytes(list(first) + [d.int(0, 255, 'noise%d' % i) for i in range(k)])
    der = d.bool('garbage_expects_reply')
    garbage = bytes([1, 0x0C if der else 0x08, 0, 5, 1, g_sadr]) + area
    r_sadr = d.pick([7, 9], 'requester_sadr')      # the station the garbage named, or another one
    valid = bytes([1, 0x0C, 0, 5, 1, r_sadr]) + read_pv(0x42)
    garbage_first = d.bool('garbage_first')
    if garbage_first:
        peer.send(dev.address, garbage)
        w.run()
    router.send(dev.address, valid)
    w.run()
    if not garbage_first:
        peer.send(dev.address, garbage)
        w.run()
    # the answer goes back through the router that relayed the request, addressed to the requester on network 5
    got = []
    for (src, data) in router.received:
        nn, a = wire.parse_frame(data)
        if a is not None:
            got.append((nn, a))
    if len(got) != 1:
        raise Violation("routed-request-not-answered-through-its-router", n=len(got), garbage=garbage,
                        to_garbage_sender=len(peer.received), garbage_first=garbage_first)
    nn, a = got[0]
    if nn["dnet"] != 5 or nn["dadr"] != bytes([r_sadr]) or a["type"] != 3 or a["invoke"] != 0x42 \
            or bytes(a["payload"]) != PV_ACK_BODY:
        raise Violation("routed-answer-wrong", dnet=nn["dnet"], dadr=nn["dadr"], type=a["type"], invoke=a["invoke"])
    for (src, data) in peer.received:
        nn, a = wire.parse_frame(data)
        # (the garbage may itself be a well-formed request - e.g. a ReadPropertyMultiple without specifications - and is then
        # answered to its sender; what must not go there is the answer to the relayed request)
        if a is not None and a["type"] == 3 and a["invoke"] == 0x42 and bytes(a["payload"]) == PV_ACK_BODY:
            raise Violation("answer-delivered-to-garbage-sender", garbage=garbage)
    check_health(d, w, lan, dev, peer, "routed-noise")
    d.reach()


# ------------------------------------------------------------------ a B/IP device fed the way UDPDirector does
from bacpypes.comm import Server, bind                                               # noqa: E402
from bacpypes.pdu import PDU, Address as _Address                                    # noqa: E402
from bacpypes.bvllservice import BIPSimple, AnnexJCodec                              # noqa: E402
from bacpypes.app import Application                                                 # noqa: E402
from bacpypes.appservice import StateMachineAccessPoint, ApplicationServiceAccessPoint     # noqa: E402
from bacpypes.netservice import NetworkServiceAccessPoint, NetworkServiceElement    # noqa: E402
import bacpypes.core as core                                                         # noqa: E402


class _QuietNSE(NetworkServiceElement):
    _startup_disabled = True


class FakeDirector(Server):
    """stands in for UDPMultiplexer + UDPDirector (real sockets): a received datagram is handed up by ONE
    core.deferred() call, exactly as UDPDirector.handle_read() does; what the stack sends is recorded"""

    def __init__(self):
        Server.__init__(self)
        self.sent = []

    def indication(self, pdu):
        self.sent.append((pdu.pduDestination, bytes(pdu.pduData)))

    def datagram(self, octets, source):
        core.deferred(self.response, PDU(octets, source=source, destination=DEVICE_IP))


DEVICE_IP = _Address("192.168.0.20")
PEER_IP = _Address("192.168.0.31")
OTHER_IP = _Address("192.168.0.32")


class BIPDevice(Application, WhoIsIAmServices, ReadWritePropertyServices, ReadWritePropertyMultipleServices):
    _startup_disabled = True

    def __init__(self, dev):
        Application.__init__(self, dev)
        self.asap = ApplicationServiceAccessPoint()
        self.smap = StateMachineAccessPoint(dev)
        self.smap.deviceInfoCache = self.deviceInfoCache
        self.nsap = NetworkServiceAccessPoint()
        self.nse = _QuietNSE()
        bind(self.nse, self.nsap)
        bind(self, self.asap, self.smap, self.nsap)
        self.bip, self.annexj, self.director = BIPSimple(), AnnexJCodec(), FakeDirector()
        bind(self.bip, self.annexj, self.director)
        self.nsap.bind(self.bip, address=DEVICE_IP)


def bvll_unicast(npdu):
    n = 4 + len(npdu)
    return bytes([0x81, 0x0A, n // 256, n % 256]) + bytes(npdu)


@meta(bounds="a B/IP device stack (application .. NSAP - BIPSimple - AnnexJCodec) fed the way UDPDirector.handle_read does: "
             "each datagram by one core.deferred() call; a symbolic datagram of 0..n octets and a valid ReadProperty "
             "(Original-Unicast-NPDU) from another station queued in the same deferred batch in symbolic order",
      outside="datagrams longer than n, real sockets",
      stubs=STUBS + ["UDPMultiplexer/UDPDirector (real sockets) -> FakeDirector: one core.deferred() per datagram"])
def bip_noise(d, n, first=None):
    w = World()
    dev = BIPDevice(nl.make_device("dut", 20))
    av = AnalogValueObject(objectIdentifier=("analogValue", 1), objectName="av1", presentValue=72.5,
                           statusFlags=[0, 0, 0, 0], units="degreesFahrenheit")
    dev.add_object(av)
    noise = draw_noise(d, n, first)
    valid = bvll_unicast(nl.frame(read_pv(0x42), True))
    noise_first = d.bool('noise_first')
    if noise_first:
        dev.director.datagram(noise, PEER_IP)
    dev.director.datagram(valid, OTHER_IP)
    if not noise_first:
        dev.director.datagram(noise, PEER_IP)
    w.run()

    def answers(to):
        out = []
        for (dst, data) in dev.director.sent:
            if dst == to and len(data) > 4 and data[0] == 0x81 and data[1] == 0x0A:
                try:
                    np_, a = wire.parse_frame(data[4:])
                except wire.Malformed:
                    raise Violation("device-emitted-malformed-frame", data=data)
                if a is not None:
                    out.append(a)
        return out
    ro = answers(OTHER_IP)
    if len(ro) != 1 or ro[0]["type"] != 3 or ro[0]["invoke"] != 0x42 or bytes(ro[0]["payload"]) != PV_ACK_BODY:
        raise Violation("concurrent-valid-request-not-answered", noise=noise, noise_first=noise_first,
                        got=[(x["type"], x["invoke"]) for x in ro], logged=[e[1] for e in d.errors_logged()])
    if nl.residue(dev) or not w.idle():
        raise Violation("leftover-transaction", after="bvll-noise", noise=noise)
    # and a later valid request is answered as well
    n0 = len(dev.director.sent)
    dev.director.datagram(bvll_unicast(nl.frame(read_pv(0x43), True)), PEER_IP)
    w.run()
    rp = [a for a in answers(PEER_IP) if a["invoke"] == 0x43 and a["type"] == 3]
    if len(rp) != 1:
        raise Violation("subsequent-valid-request-not-answered", after="bvll-noise", noise=noise)
    d.reach()


def instances(tier):
    q = tier == "quick"
    out = []
    out.append(Inst(bip_noise, dict(n=3 if q else 5), budget=80 if q else 600))
    out.append(Inst(bip_noise, dict(n=4 if q else 6, first=[0x81, 0x0A]), budget=80 if q else 900, label="unicast-npdu"))
    if not q:
        out.append(Inst(bip_noise, dict(n=6, first=[0x81, 0x0B]), budget=900, label="broadcast-npdu"))
        out.append(Inst(bip_noise, dict(n=10, first=[0x81, 0x04]), budget=900, label="forwarded-npdu"))
        for f in (0x00, 0x01, 0x02, 0x05, 0x06, 0x07, 0x09, 0x0C):
            out.append(Inst(bip_noise, dict(n=4, first=[0x81, f]), budget=600, label="function-%02x" % f))
    svcs = sorted(A.confirmed_request_types)
    impl = [12, 15, 14, 16]     # ReadProperty, WriteProperty, ReadPropertyMultiple, WritePropertyMultiple
    if q:
        # the services the device implements, plus a sample of the others; all of them in thorough
        svcs = impl + [5, 10, 18, 26, 6]
    for s in svcs:
        n = (2 if s in impl else 1) if q else (3 if s in impl else 2)
        out.append(Inst(svc_garbage, dict(svc=s, n=n), budget=80 if q else 900, path_timeout=60,
                        label="%s,n=%d" % (A.confirmed_request_types[s].__name__, n)))
    out.append(Inst(svc_garbage, dict(svc=None, n=1 if q else 2), budget=80 if q else 300, label="unregistered"))
    for service in VALID:
        for mutation in ("substitute", "delete", "insert"):
            if q and service in ("write-property", "read-property-multiple", "subscribe-cov") and mutation == "insert":
                continue
            flen = FRAME_LEN[service]
            parts = 1 if mutation == "delete" else max(3, flen // 2)
            for i in range(parts):
                out.append(Inst(frame_mutation, dict(service=service, mutation=mutation, part=(i, parts)),
                                budget=80 if q else 900, path_timeout=60,
                                label="%s,%s,part%d/%d" % (service, mutation, i + 1, parts)))
    # the fixed header mutated toward devices that do not take segmented requests
    for seg in ("noSegmentation", "segmentedTransmit"):
        out.append(Inst(frame_mutation, dict(service="read-property", mutation="substitute", seg=seg, header_only=True),
                        budget=80 if q else 300, label="read-property,substitute,header,%s" % seg))
    # link-level noise: anything short; then version-1 frames whose control octet says "APDU follows" (the APDU
    # area is garbage) and network-layer messages of known / unknown / proprietary types (the type octet is kept
    # concrete: a class looked up by a symbolic key cannot be instantiated by the engine)
    out.append(Inst(layer_noise, dict(n=2 if q else 3, first=None), budget=80 if q else 600))
    out.append(Inst(layer_noise, dict(n=2 if q else 4, first=[1, 0x00]), budget=80 if q else 900, label="apdu-area,local"))
    for t in ((0x00, 0x01, 0x02, 0x03, 0x12, 0x13, 0x14) if q else (0x00, 0x01, 0x02, 0x03, 0x06, 0x08, 0x12, 0x13, 0x14, 0x7F, 0x80)):
        out.append(Inst(layer_noise, dict(n=(1 if t == 0x01 else 2) if q else (2 if t == 0x01 else 3), first=[1, 0x80, t]),
                        budget=80 if q else 600,
                        label="network-message-%02x" % t))
    out.append(Inst(routed_noise, dict(n=1 if q else 3), budget=120 if q else 900, path_timeout=60))
    out.append(Inst(dcc_values, {}, budget=120 if q else 300, path_timeout=60))
    out.append(Inst(half_open, {}, budget=120 if q else 300, path_timeout=60))
    for seg in ("noSegmentation", "segmentedReceive", "segmentedTransmit", "segmentedBoth"):
        out.append(Inst(long_answer, dict(seg=seg), budget=120 if q else 300, path_timeout=60))
    out.append(Inst(half_read, {}, budget=200 if q else 600, path_timeout=60))
    out.append(Inst(known_client, {}, budget=200 if q else 600, path_timeout=60))
    out.append(Inst(same_id_clients, {}, budget=120 if q else 300, path_timeout=60))
    out.append(Inst(fitting_answer, {}, budget=120, path_timeout=60))
    out.append(Inst(same_mac_clients, {}, budget=120, path_timeout=60))
    out.append(Inst(renumbered, {}, budget=120, path_timeout=60))
    for which in ODD:
        out.append(Inst(odd_requests, dict(which=which), budget=120 if q else 300, path_timeout=60))
    if not q:
        out.append(Inst(layer_noise, dict(n=6, first=[1, 0x20]), budget=900, label="apdu-area,dnet"))
        out.append(Inst(layer_noise, dict(n=5, first=[1, 0x08]), budget=1500, label="apdu-area,snet"))
    return out
