"""C05 - segmented transfers deliver the exact payload and survive any single fault."""
from ..api import Inst, Violation, meta
from ..world import World
from .. import netlab as nl
from ..ref import wire

from bacpypes.apdu import ConfirmedPrivateTransferACK

SEG_BOTH = "segmentedBoth"
APDU_TIMEOUT = 3000
SEG_TIMEOUT = 1500


def wire_oracle(d, lan, client_addr, server_addr):
    """clause 5.2/5.4 as seen on the LAN, read with the independent header decoder:
    per direction of transfer, new segments carry consecutive sequence numbers modulo 256
    starting at 0, more-follows is set on all but the last, and the sender never has more
    distinct unacknowledged segments outstanding than the window in force (1 before the
    first segment-ack, afterwards the window size of the latest segment-ack)."""
    # direction key: (sender address text, apdu type 0=request segments / 3=response segments)
    st = {}
    for (i, src, dst, data) in lan.frames:
        try:
            n, a = wire.parse_frame(data)
        except wire.Malformed:
            raise Violation("malformed-frame-on-wire", index=i)
        if a is None:
            continue
        if a["type"] in (0, 3) and a["seg"]:
            key = (str(src), a["type"], a["invoke"])
            s = st.setdefault(key, dict(next=0, count=0, outstanding=set(), window=1, done=False, seen={}, acked=-1))
            seq = a["seq"]
            if seq in s["seen"] and s["seen"][seq] == (a["mor"], a["payload"]):
                # retransmission of a segment already sent: its absolute index is the latest one with that number
                idx = s["next"] - 1 - ((s["next"] - 1 - seq) % 256)
            else:
                if seq != s["next"] % 256:
                    d.flag(True, "sequence-not-consecutive", index=i, seq=seq, expected=s["next"] % 256)
                if s["done"]:
                    d.flag(True, "segment-after-last", index=i, seq=seq)
                s["seen"][seq] = (a["mor"], a["payload"])
                idx = s["next"]
                s["next"] += 1
                if not a["mor"]:
                    s["done"] = True
            # unacknowledged = sent and beyond what the receiver has acknowledged so far (a segment-ack, positive or negative,
            # acknowledges everything up to its number); a retransmission of an acknowledged segment adds nothing
            if idx > s["acked"]:
                s["outstanding"].add(idx)
            if len(s["outstanding"]) > s["window"]:
                d.flag(True, "window-exceeded", index=i, outstanding=len(s["outstanding"]), window=s["window"])
            if not (1 <= a["win"] <= 127):
                d.flag(True, "window-out-of-range", index=i, win=a["win"])
        elif a["type"] == 4:
            # a segment-ack from the receiver re-opens the window of the sender it answers:
            # srv=1 acks request segments (sent by dst), srv=0 acks response segments
            key = (str(dst), 0 if a["srv"] else 3, a["invoke"])
            s = st.get(key)
            if s is not None and s["next"] > 0:
                # the latest segment sent so far that carries this number
                upto = s["next"] - 1 - ((s["next"] - 1 - a["seq"]) % 256)
                if upto > s["acked"]:
                    s["acked"] = upto
                s["outstanding"] = set(x for x in s["outstanding"] if x > s["acked"])
                s["window"] = a["win"]
            if not (1 <= a["win"] <= 127):
                d.flag(True, "window-out-of-range", index=i, win=a["win"])
    return st


@meta(bounds="two complete stacks on the fault-injecting LAN, max APDU S both sides (segment size S), proposed windows "
             "wc/ws, retries 3; request and response payloads of the instance's lengths with EVERY octet symbolic; nf "
             "faults each at a symbolic frame index 0..horizon with kind symbolic in the instance's kind set "
             "(drop / duplicate / hold-and-release-after-1-or-2-later-frames); APDU timeout 3 s, segment timeout 1.5 s, or "
             "the library's default 5 s where the instance says Tseg5000",
      outside="more than nf faults, fault positions beyond `horizon`, S other than the instance's, payloads of more "
              "than 4 segments in the scenario harness (seg_step covers long transfers and wrap-around)",
      stubs=["virtual clock (task._time)", "asyncore.loop -> clock advance", "task._Trigger -> wake flag",
             "fresh singletons per path", "vlan.Network.process_pdu subclassed with a fault schedule"],
      assumes=["processing takes zero virtual time", "a held (delayed) frame is eventually delivered"])
def seg_payload(d, S, wc, ws, req, resp, nf, kinds, horizon, retries=3, seg_timeout=SEG_TIMEOUT):
    w = World()
    faults = []
    for k in range(nf):
        idx = d.int(0, horizon, 'fault%d_at' % k)
        kind = d.pick(kinds, 'fault%d_kind' % k)
        arg = d.pick([1, 2], 'fault%d_hold' % k) if kind in (nl.HOLD, nl.DELAY) else 1
        faults.append(nl.Fault(idx, kind, arg))
    lan = nl.FaultLAN(faults, world=w)
    cdev = nl.make_device("c", 10, maxApduLengthAccepted=S, segmentationSupported=SEG_BOTH, numberOfApduRetries=retries,
                          apduTimeout=APDU_TIMEOUT, apduSegmentTimeout=seg_timeout, maxSegmentsAccepted=64)
    sdev = nl.make_device("s", 20, maxApduLengthAccepted=S, segmentationSupported=SEG_BOTH, numberOfApduRetries=retries,
                          apduTimeout=APDU_TIMEOUT, apduSegmentTimeout=seg_timeout, maxSegmentsAccepted=64)
    client = nl.AppStack(cdev, lan, window=wc)
    server = nl.AppStack(sdev, lan, window=ws)
    reqp = d.bytes(req[0], req[1], 'req_payload')
    respp = d.bytes(resp[0], resp[1], 'resp_payload')
    server.pt_result = respp
    apdu = nl.private_transfer(server.address, reqp)
    client.request(apdu)
    w.run()
    if lan.flush():
        w.run()

    # (a) whatever reaches an application is octet-for-octet what was submitted
    for seen in server.pt_seen:
        got = nl.payload_of(seen, 'serviceParameters')
        if got is None or bytes(got) != bytes(reqp):
            raise Violation("request-payload-altered", got=got, want=reqp, fates=lan.fate)
        if seen.vendorID != nl.VENDOR or seen.serviceNumber != 1:
            raise Violation("request-parameters-altered", fates=lan.fate)
    acks = [c for c in client.confirmations if isinstance(c, ConfirmedPrivateTransferACK)]
    for ack in acks:
        got = nl.payload_of(ack, 'resultBlock')
        if got is None or bytes(got) != bytes(respp):
            raise Violation("response-payload-altered", got=got, want=respp, fates=lan.fate)
    # a transfer that cannot be completed is reported as an abort - never something else
    others = [nl.outcome_kind(c) for c in client.confirmations if not isinstance(c, ConfirmedPrivateTransferACK)]
    for k in others:
        d.flag(k != "abort", "incomplete-transfer-not-abort", outcome=k, fates=lan.fate)
    if len(client.confirmations) != 1:
        raise Violation("outcome-count", n=len(client.confirmations), fates=lan.fate)
    # (b) on the wire
    wire_oracle(d, lan, client.address, server.address)
    # (c) any ONE lost / duplicated / late frame is repaired and the transaction succeeds
    hit = [f for f in lan.fate if f != "delivered"]
    if nf <= 1 and len(hit) <= 1:
        if not acks:
            what = hit[0] if hit else "none"
            at = lan.fate.index(hit[0]) if hit else -1
            fr = wire.parse_frame(lan.frames[at][3])[1] if hit else None
            req_seg = any(wire.parse_frame(f[3])[1]["type"] == 0 and wire.parse_frame(f[3])[1]["seg"] for f in lan.frames)
            d.flag(True, "single-fault-not-repaired", fault=what, at=at, seg_timeout=seg_timeout, request_segmented=bool(req_seg),
                   frame=(wire.APDU_NAMES[fr["type"]] if fr else None), seq=(fr["seq"] if fr else None),
                   sender=("client" if hit and str(lan.frames[at][1]) == str(client.address) else "server"),
                   outcome=others, errors=[e[1] for e in d.errors_logged()])
    d.note(fates=lan.fate, outcome=[nl.outcome_kind(c) for c in client.confirmations], frames=len(lan.frames))
    d.reach()


REPAIRABLE = [nl.DROP, nl.DUP, nl.HOLD]


def label(p):
    return "S%d,w%d/%d,req%s,resp%s,%dx%s%s" % (p["S"], p["wc"], p["ws"], "-".join(map(str, p["req"])),
                                               "-".join(map(str, p["resp"])), p["nf"], "".join("DUHSL"[k] for k in p["kinds"]),
                                               ",Tseg%d" % p["seg_timeout"] if "seg_timeout" in p else "")


def instances(tier):
    q = tier == "quick"
    out = []
    if q:
        # S = 50: a request segment carries 44 octets of service data, a response segment 45; a private transfer
        # body is 11 octets + payload, so payload 60 -> 2 segments, 100 -> 3, 150 -> 4
        cfgs = [
            dict(S=50, wc=2, ws=2, req=(60, 60), resp=(2, 2), nf=1, kinds=REPAIRABLE, horizon=12),
            dict(S=50, wc=2, ws=2, req=(2, 2), resp=(60, 60), nf=1, kinds=REPAIRABLE, horizon=12),
            dict(S=50, wc=1, ws=3, req=(100, 100), resp=(100, 100), nf=1, kinds=[nl.DROP, nl.DUP], horizon=16),
            dict(S=50, wc=3, ws=1, req=(150, 150), resp=(2, 2), nf=1, kinds=[nl.DROP, nl.DUP], horizon=14),
            dict(S=50, wc=4, ws=4, req=(2, 2), resp=(150, 150), nf=1, kinds=[nl.DROP, nl.HOLD], horizon=14),
            # a request window of several segments in flight: loss / overtaking inside the window
            dict(S=50, wc=4, ws=4, req=(150, 150), resp=(2, 2), nf=1, kinds=REPAIRABLE, horizon=14),
            dict(S=50, wc=8, ws=3, req=(200, 200), resp=(2, 2), nf=1, kinds=[nl.DROP, nl.HOLD], horizon=14),
            # the library's default timers: segment timeout 5 s, longer than the 3 s APDU timeout
            dict(S=50, wc=2, ws=2, req=(2, 2), resp=(60, 60), nf=1, kinds=REPAIRABLE, horizon=12, seg_timeout=5000),
            dict(S=50, wc=2, ws=2, req=(60, 60), resp=(60, 60), nf=1, kinds=REPAIRABLE, horizon=14, seg_timeout=5000),
            # lengths on both sides of the boundaries (unsegmented/2 segments, 2/3 segments), no fault: pure
            # slicing, segment count, more-follows and reassembly
            dict(S=50, wc=2, ws=2, req=(33, 37), resp=(2, 2), nf=0, kinds=[nl.DROP], horizon=0),
            dict(S=50, wc=2, ws=2, req=(75, 80), resp=(2, 2), nf=0, kinds=[nl.DROP], horizon=0),
            dict(S=50, wc=2, ws=2, req=(2, 2), resp=(34, 38), nf=0, kinds=[nl.DROP], horizon=0),
            dict(S=50, wc=2, ws=2, req=(2, 2), resp=(77, 82), nf=0, kinds=[nl.DROP], horizon=0),
        ]
        for c in cfgs:
            out.append(Inst(seg_payload, c, budget=80, path_timeout=60, label=label(c)))
    else:
        for (wc, ws) in [(1, 1), (2, 2), (1, 3), (3, 1), (4, 8), (8, 4)]:
            for (req, resp) in [((60, 60), (2, 2)), ((2, 2), (60, 60)), ((100, 100), (100, 100)),
                                ((150, 150), (2, 2)), ((2, 2), (200, 200))]:
                c = dict(S=50, wc=wc, ws=ws, req=req, resp=resp, nf=1, kinds=REPAIRABLE, horizon=24)
                out.append(Inst(seg_payload, c, budget=600, path_timeout=90, label=label(c)))
        # every length around each boundary (0 .. 4S+2 in windows), loss-free
        for lo in range(0, 204, 6):
            c = dict(S=50, wc=2, ws=2, req=(lo, lo + 5), resp=(2, 2), nf=0, kinds=[nl.DROP], horizon=0)
            out.append(Inst(seg_payload, c, budget=300, path_timeout=90, label=label(c)))
            c = dict(S=50, wc=3, ws=2, req=(2, 2), resp=(lo, lo + 5), nf=0, kinds=[nl.DROP], horizon=0)
            out.append(Inst(seg_payload, c, budget=300, path_timeout=90, label=label(c)))
        # two faults
        for k1 in REPAIRABLE:
            for (req, resp) in [((60, 60), (2, 2)), ((2, 2), (60, 60))]:
                c = dict(S=50, wc=2, ws=2, req=req, resp=resp, nf=2, kinds=[k1] if False else REPAIRABLE, horizon=10)
                out.append(Inst(seg_payload, c, budget=900, path_timeout=90, label=label(c) + ",k1=%d" % k1))
        # the library's default timers (segment timeout 5 s > APDU timeout 3 s)
        for (req, resp) in [((60, 60), (2, 2)), ((2, 2), (60, 60)), ((60, 60), (60, 60)), ((100, 100), (100, 100)),
                            ((2, 2), (150, 150))]:
            c = dict(S=50, wc=2, ws=2, req=req, resp=resp, nf=1, kinds=REPAIRABLE, horizon=24, seg_timeout=5000)
            out.append(Inst(seg_payload, c, budget=600, path_timeout=90, label=label(c)))
        # S = 128
        for (req, resp) in [((130, 130), (2, 2)), ((2, 2), (260, 260))]:
            c = dict(S=128, wc=2, ws=2, req=req, resp=resp, nf=1, kinds=REPAIRABLE, horizon=14)
            out.append(Inst(seg_payload, c, budget=600, path_timeout=90, label=label(c)))
    return out


# ------------------------------------------------------------------ step lemmas from a symbolic state
from bacpypes.comm import bind, Server                                        # noqa: E402
from bacpypes.pdu import Address                                              # noqa: E402
from bacpypes.app import DeviceInfoCache                                      # noqa: E402
from bacpypes.appservice import (StateMachineAccessPoint, ClientSSM, ServerSSM,          # noqa: E402
                                 SEGMENTED_REQUEST, SEGMENTED_RESPONSE)
from bacpypes.apdu import ConfirmedRequestPDU, ComplexAckPDU, SegmentAckPDU   # noqa: E402

STATE_FIELDS = ("segmentAPDU", "segmentSize", "segmentCount", "invokeID", "state", "sentAllSegments",
                "segmentRetryCount", "initialSequenceNumber", "actualWindowSize")


_BODIES = {}


def _body(nsegs, S):
    """service data in which segment k starts with the two octets (k // 256, k % 256); built once"""
    if (nsegs, S) not in _BODIES:
        b = bytearray()
        for k in range(nsegs):
            b += bytes([k // 256, k % 256]) + bytes(S - 2)
        _BODIES[(nsegs, S)] = bytes(b)
    return _BODIES[(nsegs, S)]


for _n in (300, 800):
    _body(_n, 50)       # at import, outside the engine's tracing


class _Low(Server):
    def __init__(self):
        Server.__init__(self)
        self.sent = []

    def indication(self, pdu):
        self.sent.append(pdu)


def _long_transfer_delivers(nsegs, S, response):
    """witness history through the public API: a real loss-free transfer of nsegs segments between
    two stacks; True when the receiving application got the submitted octets"""
    w = World()
    lan = nl.FaultLAN([], world=w)
    cdev = nl.make_device("c", 10, maxApduLengthAccepted=S, maxSegmentsAccepted=64)
    sdev = nl.make_device("s", 20, maxApduLengthAccepted=S, maxSegmentsAccepted=64)
    client = nl.AppStack(cdev, lan, window=4)
    server = nl.AppStack(sdev, lan, window=4)
    big = bytes((i * 7 + i // 251) % 256 for i in range(nsegs * (S - 6) - 20))
    small = b"\x01"
    server.pt_result = big if response else small
    client.request(nl.private_transfer(server.address, small if response else big))
    w.run()
    if response:
        acks = [c for c in client.confirmations if isinstance(c, ConfirmedPrivateTransferACK)]
        return bool(acks) and bytes(nl.payload_of(acks[0], 'resultBlock')) == big
    return bool(server.pt_seen) and bytes(nl.payload_of(server.pt_seen[0], 'serviceParameters')) == big


@meta(bounds="a real ClientSSM (segmented request) / ServerSSM (segmented response) whose segmentation state is set to the "
             "situation 'segments 0..base-1 acknowledged, window base..base+win-1 sent' for a symbolic absolute position "
             "base (inside the instance's band lo..hi: bands at the start and around every wrap of the sequence number) in a "
             "transfer of nsegs segments, window 1..8 symbolic; one "
             "segment-ack for the last segment of the window is delivered",
      outside="segment sizes other than S (the slice arithmetic is linear in S), negative acks (seg_payload covers them "
              "within one sequence-number cycle)",
      stubs=["fresh singletons per path", "virtual clock", "state fields of SSM set directly (the anchors the property names); "
             "a counterexample counts only if a real loss-free transfer of that many segments also fails (witness history, "
             "run under plain replay)"])
def seg_step(d, side, nsegs, S, lo=0, hi=None):
    w = World()
    smap = StateMachineAccessPoint(None, DeviceInfoCache())
    low = _Low()
    bind(smap, low)
    smap.segmentationSupported = 'segmentedBoth'
    smap.proposedWindowSize = 8
    peer = Address(9)
    if side == "client":
        tr = ClientSSM(smap, peer)
        smap.clientTransactions.append(tr)
        apdu = ConfirmedRequestPDU(18)
        apdu.apduInvokeID = 7
        state = SEGMENTED_REQUEST
    else:
        tr = ServerSSM(smap, peer)
        smap.serverTransactions.append(tr)
        apdu = ComplexAckPDU(18, 7)
        state = SEGMENTED_RESPONSE
    for f in STATE_FIELDS:
        if not hasattr(tr, f):
            d.note(skipped="state field %s not present" % f)
            d.reach()
            return          # refactored away: the scenario harness still decides the property within its bounds
    apdu.pduData = bytearray(_body(nsegs, S))
    base = d.int(lo, nsegs - 2 if hi is None else hi, 'base')
    win = d.int(1, 8, 'window')
    d.assume(base + win <= nsegs - 1)       # the window does not contain the last segment
    tr.segmentAPDU, tr.segmentSize, tr.segmentCount, tr.invokeID = apdu, S, nsegs, 7
    tr.state, tr.sentAllSegments, tr.segmentRetryCount = state, False, 0
    tr.retryCount = 0
    tr.initialSequenceNumber = base % 256
    tr.actualWindowSize = win
    ackseq = (base + win - 1) % 256
    ack = SegmentAckPDU(0, 1 if side == "client" else 0, 7, ackseq, win)
    ack.pduSource = peer
    if side == "client":
        tr.confirmation(ack)
    else:
        tr.indication(ack)
    nxt = base + win
    if not low.sent:
        raise Violation("nothing-sent-after-ack", base=base, window=win)
    if len(low.sent) > win:
        raise Violation("window-exceeded", sent=len(low.sent), window=win)
    for j, f in enumerate(low.sent):
        want = nxt + j
        if f.apduSeq != want % 256:
            raise Violation("sequence-number", got=f.apduSeq, want=want % 256)
        got = f.pduData[0] * 256 + f.pduData[1]
        if got != want:
            wrapped = want >= 256
            if not d.symbolic and _long_transfer_delivers(want + 2, S + 6, side == "server"):
                # no real history shows it: the assumed pre-state is not reachable, nothing to report
                continue
            raise Violation("wrong-segment-after-ack", side=side, wrapped=wrapped,
                            carries=got, expected=want, base=base, window=win)
        if f.apduMor != (want < nsegs - 1):
            raise Violation("more-follows", index=want)
    d.reach()


@meta(bounds="a, b in 0..255 and window 1..127 symbolic", outside="nothing (the whole domain of the function)")
def in_window(d):
    w = World()
    smap = StateMachineAccessPoint(None, DeviceInfoCache())
    tr = ClientSSM(smap, Address(9))
    a, b, win = d.int(0, 255, 'a'), d.int(0, 255, 'b'), d.int(1, 127, 'window')
    tr.actualWindowSize = win
    got = tr.in_window(a, b)
    # reference: a is one of the `win` sequence numbers starting at b, modulo 256
    diff = a - b
    if diff < 0:
        diff += 256
    want = diff < win
    if bool(got) != want:
        raise Violation("in-window", a=a, b=b, window=win, got=bool(got))
    d.reach()


_base_instances = instances


def instances(tier):
    out = _base_instances(tier)
    q = tier == "quick"
    # every position forks (slicing at a symbolic offset): bands at the start and around each wrap of the
    # sequence number
    bands = [(0, 30), (236, 262)] if q else [(0, 40), (230, 275), (490, 530), (760, 780)]
    for side in ("client", "server"):
        for (lo, hi) in bands:
            out.append(Inst(seg_step, dict(side=side, nsegs=300 if q else 800, S=50, lo=lo, hi=hi),
                            budget=80 if q else 600, label="%s,base%d-%d" % (side, lo, hi)))
    out.append(Inst(in_window, {}, budget=60))
    return out
