"""C05 - segmented transfers deliver the exact payload and survive any single fault."""
from ..api import Inst, Violation, meta
from ..world import World
from .. import netlab as nl
from ..ref import wire

from bacpypes.apdu import ConfirmedPrivateTransferACK

SEG_BOTH = "segmentedBoth"
APDU_TIMEOUT = 3000
SEG_TIMEOUT = 1500


def wire_oracle(d, lan, client_addr, server_addr):
    """clause 5.2/5.4 as seen on the LAN, read with the independent header decoder:
    per direction of transfer, new segments carry consecutive sequence numbers modulo 256
    starting at 0, more-follows is set on all but the last, and the sender never has more
    distinct unacknowledged segments outstanding than the window in force (1 before the
    first segment-ack, afterwards the window size of the latest segment-ack)."""
    # direction key: (sender address text, apdu type 0=request segments / 3=response segments)
    st = {}
    for (i, src, dst, data) in lan.frames:
        try:
            n, a = wire.parse_frame(data)
        except wire.Malformed:
            raise Violation("malformed-frame-on-wire", index=i)
        if a is None:
            continue
        if a["type"] in (0, 3) and a["seg"]:
            key = (str(src), a["type"], a["invoke"])
            s = st.setdefault(key, dict(next=0, count=0, outstanding=set(), window=1, done=False, seen={}))
            seq = a["seq"]
            if seq in s["seen"] and s["seen"][seq] == (a["mor"], a["payload"]):
                # retransmission of a segment already sent
                s["outstanding"].add(seq)
            else:
                if seq != s["next"] % 256:
                    d.flag(True, "sequence-not-consecutive", index=i, seq=seq, expected=s["next"] % 256)
                if s["done"]:
                    d.flag(True, "segment-after-last", index=i, seq=seq)
                s["seen"][seq] = (a["mor"], a["payload"])
                s["next"] += 1
                s["outstanding"].add(seq)
                if not a["mor"]:
                    s["done"] = True
            if len(s["outstanding"]) > s["window"]:
                d.flag(True, "window-exceeded", index=i, outstanding=len(s["outstanding"]), window=s["window"])
            if not (1 <= a["win"] <= 127):
                d.flag(True, "window-out-of-range", index=i, win=a["win"])
        elif a["type"] == 4:
            # a segment-ack from the receiver re-opens the window of the sender it answers:
            # srv=1 acks request segments (sent by dst), srv=0 acks response segments
            key = (str(dst), 0 if a["srv"] else 3, a["invoke"])
            s = st.get(key)
            if s is not None:
                s["outstanding"] = set()
                s["window"] = a["win"]
            if not (1 <= a["win"] <= 127):
                d.flag(True, "window-out-of-range", index=i, win=a["win"])
    return st


@meta(bounds="two complete stacks on the fault-injecting LAN, max APDU S both sides (segment size S), proposed windows "
             "wc/ws, retries 3; request and response payloads of the instance's lengths with EVERY octet symbolic; nf "
             "faults each at a symbolic frame index 0..horizon with kind symbolic in the instance's kind set "
             "(drop / duplicate / hold-and-release-after-1-or-2-later-frames)",
      outside="more than nf faults, fault positions beyond `horizon`, S other than the instance's, payloads of more "
              "than 4 segments in the scenario harness (seg_step covers long transfers and wrap-around)",
      stubs=["virtual clock (task._time)", "asyncore.loop -> clock advance", "task._Trigger -> wake flag",
             "fresh singletons per path", "vlan.Network.process_pdu subclassed with a fault schedule"],
      assumes=["processing takes zero virtual time", "a held (delayed) frame is eventually delivered"])
def seg_payload(d, S, wc, ws, req, resp, nf, kinds, horizon, retries=3):
    w = World()
    faults = []
    for k in range(nf):
        idx = d.int(0, horizon, 'fault%d_at' % k)
        kind = d.pick(kinds, 'fault%d_kind' % k)
        arg = d.pick([1, 2], 'fault%d_hold' % k) if kind in (nl.HOLD, nl.DELAY) else 1
        faults.append(nl.Fault(idx, kind, arg))
    lan = nl.FaultLAN(faults, world=w)
    cdev = nl.make_device("c", 10, maxApduLengthAccepted=S, segmentationSupported=SEG_BOTH, numberOfApduRetries=retries,
                          apduTimeout=APDU_TIMEOUT, apduSegmentTimeout=SEG_TIMEOUT, maxSegmentsAccepted=64)
    sdev = nl.make_device("s", 20, maxApduLengthAccepted=S, segmentationSupported=SEG_BOTH, numberOfApduRetries=retries,
                          apduTimeout=APDU_TIMEOUT, apduSegmentTimeout=SEG_TIMEOUT, maxSegmentsAccepted=64)
    client = nl.AppStack(cdev, lan, window=wc)
    server = nl.AppStack(sdev, lan, window=ws)
    reqp = d.bytes(req[0], req[1], 'req_payload')
    respp = d.bytes(resp[0], resp[1], 'resp_payload')
    server.pt_result = respp
    apdu = nl.private_transfer(server.address, reqp)
    client.request(apdu)
    w.run()
    if lan.flush():
        w.run()

    # (a) whatever reaches an application is octet-for-octet what was submitted
    for seen in server.pt_seen:
        got = nl.payload_of(seen, 'serviceParameters')
        if got is None or bytes(got) != bytes(reqp):
            raise Violation("request-payload-altered", got=got, want=reqp, fates=lan.fate)
        if seen.vendorID != nl.VENDOR or seen.serviceNumber != 1:
            raise Violation("request-parameters-altered", fates=lan.fate)
    acks = [c for c in client.confirmations if isinstance(c, ConfirmedPrivateTransferACK)]
    for ack in acks:
        got = nl.payload_of(ack, 'resultBlock')
        if got is None or bytes(got) != bytes(respp):
            raise Violation("response-payload-altered", got=got, want=respp, fates=lan.fate)
    # a transfer that cannot be completed is reported as an abort - never something else
    others = [nl.outcome_kind(c) for c in client.confirmations if not isinstance(c, ConfirmedPrivateTransferACK)]
    for k in others:
        d.flag(k != "abort", "incomplete-transfer-not-abort", outcome=k, fates=lan.fate)
    if len(client.confirmations) != 1:
        raise Violation("outcome-count", n=len(client.confirmations), fates=lan.fate)
    # (b) on the wire
    wire_oracle(d, lan, client.address, server.address)
    # (c) any ONE lost / duplicated / late frame is repaired and the transaction succeeds
    hit = [f for f in lan.fate if f != "delivered"]
    if nf <= 1 and len(hit) <= 1:
        if not acks:
            what = hit[0] if hit else "none"
            at = lan.fate.index(hit[0]) if hit else -1
            fr = wire.parse_frame(lan.frames[at][3])[1] if hit else None
            d.flag(True, "single-fault-not-repaired", fault=what, at=at,
                   frame=(wire.APDU_NAMES[fr["type"]] if fr else None), seq=(fr["seq"] if fr else None),
                   sender=("client" if hit and str(lan.frames[at][1]) == str(client.address) else "server"),
                   outcome=others, errors=[e[1] for e in d.errors_logged()])
    d.note(fates=lan.fate, outcome=[nl.outcome_kind(c) for c in client.confirmations], frames=len(lan.frames))
    d.reach()


REPAIRABLE = [nl.DROP, nl.DUP, nl.HOLD]


def label(p):
    return "S%d,w%d/%d,req%s,resp%s,%dx%s" % (p["S"], p["wc"], p["ws"], "-".join(map(str, p["req"])),
                                             "-".join(map(str, p["resp"])), p["nf"], "".join("DUHSL"[k] for k in p["kinds"]))


def instances(tier):
    q = tier == "quick"
    out = []
    if q:
        cfgs = [
            dict(S=50, wc=2, ws=2, req=(60, 60), resp=(2, 2), nf=1, kinds=REPAIRABLE, horizon=12),
            dict(S=50, wc=2, ws=2, req=(2, 2), resp=(60, 60), nf=1, kinds=REPAIRABLE, horizon=12),
            dict(S=50, wc=1, ws=3, req=(100, 100), resp=(100, 100), nf=1, kinds=[nl.DROP, nl.DUP], horizon=16),
            dict(S=50, wc=3, ws=1, req=(150, 150), resp=(2, 2), nf=1, kinds=[nl.DROP, nl.DUP], horizon=14),
            dict(S=50, wc=4, ws=4, req=(2, 2), resp=(150, 150), nf=1, kinds=[nl.DROP, nl.HOLD], horizon=14),
            # lengths on both sides of the first boundaries, no fault: pure slicing/reassembly
            dict(S=50, wc=2, ws=2, req=(38, 42), resp=(2, 2), nf=0, kinds=[nl.DROP], horizon=0),
            dict(S=50, wc=2, ws=2, req=(2, 2), resp=(88, 92), nf=0, kinds=[nl.DROP], horizon=0),
        ]
        for c in cfgs:
            out.append(Inst(seg_payload, c, budget=80, path_timeout=60, label=label(c)))
    else:
        for (wc, ws) in [(1, 1), (2, 2), (1, 3), (3, 1), (4, 8), (8, 4)]:
            for (req, resp) in [((60, 60), (2, 2)), ((2, 2), (60, 60)), ((100, 100), (100, 100)),
                                ((150, 150), (2, 2)), ((2, 2), (200, 200))]:
                c = dict(S=50, wc=wc, ws=ws, req=req, resp=resp, nf=1, kinds=REPAIRABLE, horizon=24)
                out.append(Inst(seg_payload, c, budget=600, path_timeout=90, label=label(c)))
        # every length around each boundary (0 .. 4S+2 in windows), loss-free
        for lo in range(0, 204, 6):
            c = dict(S=50, wc=2, ws=2, req=(lo, lo + 5), resp=(2, 2), nf=0, kinds=[nl.DROP], horizon=0)
            out.append(Inst(seg_payload, c, budget=300, path_timeout=90, label=label(c)))
            c = dict(S=50, wc=3, ws=2, req=(2, 2), resp=(lo, lo + 5), nf=0, kinds=[nl.DROP], horizon=0)
            out.append(Inst(seg_payload, c, budget=300, path_timeout=90, label=label(c)))
        # two faults
        for k1 in REPAIRABLE:
            for (req, resp) in [((60, 60), (2, 2)), ((2, 2), (60, 60))]:
                c = dict(S=50, wc=2, ws=2, req=req, resp=resp, nf=2, kinds=[k1] if False else REPAIRABLE, horizon=10)
                out.append(Inst(seg_payload, c, budget=900, path_timeout=90, label=label(c) + ",k1=%d" % k1))
        # S = 128
        for (req, resp) in [((130, 130), (2, 2)), ((2, 2), (260, 260))]:
            c = dict(S=128, wc=2, ws=2, req=req, resp=resp, nf=1, kinds=REPAIRABLE, horizon=14)
            out.append(Inst(seg_payload, c, budget=600, path_timeout=90, label=label(c)))
    return out
