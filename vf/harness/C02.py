"""C02 - Tag streams are self-delimiting: framing is total, canonical and balanced.

Oracles: algebraic (round trip, every octet consumed, decode/encode fixed point) and a
reference model of clause 20.2.1 written from the standard (vf/ref/C02_tags.py).
Exceptions other than the ones an oracle names escape the harness on purpose: the engine
reports them as violation kind `escaped-exception` (exc / where / msg in the signature).
"""
from ..api import Inst, Violation, meta
from ..ref import C02_tags as R

from bacpypes.primitivedata import (Tag, ApplicationTag, ContextTag, OpeningTag, ClosingTag,
                                    TagList)
from bacpypes.constructeddata import Any
from bacpypes.pdu import PDUData
from bacpypes.errors import InvalidTag, DecodingError

APP, CTX, OPEN, CLOSE = R.APP, R.CTX, R.OPEN, R.CLOSE
KINDS = ['app', 'bool', 'ctx', 'open', 'close']
BIG = [252, 253, 254, 255, 65535, 65536, 70000]


# ---------------------------------------------------------------- helpers

def make_tag(kind, num, data, value=0):
    """build a tag through the public constructors -> (tag, class, number, lvt, contents)"""
    if kind == 'app':
        return ApplicationTag(num, data), APP, num, len(data), data
    if kind == 'bool':
        return Tag(Tag.applicationTagClass, Tag.booleanAppTag, value, b''), APP, 1, value, b''
    if kind == 'ctx':
        return ContextTag(num, data), CTX, num, len(data), data
    if kind == 'open':
        return OpeningTag(num), OPEN, num, 0, b''
    if kind == 'close':
        return ClosingTag(num), CLOSE, num, 0, b''
    raise AssertionError(kind)


def same_tag(t, cls, num, lvt, data):
    return (t.tagClass == cls and t.tagNumber == num and t.tagLVT == lvt
            and bytes(t.tagData) == bytes(data))


def same_tags(a, b):
    return (a.tagClass == b.tagClass and a.tagNumber == b.tagNumber and a.tagLVT == b.tagLVT
            and bytes(a.tagData) == bytes(b.tagData))


class Watched(PDUData):
    """PDUData that counts the read calls made on it: a decoder that stops consuming
    (the statement's "never loops") is reported instead of hanging the path."""

    def __init__(self, data, limit):
        PDUData.__init__(self, data)
        self.reads = 0
        self.limit = limit

    def _tick(self):
        self.reads += 1
        if self.reads > self.limit:
            raise Violation("does-not-terminate", reads=self.reads)

    def get(self):
        self._tick()
        return PDUData.get(self)

    def get_data(self, dlen):
        self._tick()
        # engine aid, no change of meaning: a length that came out of a symbolic octet is
        # pinned to a plain int (one path per feasible value - the fork the slice would cause
        # anyway) BEFORE the library slices its buffer; slicing a bytearray by a symbolic
        # bound leaves the engine with lazy views that cost ~100 queries per later `del`
        n = len(self.pduData)
        if dlen <= n:
            for k in range(n + 1):
                if dlen == k:
                    dlen = k
                    break
        return PDUData.get_data(self, dlen)


class CountedList(list):
    """a list that counts how often its length is asked for: a get_context / Any.decode loop
    that stops advancing is reported instead of hanging the path"""

    asks = 0
    limit = 0

    def __len__(self):
        self.asks += 1
        if self.asks > self.limit:
            raise Violation("does-not-terminate", asks=self.asks)
        return list.__len__(self)


def counted(tags):
    c = CountedList(tags)
    c.limit = 40 * (list.__len__(c) + 2)
    return c


def listed(data, lo, hi):
    """the same octets held as a Python list of (symbolic) ints of concrete length: forks once
    per length, after which the engine works with cheap list operations instead of a
    solver-level sequence (`del pduData[0]` on the latter costs ~100 queries)"""
    n = hi
    for k in range(lo, hi):
        if len(data) == k:
            n = k
            break
    return bytes([data[i] for i in range(n)])


def draw_number(d, numcls, name):
    if isinstance(numcls, int):
        return numcls               # a fixed number (decode_mutated shapes)
    if numcls == 'lo':
        return d.int(0, 14, name)
    if numcls == 'hi':
        return d.int(15, 254, name)
    return d.int(0, 254, name)


def draw_tag(d, kinds, lens, numcls, i=''):
    """one tag: kind symbolic over `kinds`, number symbolic (0..254, or only 0..14 / only
    15..254 when the instance shares one number class), content length symbolic over `lens`
    with symbolic octets"""
    kind = d.pick(kinds, 'kind%s' % i)
    if kind == 'bool':
        return make_tag(kind, 1, b'', d.int(0, 1, 'value%s' % i))
    num = draw_number(d, numcls, 'num%s' % i)
    if kind == 'app':
        d.assume(num != 1)          # application tag 1 is the boolean: kind 'bool'
    data = b''
    if kind in ('app', 'ctx'):
        k = d.pick(lens, 'len%s' % i)
        raw = d.bytes(k, k, 'data%s' % i)
        data = bytes([raw[j] for j in range(k)])
    return make_tag(kind, num, data)


def big_data(d, n):
    """n content octets: 12 symbolic ones (first 4, 4 spread inside, last 4), the rest a
    position dependent fill (a shift by one octet changes every value)"""
    sym = d.bytes(12, 12, 'sym')
    out = [(i * 7 + 3) % 251 for i in range(n)]
    where = [0, 1, 2, 3, n // 4, n // 2, n // 2 + 1, (3 * n) // 4, n - 4, n - 3, n - 2, n - 1]
    for k, w in enumerate(where):
        out[w] = sym[k]
    # a list of ints (some symbolic) keeps the engine on cheap list operations; a
    # solver-level sequence of 70000 free octets costs ~4 queries per octet
    return bytes(out)


# ---------------------------------------------------------------- tag_rt

@meta(bounds="one instance per kind (application with data, application boolean, context, opening, closing) x "
             "size; tag number symbolic 0..254 (application: != 1, the boolean has its own instance with value "
             "0/1 symbolic); size 'small' = content length symbolic 0..8 with every octet symbolic; sizes 252, 253, "
             "254, 255, 65535, 65536, 70000 = exactly that many content octets of which 12 are symbolic (first 4, "
             "last 4, 4 inside) and the rest a position dependent fill pattern (a fully symbolic 70000-octet "
             "buffer costs ~4 solver queries per octet); 0..2 symbolic octets follow the tag in the buffer",
      outside="content lengths 9..251 and large lengths other than the seven listed; more than 12 free octets in "
              "the large contents; tag number 255 (reserved by the standard)")
def tag_rt(d, kind, size):
    value = 0
    num = 1
    data = b''
    if kind == 'bool':
        value = d.int(0, 1, 'value')
    else:
        num = d.int(0, 254, 'num')
        if kind == 'app':
            d.assume(num != 1)
        if kind in ('app', 'ctx'):
            data = listed(d.bytes(0, 8, 'data'), 0, 8) if size == 'small' else big_data(d, size)
    tail = listed(d.bytes(0, 2, 'tail'), 0, 2)
    t, cls, num, lvt, data = make_tag(kind, num, data, value)

    pdu = PDUData()
    t.encode(pdu)
    octets = bytes(pdu.pduData)
    hdr = bytes(R.header(cls, num, lvt))
    h = len(hdr)
    if len(octets) != h + len(data) or octets[:h] != hdr:
        raise Violation("header", kind=kind, num=num, lvt=lvt, got=octets[:8], want=hdr)
    if octets[h:] != bytes(data):
        raise Violation("contents", kind=kind, num=num, lvt=lvt)

    # alone in the buffer: decodes to the same tag, nothing left
    p2 = PDUData(octets)
    try:
        t2 = Tag(p2)
    except InvalidTag:
        raise Violation("own-encoding-refused", kind=kind, num=num, lvt=lvt)
    if not same_tag(t2, cls, num, lvt, data):
        raise Violation("roundtrip", kind=kind, num=num, lvt=lvt,
                        got=(t2.tagClass, t2.tagNumber, t2.tagLVT))
    if len(p2.pduData) != 0:
        raise Violation("octets-left", kind=kind, num=num, lvt=lvt, left=len(p2.pduData))

    # followed by other octets: takes exactly its own octets (through the class that the
    # library offers for this kind of tag)
    p3 = PDUData(octets + bytes(tail))
    klass = {'app': ApplicationTag, 'bool': ApplicationTag, 'ctx': ContextTag,
             'open': OpeningTag, 'close': ClosingTag}[kind]
    try:
        t3 = klass(p3)
    except InvalidTag:
        raise Violation("own-encoding-refused", kind=kind, num=num, lvt=lvt, tail=tail)
    if not same_tag(t3, cls, num, lvt, data):
        raise Violation("roundtrip-with-tail", kind=kind, num=num, lvt=lvt, tail=tail)
    if bytes(p3.pduData) != bytes(tail):
        raise Violation("not-self-delimiting", kind=kind, num=num, lvt=lvt, tail=tail,
                        left=bytes(p3.pduData))
    d.reach()


# ---------------------------------------------------------------- taglist_rt

@meta(bounds="lists of every length nlo..nhi; every tag: kind symbolic over {application, application boolean, "
             "context, opening, closing} (the first tag's kind over the instance's `first` subset: a split, the "
             "union is all five), number symbolic, content length symbolic over `lens` with symbolic octets.  "
             "quick: lengths 0..1 with numbers 0..254 and content 0..6 octets; length 2 with numbers 0..254 and "
             "content lengths {0,1,4,5}; length 3 with content lengths {0,5} and one number class per instance "
             "(all 0..14 or all 15..254).  thorough: length 3 with numbers 0..254 and content lengths {0,1,5}; "
             "length 4 with content lengths {0,5} and one number class per instance",
      outside="longer lists; other content lengths inside a list (tag_rt covers single tags of every length class "
              "followed by arbitrary octets); lists of 3 (quick) / 4 (thorough) tags that mix one-octet and "
              "extended tag numbers")
def taglist_rt(d, nlo, nhi, first, lens, numcls):
    n = d.int(nlo, nhi, 'n') if nlo != nhi else nlo
    tags = []
    for i in range(nhi):
        if i >= n:
            break
        tags.append(draw_tag(d, first if i == 0 else KINDS, lens, numcls, i))
    n = len(tags)
    tl = TagList([t[0] for t in tags])
    pdu = PDUData()
    tl.encode(pdu)
    octets = bytes(pdu.pduData)
    want = []
    for _, cls, num, lvt, data in tags:
        want = want + R.header(cls, num, lvt) + [data[j] for j in range(len(data))]
    if octets != bytes(want):
        raise Violation("layout", n=n, got=octets, want=bytes(want))

    p2 = Watched(octets, 8 * (n + 1))
    try:
        back = TagList(p2)          # the constructor form runs TagList.decode
    except InvalidTag:
        raise Violation("own-encoding-refused", n=n, octets=octets)
    if len(p2.pduData) != 0:
        raise Violation("octets-left", n=n, octets=octets)
    if len(back.tagList) != n:
        raise Violation("list-length", n=n, got=len(back.tagList), octets=octets)
    for i in range(n):
        _, cls, num, lvt, data = tags[i]
        if not same_tag(back.tagList[i], cls, num, lvt, data):
            raise Violation("roundtrip", n=n, index=i, octets=octets)
    d.reach()


# ---------------------------------------------------------------- hostile octets

def check_stream(d, data, maxlen):
    """oracle for TagList.decode on arbitrary octets (decode_total, decode_mutated)"""
    pdu = Watched(data, 8 * (maxlen + 1))
    tl = TagList()
    try:
        tl.decode(pdu)
        refused = False
    except InvalidTag:
        refused = True
    verdict, toks = R.tokenize(data)
    if refused:
        if verdict == R.CANONICAL:
            raise Violation("refused-wellformed", data=data)
        d.reach()
        return
    if len(pdu.pduData) != 0:
        raise Violation("octets-left", data=data, left=len(pdu.pduData))
    if verdict == R.TRUNCATED:
        raise Violation("accepted-truncated", data=data, tags=len(tl.tagList))
    got = tl.tagList
    if len(got) != len(toks):
        raise Violation("tag-count", data=data, got=len(got), want=len(toks))
    for i, p in enumerate(toks):
        if not same_tag(got[i], p.cls, p.num, p.lvt, data[p.start:p.end]):
            raise Violation("misparsed", data=data, index=i,
                            got=(got[i].tagClass, got[i].tagNumber, got[i].tagLVT))
    # fixed point: re-encoding decodes to the same list
    p2 = PDUData()
    TagList(list(got)).encode(p2)
    enc = bytes(p2.pduData)
    if verdict == R.CANONICAL:
        # a canonical stream is the encoding of its tag list: re-encoding must give back
        # the input, and decoding the input again is the computation already checked
        if enc != bytes(data):
            raise Violation("reencode-differs", data=data, got=enc)
        d.reach()
        return
    p3 = Watched(enc, 8 * (maxlen + 1))
    again = TagList()
    try:
        again.decode(p3)
    except InvalidTag:
        raise Violation("reencoding-refused", data=data, enc=enc)
    if len(p3.pduData) != 0 or len(again.tagList) != len(got):
        raise Violation("not-fixed-point", data=data, enc=enc, why="length")
    for i in range(len(got)):
        if not same_tags(again.tagList[i], got[i]):
            raise Violation("not-fixed-point", data=data, enc=enc, index=i)
    d.reach()


def restrict(d, data, m, lows, sub):
    """instance split on the leading octets: first octet % m in `lows`; sub None = no further
    split, sub 0 = fewer than two octets or second octet's low nibble < 6 (a data-carrying
    form), sub 1 = the rest.  The empty string belongs to the part with 0 in lows, sub None/0."""
    if len(data) == 0:
        d.assume(0 in lows and sub != 1)
        return
    r = data[0] % m
    ok = False
    for k in lows:
        if r == k:
            ok = True
            break
    d.assume(ok)
    if sub is not None:
        if len(data) < 2:
            d.assume(sub == 0)
        elif sub == 0:
            d.assume(data[1] % 16 % 8 < 6)
        else:
            d.assume(data[1] % 16 % 8 >= 6)


@meta(bounds="EVERY octet string of length lo..n (n=3 quick, 4 thorough; length and every octet symbolic), split "
             "into instances by the low nibble (class bit + length/value/type bits) of the first octet and, for "
             "the larger parts, by the second octet being an opening/closing form or not; the empty string is in "
             "the part of low nibble 0.  Instances labelled `beyond-bound` (thorough): length exactly 5 with the "
             "first octet's low nibble 9..13 (a context tag with 1..5 content octets)",
      outside="octet strings longer than n, except the listed part of length 5: the other parts of length 5 are "
              "each as large as the whole length-4 space (tried: low nibble 14 ran 3310 paths in 240 CPU s without "
              "exhausting) - longer hostile strings are covered by decode_one (a single tag, up to 7 octets) and "
              "decode_mutated (de-synchronised valid streams of 8-11 octets)")
def decode_total(d, n, lows, sub=None, lo=0):
    data = listed(d.bytes(lo, n, 'octets'), lo, n)
    restrict(d, data, 16, lows, sub)
    check_stream(d, data, n)


@meta(bounds="a single Tag decoded from EVERY octet string of length 0..n (n=7 quick, 12 thorough: long enough for "
             "extended number + 255-escape + 4 length octets + content), length and every octet symbolic; split "
             "by the low nibble of the first octet (empty string in the part of 0)",
      outside="buffers longer than n octets (so a 254/255 escape announcing more content than fits is always seen "
              "truncated here; complete tags with large contents: tag_rt)")
def decode_one(d, n, lows, sub=None):
    data = listed(d.bytes(0, n, 'octets'), 0, n)
    restrict(d, data, 16, lows, sub)
    pdu = Watched(data, 16)
    t = None
    try:
        t = Tag(pdu)
    except InvalidTag:
        pass
    p = R.parse(data)
    if p is None:
        if t is not None:
            raise Violation("accepted-truncated", data=data, got=(t.tagClass, t.tagNumber, t.tagLVT))
        d.reach()
        return
    if t is None:
        if p.canonical:
            raise Violation("refused-wellformed", data=data)
        d.reach()       # complete but not canonical: refusing is within the statement
        return
    if not same_tag(t, p.cls, p.num, p.lvt, data[p.start:p.end]):
        raise Violation("misparsed", data=data, got=(t.tagClass, t.tagNumber, t.tagLVT),
                        want=(p.cls, p.num, p.lvt))
    if bytes(pdu.pduData) != bytes(data[p.end:]):
        raise Violation("consumed", data=data, left=len(pdu.pduData), want=len(data) - p.end)
    # fixed point of the one tag
    p2 = PDUData()
    t.encode(p2)
    enc = bytes(p2.pduData)
    if p.canonical:
        if enc != bytes(data[:p.end]):
            raise Violation("reencode-differs", data=data, got=enc)
        d.reach()
        return
    p3 = PDUData(enc)
    try:
        t2 = Tag(p3)
    except InvalidTag:
        raise Violation("reencoding-refused", data=data, enc=enc)
    if not same_tags(t2, t) or len(p3.pduData) != 0:
        raise Violation("not-fixed-point", data=data, enc=enc)
    d.reach()


# shapes of the valid streams that decode_mutated damages: (kind, number class, content length)
# number class 'lo' = symbolic 0..14 (one header octet), 'hi' = symbolic 15..254 (extension octet),
# an int = that fixed number (25 and 47 read as a context tag / closing tag header when out of step)
SHAPES = {
    'group': [('ctx', 'lo', 2), ('open', 'lo', 0), ('app', 'lo', 1), ('close', 'lo', 0)],
    'escape': [('app', 'lo', 5), ('bool', 'lo', 0), ('ctx', 'hi', 1)],
    'ext': [('open', 'hi', 0), ('ctx', 25, 1), ('close', 47, 0), ('app', 'lo', 2)],
}
FILLER = [0x2E, 0x19, 0xFE, 0x65, 0x0F]
CLS_OF = {'app': APP, 'bool': APP, 'ctx': CTX, 'open': OPEN, 'close': CLOSE}


@meta(bounds="valid streams (built with the reference encoder of clause 20.2.1) of 3-4 tags, 8-10 octets, of three "
             "fixed shapes (group: ctx/2 open app/1 close; escape: app/5 bool ctx-extended/1; ext: open-extended "
             "ctx(25)/1 close(47) app/2) with symbolic tag numbers (0..14 or 15..254 as the shape says; two fixed "
             "extended numbers in `ext`), damaged by ONE edit: an octet replaced by / inserted as a symbolic octet, "
             "or removed, at every position (enumerated through a symbolic index); same oracle as decode_total "
             "including the reference tokenizer.  Content octets of the valid stream: symdata=all every octet "
             "symbolic, first = the first octet of each content symbolic and the rest fixed octets that read as "
             "tag headers once the stream is out of step (2E 19 FE 65 0F), none = all fixed.  quick: remove with "
             "first (group) / none (escape, ext); replace and insert with none for group, replace for escape, "
             "insert (not in front of the first octet) for ext.  thorough: remove with all (group) / first (escape, ext); replace and insert with "
             "first (group) / none (escape, ext)",
      outside="other shapes; more than one edit; the content octets that the instance keeps fixed")
def decode_mutated(d, shapes, op, symdata='all', positions=None):
    shape = d.pick(shapes, 'shape')
    stream = []
    for i, (kind, ncls, dlen) in enumerate(SHAPES[shape]):
        if kind == 'bool':
            stream = stream + R.header(APP, 1, d.int(0, 1, 'value%d' % i))
            continue
        num = draw_number(d, ncls, 'num%d' % i)
        if kind == 'app':
            d.assume(num != 1)
        # content: symbolic octets, or (symdata='first') one symbolic octet followed by
        # concrete octets that read as tag headers once the stream is out of step
        nsym = dlen if symdata == 'all' else (min(dlen, 1) if symdata == 'first' else 0)
        raw = d.bytes(nsym, nsym, 'data%d' % i) if nsym else b''
        body = [raw[j] for j in range(nsym)] + [FILLER[(i + j) % len(FILLER)] for j in range(nsym, dlen)]
        stream = stream + R.header(CLS_OF[kind], num, dlen) + body
    size = len(stream)
    where = list(range(size + 1 if op == 'insert' else size))
    if positions is not None:
        where = [w for w in where if positions[0] <= w < positions[1]]
    pos = d.pick(where, 'pos')
    if op == 'insert':
        bad = stream[:pos] + [d.int(0, 255, 'x')] + stream[pos:]
    elif op == 'replace':
        x = d.int(0, 255, 'x')
        d.assume(x != stream[pos])
        bad = stream[:pos] + [x] + stream[pos + 1:]
    else:
        bad = stream[:pos] + stream[pos + 1:]
    d.note(pos=pos, op=op)
    check_stream(d, bytes(bad), size + 1)


# ---------------------------------------------------------------- nesting

ALPHABETS = {
    'all': [APP, CTX, OPEN, CLOSE],
    'brackets': [OPEN, CLOSE],
    'ctx+brackets': [CTX, OPEN, CLOSE],
}


def build_list(d, lo, hi, alphabet, prefix):
    """tags of symbolic class over the alphabet (the first len(prefix) classes fixed by the
    instance), symbolic number 0..2; application/context tags carry their index as content
    so that every tag of the list is distinguishable"""
    n = d.int(lo, hi, 'len') if lo != hi else lo
    classes, numbers, tags = [], [], []
    for i in range(hi):
        if i >= n:
            break
        c = prefix[i] if i < len(prefix) else d.pick(alphabet, 'class%d' % i)
        if c == APP:
            num = 2
            t = ApplicationTag(num, bytes([i]))
        else:
            num = d.int(0, 2, 'num%d' % i)
            t = ContextTag(num, bytes([i])) if c == CTX else (OpeningTag(num) if c == OPEN else ClosingTag(num))
        classes.append(c)
        numbers.append(num)
        tags.append(t)
    return classes, numbers, tags


@meta(bounds="tag lists (built from Tag objects, not octets) of every length lo..hi whose classes are symbolic over "
             "the instance's alphabet and whose context/opening/closing numbers are symbolic 0..2; the context "
             "number asked for is symbolic 0..2; instances are split by the classes of the first tags.  quick: all "
             "four classes up to 5 tags, opening/closing only up to 8 tags (every bracket shape, balanced depth "
             "<= 4).  thorough: all four classes up to 7 tags, context/opening/closing up to 8 tags (balanced depth "
             "4 around context elements), opening/closing only up to 10 tags (balanced depth 5)",
      outside="longer lists; tag numbers above 2 (only equality with the requested context matters); whether the "
              "closing tag's number equals the opening tag's (the statement asks for balance only)")
def nesting(d, lo, hi, alphabet, prefix):
    classes, numbers, tags = build_list(d, lo, hi, ALPHABETS[alphabet], prefix)
    context = d.int(0, 2, 'context')
    shape = "".join("ACOK"[c] for c in classes)

    # --- TagList.get_context
    want = R.find_context(classes, numbers, context)
    tl = TagList(counted(tags))
    got = None
    refused = False
    try:
        got = tl.get_context(context)
    except (InvalidTag, DecodingError):
        refused = True
    if want[0] == 'invalid':
        if not refused:
            raise Violation("unbalanced-accepted", shape=shape, context=context, numbers=numbers)
    elif refused:
        raise Violation("balanced-refused", shape=shape, context=context, numbers=numbers, want=want[0])
    elif want[0] == 'none':
        if got is not None:
            raise Violation("found-absent-context", shape=shape, context=context, numbers=numbers)
    elif want[0] == 'tag':
        if not isinstance(got, Tag) or not same_tags(got, tags[want[1]]):
            raise Violation("wrong-element", shape=shape, context=context, numbers=numbers, want=want[1])
    else:
        _, i, j = want
        if not isinstance(got, TagList):
            raise Violation("group-not-extracted", shape=shape, context=context, numbers=numbers)
        inner = got.tagList
        if len(inner) != j - i - 1:
            raise Violation("group-extent", shape=shape, context=context, numbers=numbers,
                            got=len(inner), want=j - i - 1)
        for k in range(len(inner)):
            if not same_tags(inner[k], tags[i + 1 + k]):
                raise Violation("group-content", shape=shape, context=context, numbers=numbers, index=k)
    if len(tl.tagList) != len(tags):
        raise Violation("get-context-consumed", shape=shape)

    # --- Any.decode / Any.encode
    k, balanced = R.any_prefix(classes)
    src = TagList(counted(tags))
    a = Any()
    refused = False
    try:
        a.decode(src)
    except (InvalidTag, DecodingError):
        refused = True
    if not balanced:
        if not refused:
            raise Violation("any-unbalanced-accepted", shape=shape)
    else:
        if refused:
            raise Violation("any-balanced-refused", shape=shape)
        taken = a.tagList.tagList
        if len(taken) != k or len(src.tagList) != len(tags) - k:
            raise Violation("any-extent", shape=shape, got=len(taken), want=k, left=len(src.tagList))
        for i in range(k):
            if not same_tags(taken[i], tags[i]):
                raise Violation("any-content", shape=shape, index=i)
        for i in range(len(tags) - k):
            if not same_tags(src.tagList[i], tags[k + i]):
                raise Violation("any-rest", shape=shape, index=i)
        out = TagList()
        a.encode(out)
        if len(out.tagList) != k:
            raise Violation("any-encode", shape=shape, got=len(out.tagList), want=k)
        for i in range(k):
            if not same_tags(out.tagList[i], tags[i]):
                raise Violation("any-encode", shape=shape, index=i)
    d.reach()


# ---------------------------------------------------------------- instances

def instances(tier):
    q = tier == "quick"
    out = []
    b = 60 if q else 300
    # tag_rt
    for kind in KINDS:
        out.append(Inst(tag_rt, dict(kind=kind, size='small'), budget=b))
    for kind in ('app', 'ctx'):
        for size in BIG:
            out.append(Inst(tag_rt, dict(kind=kind, size=size), budget=b, path_timeout=120))
    # taglist_rt
    full = [0, 1, 2, 3, 4, 5, 6]
    halves = [['app', 'ctx'], ['bool', 'open', 'close']]
    out.append(Inst(taglist_rt, dict(nlo=0, nhi=1, first=KINDS, lens=full, numcls='any'), budget=b, label="n=0..1"))
    if q:
        for k, first in enumerate(halves):
            out.append(Inst(taglist_rt, dict(nlo=2, nhi=2, first=first, lens=[0, 1, 4, 5], numcls='any'),
                            budget=b, label="n=2,part=%d" % k))
        for numcls in ('lo', 'hi'):
            for k, first in enumerate(halves):
                out.append(Inst(taglist_rt, dict(nlo=3, nhi=3, first=first, lens=[0, 5], numcls=numcls),
                                budget=b, label="n=3,numbers=%s,part=%d" % (numcls, k)))
    else:
        for first in KINDS:
            out.append(Inst(taglist_rt, dict(nlo=2, nhi=2, first=[first], lens=full, numcls='any'),
                            budget=b, label="n=2,first=%s" % first))
            out.append(Inst(taglist_rt, dict(nlo=3, nhi=3, first=[first], lens=[0, 1, 5], numcls='any'),
                            budget=b, label="n=3,first=%s" % first))
            for numcls in ('lo', 'hi'):
                out.append(Inst(taglist_rt, dict(nlo=4, nhi=4, first=[first], lens=[0, 5], numcls=numcls),
                                budget=b, label="n=4,numbers=%s,first=%s" % (numcls, first)))
    # decode_total
    nodata = (0, 6, 7, 8, 14, 15)       # first tag has no contents: the rest is parsed as tags
    if q:
        for sub in (0, 1):
            out.append(Inst(decode_total, dict(n=3, lows=[0], sub=sub), budget=b))
        for lows in ([1], [2], [3], [4], [5, 9, 10, 11, 12, 13], [6], [7], [8], [14], [15]):
            out.append(Inst(decode_total, dict(n=3, lows=lows), budget=b))
    else:
        for low in range(16):
            for sub in ((0, 1) if low in nodata else (None,)):
                out.append(Inst(decode_total, dict(n=4, lows=[low], sub=sub), budget=600))
        # beyond the property's own bound: the parts of length 5 whose tree is small enough
        # (first tag = context tag with 1..5 content octets); every other part of length 5 is
        # as large as the whole length-4 space (lows=[14] tried: 3310 paths in 240 s, not
        # exhausted) and is left outside
        for lows in ([9], [10, 11, 12, 13]):
            out.append(Inst(decode_total, dict(n=5, lows=lows, lo=5), budget=600,
                            label="beyond-bound,n=5,lows=%s" % lows))
    # decode_one
    for lows in ([0, 1, 8, 9], [2, 3, 4, 10, 11, 12], [5], [13], [6, 7, 14, 15]):
        out.append(Inst(decode_one, dict(n=7 if q else 12, lows=lows), budget=b))
    # decode_mutated (symdata: which content octets of the valid stream are symbolic)
    if q:
        out.append(Inst(decode_mutated, dict(shapes=['group'], op='remove', symdata='first'), budget=b))
        out.append(Inst(decode_mutated, dict(shapes=['escape', 'ext'], op='remove', symdata='none'), budget=b))
        out.append(Inst(decode_mutated, dict(shapes=['group'], op='replace', symdata='none'), budget=b))
        for part in ([0, 4], [4, 99]):
            out.append(Inst(decode_mutated, dict(shapes=['group'], op='insert', symdata='none', positions=part),
                            budget=b))
        for part in ([0, 8], [8, 9], [9, 99]):
            out.append(Inst(decode_mutated, dict(shapes=['escape'], op='replace', symdata='none', positions=part),
                            budget=b))
        for part in ([1, 3], [3, 99]):      # position 0 (302 paths) only in thorough
            out.append(Inst(decode_mutated, dict(shapes=['ext'], op='insert', symdata='none', positions=part),
                            budget=b))
    else:
        out.append(Inst(decode_mutated, dict(shapes=['group'], op='remove', symdata='all'), budget=600))
        out.append(Inst(decode_mutated, dict(shapes=['escape'], op='remove', symdata='first'), budget=b))
        out.append(Inst(decode_mutated, dict(shapes=['ext'], op='remove', symdata='first'), budget=b))
        for op in ('replace', 'insert'):
            for part in ([0, 1], [1, 2], [2, 4], [4, 99]):
                out.append(Inst(decode_mutated, dict(shapes=['group'], op=op, symdata='first', positions=part),
                                budget=600))
            for shape in ('escape', 'ext'):
                out.append(Inst(decode_mutated, dict(shapes=[shape], op=op, symdata='none'), budget=b))
    # nesting
    if q:
        out.append(Inst(nesting, dict(lo=0, hi=0, alphabet='all', prefix=[]), budget=b))
        for c0 in (APP, CTX, OPEN, CLOSE):
            out.append(Inst(nesting, dict(lo=1, hi=5, alphabet='all', prefix=[c0]), budget=b))
        out.append(Inst(nesting, dict(lo=0, hi=8, alphabet='brackets', prefix=[]), budget=b))
    else:
        out.append(Inst(nesting, dict(lo=0, hi=1, alphabet='all', prefix=[]), budget=b))
        for c0 in (APP, CTX, OPEN, CLOSE):
            for c1 in (APP, CTX, OPEN, CLOSE):
                out.append(Inst(nesting, dict(lo=2, hi=7, alphabet='all', prefix=[c0, c1]), budget=600))
        out.append(Inst(nesting, dict(lo=0, hi=10, alphabet='brackets', prefix=[]), budget=600))
        out.append(Inst(nesting, dict(lo=0, hi=0, alphabet='ctx+brackets', prefix=[]), budget=b))
        for c0 in (CTX, OPEN, CLOSE):
            out.append(Inst(nesting, dict(lo=1, hi=8, alphabet='ctx+brackets', prefix=[c0]), budget=600))
    return out
