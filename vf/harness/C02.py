"""C02 - Tag streams are self-delimiting: framing is total, canonical and balanced."""
from ..api import Inst, Violation, meta
from ..ref import C02_tags as R

from bacpypes.primitivedata import (Tag, ApplicationTag, ContextTag, OpeningTag, ClosingTag,
                                    TagList)
from bacpypes.constructeddata import Any
from bacpypes.pdu import PDUData
from bacpypes.errors import InvalidTag, DecodingError

APP, CTX, OPEN, CLOSE = R.APP, R.CTX, R.OPEN, R.CLOSE
KINDS = ['app', 'bool', 'ctx', 'open', 'close']
CLS_OF = {'app': APP, 'bool': APP, 'ctx': CTX, 'open': OPEN, 'close': CLOSE}


# ---------------------------------------------------------------- helpers

def make_tag(kind, num, data, value=0):
    """build a tag through the public constructors.  returns (tag, class, number, lvt, data)"""
    if kind == 'app':
        return ApplicationTag(num, data), APP, num, len(data), data
    if kind == 'bool':
        return Tag(Tag.applicationTagClass, Tag.booleanAppTag, value, b''), APP, 1, value, b''
    if kind == 'ctx':
        return ContextTag(num, data), CTX, num, len(data), data
    if kind == 'open':
        return OpeningTag(num), OPEN, num, 0, b''
    if kind == 'close':
        return ClosingTag(num), CLOSE, num, 0, b''
    raise AssertionError(kind)


def fields(t):
    return (t.tagClass, t.tagNumber, t.tagLVT, bytes(t.tagData))


def same_tag(t, cls, num, lvt, data):
    return (t.tagClass == cls and t.tagNumber == num and t.tagLVT == lvt
            and bytes(t.tagData) == bytes(data))
