"""C03 - Every service PDU and constructed type round-trips and matches the standard.

For every Sequence / Choice class that apdu.py and basetypes.py define (the list is read
from the live modules at import) a schema-driven generator (vf/ref/C03_gen.py) builds a
value from symbolic draws; the value goes through the public codec

    service classes       x.encode(APDU)            K().decode(APDU(octets))
    constructed types     x.encode(TagList) -> TagList.encode(PDUData)
                          K().decode(TagList(PDUData(octets)))

and six oracles are evaluated (DESIGN.md section 6, C03):

1. round trip     decode(encode(v)) is structurally equal to v (own comparator, vf/ref/C03_cmp.py)
2. re-encode      encode(decode(octets)) == octets
3. refusals       a service PDU body with one extra tag is refused with a RejectException
                  (TooManyArguments where nothing can absorb the tag); a sequence whose
                  octets lack a required element is refused with a RejectException
4. differential   the octets equal those of an independent encoder (vf/ref/C03_enc.py)
                  driven by the reference wire schema /verif/ref/asn1_schema.json
5. registries     every service choice 0..255 maps to the class the schema names, or to none
6. Annex F        worked examples, re-derived by hand, in semi-symbolic form (/verif/ref/annexf.json)
"""
import inspect

from ..api import Inst, Violation, meta
from ..ref import C03_enc as E
from ..ref import C03_gen as G
from ..ref import C03_cmp as X

from bacpypes.pdu import PDU, PDUData
from bacpypes.errors import RejectException
from bacpypes import primitivedata as P
from bacpypes import constructeddata as C
from bacpypes import basetypes as B
from bacpypes import apdu as A

SCHEMA = E.load_schema()
ENC = E.Encoder(SCHEMA)
HINTS = SCHEMA["productions"]


# ---------------------------------------------------------------- the classes under test
def discover():
    out = []
    for m in (B, A):
        for name, c in vars(m).items():
            if not (inspect.isclass(c) and c.__module__ == m.__name__):
                continue
            if not issubclass(c, (C.Sequence, C.Choice)):
                continue
            if issubclass(c, A.APCISequence) and not c.sequenceElements \
                    and getattr(c, "serviceChoice", None) is None:
                continue    # APCISequence and the four abstract service bases
            out.append(c)
    return out


CLASSES = discover()
BYNAME = dict((c.__name__, c) for c in CLASSES)


def is_pdu(K):
    return issubclass(K, A.APCISequence)


# ---------------------------------------------------------------- codec plumbing
def encode(K, x):
    """value -> octets through the public encoder"""
    if is_pdu(K):
        a = A.APDU()
        x.encode(a)
        return bytes(a.pduData)
    tl = P.TagList()
    x.encode(tl)
    p = PDUData()
    tl.encode(p)
    return bytes(p.pduData)


def decode(K, octets):
    """octets -> (value, number of tags left over) through the public decoder"""
    y = K()
    if is_pdu(K):
        y.decode(A.APDU(octets))
        return y, 0
    tl = P.TagList(PDUData(octets))
    y.decode(tl)
    return y, len(tl.tagList)


def differ(a, b):
    """a != b for two octet strings; one solver decision for all elements instead of one
    per element (the conjunction is built with `&`, which does not fork)"""
    if len(a) != len(b):
        return True
    same = True
    for x, y in zip(a, b):
        same = same & (x == y)
    return not same


def _name(e):
    return type(e).__name__


def _where(e):
    """innermost bacpypes frame an exception came from: file:function"""
    tb, best = e.__traceback__, "?"
    while tb is not None:
        co = tb.tb_frame.f_code
        if "/bacpypes/" in co.co_filename:
            best = co.co_filename.rsplit("/bacpypes/", 1)[1] + ":" + co.co_name
        tb = tb.tb_next
    return best


def reference(K, M):
    """('octets', list) | ('invalid', element) | ('clash', ...) | ('none', why)"""
    name = K.__name__
    if not ENC.known(name):
        return ("none", "class not in the reference schema")
    try:
        return ("octets", ENC.production(name, M))
    except E.StandardSaysInvalid as e:
        return ("invalid", e.production, e.element, e.why)
    except E.TypeClash as e:
        return ("clash", e.production, e.element, e.want, e.got)
    except E.SchemaGap as e:
        return ("none", str(e))


def wire_of(d, K, M, octets):
    """oracle 4, and the buffer the decoders are then run on.

    When the tree's octets equal the reference octets (decided by the solver; where they can
    differ the path forks and the difference is flagged) the decoders are handed the
    reference's buffer: the same octets, but a flat list with concrete framing, whereas the
    encoder's output is a chain of concatenations on which every PDUData.get() costs
    hundreds of solver queries."""
    cname = K.__name__
    ref = reference(K, M)
    if ref[0] == "invalid":
        # e.g. an element the standard requires was absent and the tree encoded it anyway
        d.flag(True, "accepted-invalid-value", cls=cname, production=ref[1], element=ref[2], why=ref[3])
    elif ref[0] == "clash":
        d.flag(True, "schema-base-type", cls=cname, production=ref[1], element=ref[2], want=ref[3], got=ref[4])
    elif ref[0] == "octets":
        want = bytes(ref[1])
        if differ(octets, want):
            d.flag(True, "wire-differs-from-schema", cls=cname, audited=ENC.audited(cname), got=octets, want=want)
        else:
            return want
    else:
        d.note(oracle4="skipped: " + ref[1])
    return octets


def check_value(d, K, M):
    """oracles 1, 2, 4 on one generated value"""
    cname = K.__name__
    try:
        x = G.to_live(K, M)
        octets = encode(K, x)
    except Exception as e:
        if reference(K, M)[0] == "invalid":
            return          # the standard and the tree agree: not a value of the production
        raise Violation("encode-refused", cls=cname, exc=_name(e), msg=str(e)[:80])
    wire = wire_of(d, K, M, octets)
    # 1. round trip
    try:
        y, left = decode(K, wire)
    except Exception as e:
        raise Violation("decode-refused-own-octets", cls=cname, exc=_name(e), msg=str(e)[:80], octets=octets)
    if left:
        raise Violation("octets-left-over", cls=cname, left=left, octets=octets)
    diff = X.differs(M, y, E.contents, cname)
    if diff is not None:
        raise Violation("roundtrip-differs", cls=cname, where=diff, octets=octets)
    # 2. re-encode
    try:
        again = encode(K, y)
    except Exception as e:
        raise Violation("reencode-refused", cls=cname, exc=_name(e), msg=str(e)[:80], octets=octets)
    if differ(again, wire):
        raise Violation("reencode-differs", cls=cname, got=again, want=octets)


def refusal(d, K, octets, what, **sig):
    """decoding `octets` must be refused.  The decoders raise a RejectException for most shapes and
    AttributeError("missing choice") from Choice.decode for some; the property statement does not name the
    error, so any exception counts as refusal (which reply the device sends for it is C10's concern)"""
    cname = K.__name__
    try:
        decode(K, octets)
    except RejectException:
        return
    except Exception as e:
        d.note(refused_with=_name(e))
        return
    d.flag(True, what + "-accepted", cls=cname, octets=octets, **sig)


def required_elements(K):
    """top-level elements whose absence leaves too few tags for any value of the class:
    required ones that are not lists (a missing list is an empty list) and not an
    untagged Any / AnyAtomic"""
    out = []
    for el in K.sequenceElements:
        if el.optional:
            continue
        k = el.klass
        if G.is_list(k) or (el.context is None and issubclass(k, (C.Any, C.AnyAtomic))):
            continue
        out.append(el)
    return out


NROWS = {"q": 5, "t": 8}


@meta(bounds="one instance per group of classes (class list read from the live apdu / basetypes modules); per class: "
             "part=shapes: top-level presence patterns {all present, all absent, each single optional toggled from "
             "either} (thorough: all 2^n patterns when n <= 6), every alternative of a top-level choice, every top-level "
             "list length 0..1 (thorough 0..3) independently; below the top level one shared selector - quick: "
             "{optionals absent + first alternative + empty lists, optionals present + last alternative + lists of 1}; "
             "thorough: optionals {absent, present} x alternative {first, last, middle} x list length {0,1,2} - down to "
             "depth 4 (deeper levels minimal); leaves in leaf class 0: every integer a symbolic one-octet value, "
             "every octet / character (printable ASCII) string one symbolic element, Date / Time four symbolic octets, "
             "object identifiers (analogInput, symbolic instance 0..2^22-1), enumerations lowest defined value, Real / "
             "Double 72.5, Any = one Unsigned.  "
             "part=leaves: everything present, lists at maximum length, one alternative per distinct kind of content "
             "of a top-level choice, crossed with the leaf classes (5 quick, 8 thorough): integer width 1..4 octets "
             "(every value of that width, signed ones of either sign), string length 0..2, enumerations {lowest, highest, "
             "one undefined number}, object types {analogInput, device, 300}, floats {72.5, -1.25, 0.0}, bit patterns, "
             "one shared symbolic boolean, Any in {one atomic of 6 datatypes, nested context group [2]{Date Time}, empty, "
             "two atomics}, AnyAtomic of 8 datatypes.  In both parts the first 8 (thorough 16) leaves of a value in "
             "element order are symbolic, leaves after that take one fixed value of the same leaf class",
      outside="list lengths above the bound; depth > 4; presence patterns beyond the shape bound for classes with more "
              "than 6 optionals and everywhere below the top level; mixed integer widths inside one value (C01 covers "
              "widths); the DateTime form of NameValue.value; character sets other than printable ASCII in UTF-8; "
              "ArrayOf.encode_item/decode_item (C15); in values with more than 8 (16) leaves, other values of the later "
              "leaves",
      stubs=[], assumes=["a class the reference schema does not know gets oracles 1-3 only",
                         "where the tree's octets equal the reference octets the decoders are run on the reference's "
                         "buffer (same octets, flat representation)"])
def cls_rt(d, group, tier, maxlen=None):
    K = d.pick(GROUPS[tier][group], "cls")
    part = d.pick(["shapes", "leaves"], "part")
    thorough = tier == "t"
    g = G.Gen(d, thorough, maxlen if maxlen is not None else (3 if thorough else 1), HINTS, 16 if thorough else 8)
    d.note(cls=K.__name__, part=part)
    if part == "shapes":
        M = g.top(K, "all")
    else:
        g.pick_row(NROWS[tier])
        M = g.top(K, "full")
    check_value(d, K, M)
    d.reach()


def refuse_parts(K):
    parts = []
    if is_pdu(K):
        parts.append("trailing")
    if issubclass(K, C.Sequence) and required_elements(K):
        parts.append("missing")
    return parts


@meta(bounds="every service PDU class and every sequence class with a required non-list element (one instance per "
             "group of classes).  part=trailing (service PDUs): value with everything present / with every optional "
             "absent and lists empty, one extra tag appended to the body: a context tag with symbolic number 100..254 "
             "and one symbolic octet, or a closing tag with symbolic number 100..254: APCISequence.decode must raise a "
             "RejectException (TooManyArguments, or the error of the element that tried to absorb the tag).  "
             "part=missing: value with every optional absent and lists empty, the tags of one required top-level "
             "element cut out (each in turn; lists excepted: a missing list is an empty list): decode must raise a "
             "RejectException.  Leaves as in cls_rt leaf class 0",
      outside="more than one extra tag; application-tagged extra tags (a trailing list or optional element may "
              "legitimately absorb them); missing elements below the top level (each class is the class under test "
              "of its own instance)",
      stubs=[], assumes=[])
def cls_refuse(d, group, tier):
    K = d.pick(RGROUPS[tier][group], "cls")
    cname = K.__name__
    part = d.pick(refuse_parts(K), "part")
    thorough = tier == "t"
    g = G.Gen(d, thorough, 2 if thorough else 1, HINTS, 8)
    d.note(cls=cname, part=part)
    if part == "trailing":
        M = g.top(K, "full" if d.index(2, "base") == 1 else "min")
        try:
            octets = encode(K, G.to_live(K, M))
        except Exception:
            # not a value the tree encodes: reported by cls_rt
            d.reach()
            return
        num = d.int(100, 254, "xnum")
        if d.index(2, "extra") == 0:
            extra = bytes(E.R.tagged(E.CTX, num, [d.int(0, 255, "xoctet")]))
        else:
            extra = bytes(E.closing(num))
        refusal(d, K, octets + extra, "trailing-data", extra=extra)
    else:
        req = required_elements(K)
        el = req[d.index(len(req), "drop")]
        M = g.top(K, "min")
        try:
            octets = encode(K, G.to_live(K, M))
        except Exception:
            d.reach()
            return
        # cut the element's top-level items out of the octets
        fields = dict(M[1])
        before = 0
        for e2 in K.sequenceElements:
            if e2.name == el.name:
                break
            before += G.item_count(e2.klass, fields[e2.name], e2.context)
        mine = G.item_count(el.klass, fields[el.name], el.context)
        spans = E.item_spans(octets)
        # (list concatenation: slices of a symbolic bytes object do not always concatenate)
        cut = bytes(list(octets[:spans[before][0]]) + list(octets[spans[before + mine - 1][1]:]))
        refusal(d, K, cut, "missing-required", element=el.name)
    d.reach()


# ---------------------------------------------------------------- list classes on their own
def _list_classes():
    out = {}
    subs = [P.Unsigned, P.CharacterString, B.TimeStamp, B.PropertyValue, B.DateTime]
    for sub in subs:
        out["SequenceOf(%s)" % sub.__name__] = C.SequenceOf(sub)
        out["ListOf(%s)" % sub.__name__] = C.ListOf(sub)
        out["ArrayOf(%s)" % sub.__name__] = C.ArrayOf(sub)
    out["ArrayOf(Unsigned,fixed=3)"] = C.ArrayOf(P.Unsigned, fixed_length=3)
    out["ArrayOf(TimeStamp,fixed=3)"] = C.ArrayOf(B.TimeStamp, fixed_length=3)
    out["PriorityArray"] = B.PriorityArray
    return out


LISTS = _list_classes()
LIST_NAMES = sorted(LISTS)


def _wire_type(k):
    return G.kind_of(k) if issubclass(k, P.Atomic) else k.__name__


@meta(bounds="SequenceOf / ListOf / ArrayOf of Unsigned, CharacterString, TimeStamp (choice), PropertyValue (sequence with "
             "optionals and an Any), DateTime (untagged sequence), as classes of their own: every length 0..2 (thorough "
             "0..3); fixed-length arrays of 3 and PriorityArray (16 PriorityValue) at their length; elements built like "
             "nested values of cls_rt (shared inner selector, leaf classes crossed at full length): "
             "decode(encode(v)) equals v (ArrayOf: element 0 is the length), re-encode identical, octets = the "
             "reference encoding of the items one after the other, nothing left over",
      outside="longer lists; other element types (covered as elements of the classes of cls_rt)",
      stubs=[], assumes=[])
def lists_rt(d, tier):
    name = d.pick(LIST_NAMES, "cls")
    K = LISTS[name]
    thorough = tier == "t"
    fixed = getattr(K, "fixed_length", None)
    g = G.Gen(d, thorough, 3 if thorough else 2, HINTS, 16 if thorough else 8)
    part = d.pick(["shapes", "leaves"], "part")
    d.note(cls=name, part=part)
    if part == "leaves":
        g.pick_row(NROWS[tier])
    if fixed is not None:
        M = ("list", [g.value(K.subtype, 1) for _ in range(fixed)])
    else:
        M = g.top(K, "all" if part == "shapes" else "full")
    try:
        x = K([G.to_live(K.subtype, it) for it in M[1]])
        tl = P.TagList()
        x.encode(tl)
        p = PDUData()
        tl.encode(p)
        octets = bytes(p.pduData)
    except Exception as e:
        raise Violation("encode-refused", cls=name, exc=_name(e), msg=str(e)[:80])
    wire = octets
    try:
        want = []
        for it in M[1]:
            want += ENC.value(_wire_type(K.subtype), None, it, (name, "item"))
        want = bytes(want)
        if differ(octets, want):
            d.flag(True, "wire-differs-from-schema", cls=name, audited=True, got=octets, want=want)
        else:
            wire = want
    except (E.SchemaGap, E.TypeClash, E.StandardSaysInvalid) as e:
        d.note(oracle4="skipped: %r" % (e,))
    try:
        y = K()
        tl = P.TagList(PDUData(wire))
        y.decode(tl)
    except Exception as e:
        raise Violation("decode-refused-own-octets", cls=name, exc=_name(e), msg=str(e)[:80], octets=octets)
    if len(tl.tagList):
        raise Violation("octets-left-over", cls=name, left=len(tl.tagList), octets=octets)
    diff = X.differs(M, y, E.contents, name)
    if diff is not None:
        raise Violation("roundtrip-differs", cls=name, where=diff, octets=octets)
    if len(y) != len(M[1]):
        raise Violation("roundtrip-differs", cls=name, where="len()", octets=octets)
    try:
        tl = P.TagList()
        y.encode(tl)
        p = PDUData()
        tl.encode(p)
        again = bytes(p.pduData)
    except Exception as e:
        raise Violation("reencode-refused", cls=name, exc=_name(e), msg=str(e)[:80], octets=octets)
    if differ(again, wire):
        raise Violation("reencode-differs", cls=name, got=again, want=octets)
    d.reach()


# ---------------------------------------------------------------- registries
REGISTRIES = [("confirmed_request", A.confirmed_request_types, A.ConfirmedRequestSequence),
              ("complex_ack", A.complex_ack_types, A.ComplexAckSequence),
              ("unconfirmed_request", A.unconfirmed_request_types, A.UnconfirmedRequestSequence),
              ("error", A.error_types, A.ErrorSequence)]


@meta(bounds="service choice symbolic over 0..255, each of the four registries: the class registered under the choice is "
             "the one the reference schema names (clause 21 service choice numbers, audited by hand), carries that "
             "serviceChoice and is of the registry's PDU kind; a choice the schema does not name yields no class "
             "(error registry: none, or the plain Error production every other service uses)",
      outside="nothing", stubs=[], assumes=[])
def registries(d):
    rname, reg, base = REGISTRIES[d.index(len(REGISTRIES), "registry")]
    c = d.int(0, 255, "choice")
    got = reg.get(c)
    want = None
    for k, n in sorted(SCHEMA["registries"][rname].items()):
        if c == int(k):
            want = n
    gname = got.__name__ if got is not None else None
    if rname == "error" and want is None:
        if got is not None and got is not A.Error:
            raise Violation("registry", registry=rname, choice=c, got=gname, want="None or Error")
    elif gname != want:
        raise Violation("registry", registry=rname, choice=c, got=gname, want=want)
    if got is not None:
        if not issubclass(got, base):
            raise Violation("registry-kind", registry=rname, choice=c, got=gname)
        if rname != "error" and got.serviceChoice != c:
            raise Violation("registry-service-choice", registry=rname, choice=c, got=gname,
                            serviceChoice=got.serviceChoice)
    d.reach()


# ---------------------------------------------------------------- Annex F
ANNEXF = E.load_annexf()["examples"]
BYTYPE = {0: A.confirmed_request_types, 1: A.unconfirmed_request_types, 3: A.complex_ack_types, 5: A.error_types}


def _draw_slots(d, ex):
    slots = {}
    for name in sorted(ex["slots"]):
        s = ex["slots"][name]
        if s["kind"] == "u":
            n = s["n"]
            slots[name] = d.int(0 if n == 1 else 256 ** (n - 1), 256 ** n - 1, name)
        elif s["kind"] == "inst":
            slots[name] = d.int(0, 4194303, name)
        elif s["kind"] == "chars":
            slots[name] = "".join([chr(d.int(0x20, 0x7E, name)) for _ in range(s["n"])])
        elif s["kind"] == "quad":
            slots[name] = tuple([d.int(0, 255, name) for _ in range(4)])
        else:
            raise AssertionError(s)
    return slots


@meta(bounds="the worked examples of /verif/ref/annexf.json (ReadProperty request / ack, WriteProperty, ReadPropertyMultiple, "
             "Who-Is with limits, I-Am, Who-Has, I-Have, SubscribeCOV, ConfirmedCOVNotification, AtomicReadFile, "
             "TimeSynchronization, DeviceCommunicationControl, ReinitializeDevice, Error), each in semi-symbolic form: "
             "the framing octets fixed as derived by hand from clauses 20.2 / 21, the value octets (instance numbers, "
             "integers within the example's length class, characters, date / time octets) symbolic: the tree emits exactly "
             "that body for every value; the published octets, through APDU.decode and the registry, decode to the "
             "named class with the published parameters",
      outside="the other Annex F examples; values outside the example's length class; floating point values other than "
              "the published ones",
      stubs=[], assumes=["header octets of the examples are illustrative (C07 covers the header layout)"])
def annexf(d):
    ex = ANNEXF[d.index(len(ANNEXF), "example")]
    K = BYNAME[ex["class"]]
    d.note(example=ex["id"])
    # every value of the slots: exactly the published framing
    slots = _draw_slots(d, ex)
    M = E.model_from_json(ex["value"], slots)
    want = bytes(E.body_from_json(ex["body"], slots))
    try:
        octets = encode(K, G.to_live(K, M))
    except Exception as e:
        raise Violation("annexf-encode-refused", example=ex["id"], exc=_name(e), msg=str(e)[:80])
    if differ(octets, want):
        raise Violation("annexf-octets", example=ex["id"], got=octets, want=want)
    # the published octets decode to the published parameters
    pub = E.published_slots(ex)
    Mp = E.model_from_json(ex["value"], pub)
    full = bytes.fromhex(ex["apci"]) + bytes(E.body_from_json(ex["body"], pub))
    try:
        apdu = A.APDU()
        apdu.decode(PDU(full))
        cls = BYTYPE[apdu.apduType].get(apdu.apduService)
        if cls is None and apdu.apduType == 5:
            cls = A.Error
        if cls is not K:
            raise Violation("annexf-registry", example=ex["id"], got=getattr(cls, "__name__", None), want=ex["class"])
        y = cls()
        y.decode(apdu)
    except Violation:
        raise
    except Exception as e:
        raise Violation("annexf-decode-refused", example=ex["id"], exc=_name(e), msg=str(e)[:80])
    diff = X.differs(Mp, y, E.contents, ex["class"])
    if diff is not None:
        raise Violation("annexf-decoded-value", example=ex["id"], where=diff)
    d.reach()


# ---------------------------------------------------------------- instances
def leaves_of(k, depth=0):
    """rough number of leaves of a fully populated value (sizes the groups only)"""
    if G.is_list(k):
        return leaves_of(k.subtype, depth + 1)
    if issubclass(k, (P.Atomic, C.Any)):
        return 1
    if depth > G.MAXDEPTH:
        return 1
    if issubclass(k, C.Choice):
        els = k.choiceElements
        return max(leaves_of(els[0].klass, depth + 1), leaves_of(els[-1].klass, depth + 1))
    return sum(leaves_of(e.klass, depth + 1) for e in k.sequenceElements) or 1


def paths_of(K, tier):
    """rough number of paths of one class in cls_rt"""
    t = tier == "t"
    maxlen = 3 if t else 1
    nested = any(not (issubclass(e.klass, P.Atomic)) for e in G.elements_of(K))
    inner = (6 if t else 2) if nested else 1
    if issubclass(K, C.Choice):
        shapes = len(K.choiceElements) * inner
        leaves = NROWS[tier] * len(G.rep_alternatives(K))
    else:
        n = len(G.Gen(None, t, maxlen, HINTS).optional_either(K))
        shapes = (2 ** n if (t and n <= 6) else 2 * (n + 1)) * inner
        for e in K.sequenceElements:
            if G.is_list(e.klass):
                shapes *= maxlen + 1
        leaves = NROWS[tier]
    return shapes + leaves


def estimate(K, tier):
    """rough CPU seconds of one class in cls_rt (measured: 0.05 s + 0.03 s per leaf and path)"""
    return paths_of(K, tier) * (0.05 + 0.03 * min(leaves_of(K), 16 if tier == "t" else 10))


def estimate_refuse(K, tier):
    n = (4 if is_pdu(K) else 0) + (len(required_elements(K)) if issubclass(K, C.Sequence) else 0)
    return n * (0.05 + 0.03 * min(leaves_of(K), 10))


def make_groups(classes, est, tier, target, solo):
    groups, cur, size = [], [], 0
    for K in classes:
        n = est(K, tier)
        if K.__name__ in solo:
            groups.append([K])
            continue
        if cur and size + n > target:
            groups.append(cur)
            cur, size = [], 0
        cur.append(K)
        size += n
    if cur:
        groups.append(cur)
    return groups


# Classes that get an instance of their own: those with a finding on the pinned tree (a
# finding ends the exploration of its instance unless it is a recorded known finding; this
# keeps the obligations of the neighbours independent of it).  Only the grouping depends
# on these lists, no oracle does.
SOLO_RT = set(["PropertyStates", "LogData", "NotificationParametersExtendedParametersType",
               "NotificationParametersExtended", "NotificationParameters", "ReadAccessResult",
               "AtomicReadFileACKAccessMethodChoice", "AtomicWriteFileRequestAccessMethodChoice",
               "AtomicReadFileACK", "AtomicWriteFileRequest", "DeviceCommunicationControlRequest",
               "LogMultipleRecord"])
SOLO_REFUSE = set(["Destination", "SpecialEvent", "ReadRangeRequest"])

GROUPS = {"q": make_groups(CLASSES, estimate, "q", 30, SOLO_RT),
          "t": make_groups(CLASSES, estimate, "t", 100, SOLO_RT)}
REFUSERS = [K for K in CLASSES if refuse_parts(K)]
RGROUPS = {"q": make_groups(REFUSERS, estimate_refuse, "q", 30, SOLO_REFUSE),
           "t": make_groups(REFUSERS, estimate_refuse, "t", 30, SOLO_REFUSE)}


def _has_list_of_sequences(K, seen=None):
    """a sequence class one of whose elements is a list of constructed items"""
    if not issubclass(K, C.Sequence):
        return False
    for e in getattr(K, "sequenceElements", []):
        kl = e.klass
        if (kl in C._sequence_of_classes or kl in C._list_of_classes) and not issubclass(kl.subtype, (P.Atomic, C.AnyAtomic)):
            return True
    return False


# quick tier, lists of TWO items: the service PDUs (and their item classes) that carry a list of constructed items -
# what follows an item (the next item) decides how the item's trailing optional parts are decoded
GROUPS["q2"] = make_groups([K for K in CLASSES if _has_list_of_sequences(K)], estimate, "t", 60, SOLO_RT)
NROWS["q2"] = NROWS["q"]


def _span(grp):
    return grp[0].__name__ if len(grp) == 1 else grp[0].__name__ + ".." + grp[-1].__name__


def _nested_values():
    """constructed values whose encoding nests groups two and three levels deep with DIFFERENT context numbers"""
    dr = B.DateRange(startDate=(124, 1, 1, 1), endDate=(124, 1, 31, 3))
    se = B.SpecialEvent(period=B.SpecialEventPeriod(calendarEntry=B.CalendarEntry(dateRange=dr)),
                        listOfTimeValues=[B.TimeValue(time=(8, 0, 0, 0), value=P.Real(1.0))], eventPriority=3)
    ce = B.CalendarEntry(dateRange=dr)
    dest = B.Destination(validDays=[1, 1, 1, 1, 1, 1, 1], fromTime=(0, 0, 0, 0), toTime=(23, 59, 59, 99),
                         recipient=B.Recipient(address=B.DeviceAddress(networkNumber=5, macAddress=b"\x01\x02")),
                         processIdentifier=7, issueConfirmedNotifications=True, transitions=[1, 1, 1])
    return [("SpecialEvent", B.SpecialEvent, se), ("CalendarEntry", B.CalendarEntry, ce), ("Destination", B.Destination, dest)]


@meta(bounds="a ReadProperty-ACK and a WriteProperty request whose property value (an ANY) holds a constructed value that nests "
             "groups two and three levels deep with different context numbers - an exception-schedule entry whose period is "
             "calendarEntry [0] { dateRange [1] { .. } }, a calendar entry with a date range, a notification-class destination "
             "with a device address as recipient - with a symbolic array index and one of four property numbers: the PDU encodes, "
             "decodes from its own octets, the value cast out of the ANY encodes to the same octets as the value put in, and the "
             "re-encoded PDU equals the first",
      outside="other constructed values inside an ANY (the classes themselves are covered by cls_rt)",
      stubs=[], assumes=[])
def any_nested(d):
    name, K, value = d.pick(_nested_values(), 'value')
    prop = d.pick([85, 38, 512, 4194303], 'property')      # named, named, unnamed, the largest number
    idx = d.int(0, 70000, 'array_index')
    kind = d.pick(["ReadPropertyACK", "WritePropertyRequest"], 'pdu')
    pdu = getattr(A, kind)(objectIdentifier=('schedule', 1), propertyIdentifier=prop, propertyArrayIndex=idx)
    pdu.propertyValue = C.Any()
    pdu.propertyValue.cast_in(value)

    def octets_of(x):
        o = A.APDU()
        x.encode(o)
        return bytes(o.pduData)
    try:
        first = octets_of(pdu)
        back = getattr(A, kind)()
        src = A.APDU()
        pdu.encode(src)
        back.decode(src)
    except Exception as e:
        raise Violation("any-nested-refused", value=name, pdu=kind, exc=type(e).__name__, msg=str(e)[:80])
    if back.propertyArrayIndex != idx:         # (the property number may come back as its name: the re-encoding below compares it)
        raise Violation("any-nested-fields", value=name, pdu=kind)
    try:
        out = back.propertyValue.cast_out(K)
        t1, t2 = P.TagList(), P.TagList()
        value.encode(t1)
        out.encode(t2)
        d1, d2 = PDUData(), PDUData()
        t1.encode(d1)
        t2.encode(d2)
    except Exception as e:
        raise Violation("any-nested-cast-out", value=name, pdu=kind, exc=type(e).__name__, msg=str(e)[:80])
    if bytes(d1.pduData) != bytes(d2.pduData):
        raise Violation("any-nested-value-differs", value=name, pdu=kind)
    if octets_of(back) != first:
        raise Violation("any-nested-reencode-differs", value=name, pdu=kind)
    d.reach()


def instances(tier):
    q = tier == "quick"
    t = "q" if q else "t"
    pt = 60 if q else 180
    out = []
    for i, grp in enumerate(GROUPS[t]):
        out.append(Inst(cls_rt, dict(group=i, tier=t), budget=240 if q else 1500, path_timeout=pt,
                        label="%d:%s" % (i, _span(grp))))
    if q:
        for i, grp in enumerate(GROUPS["q2"]):
            out.append(Inst(cls_rt, dict(group=i, tier="q2", maxlen=2), budget=240, path_timeout=pt,
                            label="two-item lists %d:%s" % (i, _span(grp))))
    for i, grp in enumerate(RGROUPS[t]):
        out.append(Inst(cls_refuse, dict(group=i, tier=t), budget=120 if q else 600, path_timeout=pt,
                        label="%d:%s" % (i, _span(grp))))
    out.append(Inst(lists_rt, dict(tier=t), budget=120 if q else 600, path_timeout=pt))
    out.append(Inst(any_nested, {}, budget=120))
    out.append(Inst(registries, {}, budget=60))
    out.append(Inst(annexf, {}, budget=60))
    return out


# ---------------------------------------------------------------- plain-Python self-test
def selftest():
    """DESIGN 4.2.  (a) the reference encoder, driven by the schema, reproduces the hand-derived
    octets of every Annex F example (reference vs. hand derivation, no bacpypes involved);
    (b) every harness runs concretely on the published values / on fixed draws and passes
    or reports only what the engine reports too.  Returns a list of disagreements.

        python3-vt -c "from vf.api import repo_setup; repo_setup(); from vf.harness import C03; print(C03.selftest())"
    """
    from ..api import run_concrete
    bad = []
    for i, ex in enumerate(ANNEXF):
        pub = E.published_slots(ex)
        M = E.model_from_json(ex["value"], pub)
        want = bytes(E.body_from_json(ex["body"], pub))
        try:
            got = bytes(ENC.production(ex["class"], M))
        except Exception as e:
            bad.append(("reference cannot encode", ex["id"], repr(e)))
            continue
        if got != want:
            bad.append(("reference vs hand-derived octets", ex["id"], got.hex(), want.hex()))
        draws = [("example", i)]
        for name in sorted(ex["slots"]):
            sl = ex["slots"][name]
            v = sl["published"]
            if sl["kind"] == "chars":
                draws += [(name, ord(c)) for c in v]
            elif sl["kind"] == "quad":
                draws += [(name, x) for x in v]
            else:
                draws.append((name, v))
        r = run_concrete(annexf, {}, [d for d in draws if len(ANNEXF) > 1 or d[0] != "example"])
        if r["outcome"] != "ok":
            bad.append(("annexf harness on published values", ex["id"], r))
    # the literals of tests/test_constructed_data/test_sequence_of.py / test_any.py style:
    # empty and one-element lists of integers, through the list harness's reference
    for items, hexs in (([], ""), ([1], "2101"), ([1, 2], "21012102")):
        M = ("list", [("atom", "Unsigned", v, None) for v in items])
        got = []
        for it in M[1]:
            got += ENC.value("Unsigned", None, it, ("selftest", "item"))
        if bytes(got).hex() != hexs:
            bad.append(("reference list encoding", items, bytes(got).hex(), hexs))
    return bad
