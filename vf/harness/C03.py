"""C03 - Every service PDU and constructed type round-trips and matches the standard.

For every Sequence / Choice class that apdu.py and basetypes.py define (the list is read
from the live modules at import) a schema-driven generator (vf/ref/C03_gen.py) builds a
value from symbolic draws; the value goes through the public codec

    service classes       x.encode(APDU)            K().decode(APDU(octets))
    constructed types     x.encode(TagList) -> TagList.encode(PDUData)
                          K().decode(TagList(PDUData(octets)))

and six oracles are evaluated (DESIGN.md section 6, C03):

1. round trip     decode(encode(v)) is structurally equal to v (own comparator, vf/ref/C03_cmp.py)
2. re-encode      encode(decode(octets)) == octets
3. refusals       a service PDU body with one extra tag is refused with a RejectException
                  (TooManyArguments where nothing can absorb the tag); a sequence with a
                  required element missing is refused - by encode, and by decode with a
                  RejectException
4. differential   the octets equal those of an independent encoder (vf/ref/C03_enc.py)
                  driven by the reference wire schema /verif/ref/asn1_schema.json
5. registries     every service choice 0..255 maps to the class the schema names, or to none
6. Annex F        worked examples, re-derived by hand, in semi-symbolic form (/verif/ref/annexf.json)
"""
import inspect

from ..api import Inst, Violation, meta
from ..ref import C03_enc as E
from ..ref import C03_gen as G
from ..ref import C03_cmp as X

from bacpypes.pdu import PDUData
from bacpypes.errors import RejectException
from bacpypes import primitivedata as P
from bacpypes import constructeddata as C
from bacpypes import basetypes as B
from bacpypes import apdu as A

SCHEMA = E.load_schema()
ENC = E.Encoder(SCHEMA)
HINTS = SCHEMA["productions"]


# ---------------------------------------------------------------- the classes under test
def discover():
    out = []
    for m in (B, A):
        for name, c in vars(m).items():
            if not (inspect.isclass(c) and c.__module__ == m.__name__):
                continue
            if not issubclass(c, (C.Sequence, C.Choice)):
                continue
            if issubclass(c, A.APCISequence) and not c.sequenceElements \
                    and getattr(c, "serviceChoice", None) is None:
                continue    # APCISequence and the four abstract service bases
            out.append(c)
    return out


CLASSES = discover()
BYNAME = dict((c.__name__, c) for c in CLASSES)


def is_pdu(K):
    return issubclass(K, A.APCISequence)


# ---------------------------------------------------------------- codec plumbing
def encode(K, x):
    """value -> octets through the public encoder"""
    if is_pdu(K):
        a = A.APDU()
        x.encode(a)
        return bytes(a.pduData)
    tl = P.TagList()
    x.encode(tl)
    p = PDUData()
    tl.encode(p)
    return bytes(p.pduData)


def decode(K, octets):
    """octets -> (value, number of tags left over) through the public decoder"""
    y = K()
    if is_pdu(K):
        y.decode(A.APDU(octets))
        return y, 0
    tl = P.TagList(PDUData(octets))
    y.decode(tl)
    return y, len(tl.tagList)


def _name(e):
    return type(e).__name__


def _where(e):
    """innermost bacpypes frame an exception came from: file:function"""
    tb, best = e.__traceback__, "?"
    while tb is not None:
        co = tb.tb_frame.f_code
        if "/bacpypes/" in co.co_filename:
            best = co.co_filename.rsplit("/bacpypes/", 1)[1] + ":" + co.co_name
        tb = tb.tb_next
    return best


def reference(K, M):
    """('octets', list) | ('invalid', element) | ('clash', ...) | ('none', why)"""
    name = K.__name__
    if not ENC.known(name):
        return ("none", "class not in the reference schema")
    try:
        return ("octets", ENC.production(name, M))
    except E.StandardSaysInvalid as e:
        return ("invalid", e.production, e.element, e.why)
    except E.TypeClash as e:
        return ("clash", e.production, e.element, e.want, e.got)
    except E.SchemaGap as e:
        return ("none", str(e))


def check_value(d, K, M):
    """oracles 1, 2, 4 on one generated value"""
    cname = K.__name__
    ref = reference(K, M)
    try:
        x = G.to_live(K, M)
        octets = encode(K, x)
    except Exception as e:
        if ref[0] == "invalid":
            return          # the standard and the tree agree: not a value of the production
        raise Violation("encode-refused", cls=cname, exc=_name(e), msg=str(e)[:80])
    if ref[0] == "invalid":
        # e.g. an element the standard requires was absent and the tree encoded it anyway
        d.flag(True, "accepted-invalid-value", cls=cname, production=ref[1], element=ref[2], why=ref[3])
    elif ref[0] == "clash":
        d.flag(True, "schema-base-type", cls=cname, production=ref[1], element=ref[2], want=ref[3], got=ref[4])
    elif ref[0] == "octets":
        want = bytes(ref[1])
        if bytes(octets) != want:
            d.flag(True, "wire-differs-from-schema", cls=cname, audited=ENC.audited(cname), got=octets, want=want)
    else:
        d.note(oracle4="skipped: " + ref[1])
    # 1. round trip
    try:
        y, left = decode(K, octets)
    except Exception as e:
        raise Violation("decode-refused-own-octets", cls=cname, exc=_name(e), msg=str(e)[:80], octets=octets)
    if left:
        raise Violation("octets-left-over", cls=cname, left=left, octets=octets)
    diff = X.differs(M, y, E.contents, cname)
    if diff is not None:
        raise Violation("roundtrip-differs", cls=cname, where=diff, octets=octets)
    # 2. re-encode
    try:
        again = encode(K, y)
    except Exception as e:
        raise Violation("reencode-refused", cls=cname, exc=_name(e), msg=str(e)[:80], octets=octets)
    if bytes(again) != bytes(octets):
        raise Violation("reencode-differs", cls=cname, got=again, want=octets)


def refusal(d, K, octets, what, **sig):
    """decoding `octets` must be refused, and with a RejectException"""
    cname = K.__name__
    try:
        decode(K, octets)
    except RejectException:
        return
    except Exception as e:
        d.flag(True, what + "-error-not-reject", cls=cname, exc=_name(e), where=_where(e), octets=octets, **sig)
        return
    d.flag(True, what + "-accepted", cls=cname, octets=octets, **sig)


def required_elements(K):
    """top-level elements whose absence leaves too few tags for any value of the class:
    required ones that are not lists (a missing list is an empty list) and not an
    untagged Any / AnyAtomic"""
    out = []
    for el in K.sequenceElements:
        if el.optional:
            continue
        k = el.klass
        if G.is_list(k) or (el.context is None and issubclass(k, (C.Any, C.AnyAtomic))):
            continue
        out.append(el)
    return out


NROWS = {"q": 5, "t": 8}


@meta(bounds="one instance per group of classes (class list read from the live apdu / basetypes modules); per class: "
             "part=shapes: top-level presence patterns {all present, all absent, each single optional toggled from "
             "either} (thorough: all 2^n patterns when n <= 6), every alternative of a top-level choice, every top-level "
             "list length 0..1 (thorough 0..2) independently; below the top level one shared selector - quick: "
             "{optionals absent + first alternative + empty lists, optionals present + last alternative + lists of 1}; "
             "thorough: optionals {absent, present} x alternative {first, last, middle} x list length {0,1,2} - down to "
             "depth 4 (deeper levels minimal); leaves in leaf class 0: every integer a symbolic one-octet value, "
             "every octet / character (printable ASCII) string one symbolic element, Date / Time four symbolic octets, "
             "object identifiers (analogInput, symbolic instance 0..2^22-1), enumerations lowest defined value, Real / "
             "Double 72.5, Any = one Unsigned.  "
             "part=leaves: everything present, lists at maximum length, one alternative per distinct kind of content "
             "of a top-level choice, crossed with the leaf classes (5 quick, 8 thorough): integer width 1..4 octets "
             "(every value of that width, signed ones of either sign), string length 0..2, enumerations {lowest, highest, "
             "one undefined number}, object types {analogInput, device, 300}, floats {72.5, -1.25, 0.0}, bit patterns, "
             "one shared symbolic boolean, Any in {one atomic of 6 datatypes, nested context group [2]{Date Time}, empty, "
             "two atomics}, AnyAtomic of 8 datatypes",
      outside="list lengths above the bound; depth > 4; presence patterns beyond the shape bound for classes with more "
              "than 6 optionals and everywhere below the top level; mixed integer widths inside one value (C01 covers "
              "widths); the DateTime form of NameValue.value; character sets other than printable ASCII in UTF-8; "
              "ArrayOf.encode_item/decode_item (C15)",
      stubs=[], assumes=["a class the reference schema does not know gets oracles 1-3 only"])
def cls_rt(d, group, tier):
    K = d.pick(GROUPS[tier][group], "cls")
    part = d.pick(["shapes", "leaves"], "part")
    thorough = tier == "t"
    g = G.Gen(d, thorough, 2 if thorough else 1, HINTS)
    d.note(cls=K.__name__, part=part)
    if part == "shapes":
        M = g.top(K, "all")
    else:
        g.pick_row(NROWS[tier])
        M = g.top(K, "full")
    check_value(d, K, M)
    d.reach()


def refuse_parts(K):
    parts = []
    if is_pdu(K):
        parts.append("trailing")
    if issubclass(K, C.Sequence) and required_elements(K):
        parts.append("missing")
    return parts


@meta(bounds="every service PDU class and every sequence class with a required non-list element (one instance per "
             "group of classes).  part=trailing (service PDUs): value with everything present / with every optional "
             "absent and lists empty, one extra tag appended to the body: a context tag with symbolic number 100..254 "
             "and one symbolic octet, or a closing tag with symbolic number 100..254: APCISequence.decode must raise a "
             "RejectException (TooManyArguments, or the error of the element that tried to absorb the tag).  "
             "part=missing: value with every optional absent and lists empty, the tags of one required top-level "
             "element cut out (each in turn; lists excepted: a missing list is an empty list): decode must raise a "
             "RejectException.  Leaves as in cls_rt leaf class 0",
      outside="more than one extra tag; application-tagged extra tags (a trailing list or optional element may "
              "legitimately absorb them); missing elements below the top level (each class is the class under test "
              "of its own instance)",
      stubs=[], assumes=[])
def cls_refuse(d, group, tier):
    K = d.pick(RGROUPS[tier][group], "cls")
    cname = K.__name__
    part = d.pick(refuse_parts(K), "part")
    thorough = tier == "t"
    g = G.Gen(d, thorough, 2 if thorough else 1, HINTS)
    d.note(cls=cname, part=part)
    if part == "trailing":
        M = g.top(K, "full" if d.index(2, "base") == 1 else "min")
        try:
            octets = encode(K, G.to_live(K, M))
        except Exception:
            # not a value the tree encodes: reported by cls_rt
            d.reach()
            return
        num = d.int(100, 254, "xnum")
        if d.index(2, "extra") == 0:
            extra = bytes(E.R.tagged(E.CTX, num, [d.int(0, 255, "xoctet")]))
        else:
            extra = bytes(E.closing(num))
        refusal(d, K, octets + extra, "trailing-data", extra=extra)
    else:
        req = required_elements(K)
        el = req[d.index(len(req), "drop")]
        M = g.top(K, "min")
        try:
            octets = encode(K, G.to_live(K, M))
        except Exception:
            d.reach()
            return
        # cut the element's top-level items out of the octets
        fields = dict(M[1])
        before = 0
        for e2 in K.sequenceElements:
            if e2.name == el.name:
                break
            before += G.item_count(e2.klass, fields[e2.name], e2.context)
        mine = G.item_count(el.klass, fields[el.name], el.context)
        spans = E.item_spans(octets)
        cut = octets[:spans[before][0]] + octets[spans[before + mine - 1][1]:]
        refusal(d, K, cut, "missing-required", element=el.name)
    d.reach()


# ---------------------------------------------------------------- instances
def estimate(K, tier):
    """rough number of paths of one class in cls_rt (sizes the groups only)"""
    t = tier == "t"
    maxlen = 2 if t else 1
    nested = any(not (issubclass(e.klass, P.Atomic)) for e in G.elements_of(K))
    inner = (6 if t else 2) if nested else 1
    if issubclass(K, C.Choice):
        shapes = len(K.choiceElements) * inner
        leaves = NROWS[tier] * len(G.rep_alternatives(K))
    else:
        n = len(G.Gen(None, t, maxlen, HINTS).optional_either(K))
        shapes = (2 ** n if (t and n <= 6) else 2 * (n + 1)) * inner
        for e in K.sequenceElements:
            if G.is_list(e.klass):
                shapes *= maxlen + 1
        leaves = NROWS[tier]
    return shapes + leaves


def estimate_refuse(K, tier):
    return (4 if is_pdu(K) else 0) + (len(required_elements(K)) if issubclass(K, C.Sequence) else 0)


def make_groups(classes, est, tier, target):
    groups, cur, size = [], [], 0
    for K in classes:
        n = est(K, tier)
        if K.__name__ in SOLO:
            groups.append([K])
            continue
        if cur and size + n > target:
            groups.append(cur)
            cur, size = [], 0
        cur.append(K)
        size += n
    if cur:
        groups.append(cur)
    return groups


# classes that get an instance of their own (a finding in one class ends the exploration of
# its instance; this keeps the neighbours' obligations independent of it)
SOLO = set()

GROUPS = {"q": make_groups(CLASSES, estimate, "q", 160), "t": make_groups(CLASSES, estimate, "t", 600)}
REFUSERS = [K for K in CLASSES if refuse_parts(K)]
RGROUPS = {"q": make_groups(REFUSERS, estimate_refuse, "q", 120),
           "t": make_groups(REFUSERS, estimate_refuse, "t", 120)}


def _span(grp):
    return grp[0].__name__ if len(grp) == 1 else grp[0].__name__ + ".." + grp[-1].__name__


def instances(tier):
    q = tier == "quick"
    t = "q" if q else "t"
    out = []
    for i, grp in enumerate(GROUPS[t]):
        out.append(Inst(cls_rt, dict(group=i, tier=t), budget=120 if q else 900, label="%d:%s" % (i, _span(grp))))
    for i, grp in enumerate(RGROUPS[t]):
        out.append(Inst(cls_refuse, dict(group=i, tier=t), budget=120 if q else 300, label="%d:%s" % (i, _span(grp))))
    return out
