"""C01 - Primitive values survive encoding unchanged and are never silently altered.

Every harness takes a value of one primitive type through the path the stack uses

    Cls(value) -> obj.encode(Tag) [-> Tag.app_to_context(n)] -> Tag.encode(PDUData) -> octets
    octets -> Tag(PDUData) [-> Tag.context_to_app(datatype)] -> Cls(tag) / Tag.app_to_object()

in application *and* in context mode (context number symbolic 0..254) and compares

* the octets with the canonical form of clause 20.2 (vf/ref/C01_ref.py, written from the
  standard), and
* the decoded value with the value that went in.

A constructor or encoder that raises is a refusal; refusing is legitimate only for values
the type cannot represent.
"""
import inspect
import math

from ..api import Inst, Violation, meta
from ..ref import C01_ref as R

from bacpypes.pdu import PDUData
from bacpypes.errors import InvalidTag
from bacpypes import primitivedata as P
from bacpypes import basetypes as B
from bacpypes import apdu as A

try:
    # engine shim (see the module's docstring): exact symbolic `|` / `& mask` for the octet
    # assembly in Integer.decode / BitString.decode.  Absent under plain-Python replay.
    from .. import sx_bitops as _sxshim
    _sxshim.install()
except ImportError:
    _sxshim = None

Tag = P.Tag
APP, CTX = R.APP, R.CTX


# ------------------------------------------------------------------ shared plumbing
def wire(obj, ctx=None):
    """value object -> octets, the way every bacpypes encoder does it"""
    t = Tag()
    obj.encode(t)
    if ctx is not None:
        t = t.app_to_context(ctx)
    pdu = PDUData()
    t.encode(pdu)
    return bytes(pdu.pduData)


def unwire(K, octets, ctx, appnum, what):
    """octets -> value object of class K through Tag.decode (and context_to_app).
    Octets the library produced itself must decode, must be consumed completely, must
    carry the tag class/number they were given, and - in application mode - must be
    recognised by Tag.app_to_object as the standard's datatype for that tag number."""
    try:
        pdu = PDUData(octets)
        t = Tag(pdu)
        left = len(pdu.pduData)
        if ctx is None:
            if t.tagClass != Tag.applicationTagClass or t.tagNumber != appnum:
                raise Violation("tag-identity", what=what, octets=octets,
                                tclass=t.tagClass, number=t.tagNumber)
            a = t
        else:
            if t.tagClass != Tag.contextTagClass or t.tagNumber != ctx:
                raise Violation("tag-identity", what=what, octets=octets,
                                tclass=t.tagClass, number=t.tagNumber)
            # the stack names the datatype of a context tag through the class's _app_tag
            a = t.context_to_app(getattr(K, '_app_tag', appnum))
        obj = K(a)
        # same four fields, tag number as the concrete value it was just checked to equal
        # (a symbolic index into Tag._app_tag_class yields an uncallable symbolic class)
        other = Tag(Tag.applicationTagClass, appnum, a.tagLVT, a.tagData).app_to_object()
    except Violation:
        raise
    except Exception as e:
        raise Violation("undecodable", what=what, exc=type(e).__name__, octets=octets)
    if left != 0:
        raise Violation("octets-left-over", what=what, octets=octets, left=left)
    if type(other) is not getattr(P, R.DATATYPE[appnum]):
        raise Violation("app-to-object-class", what=what, got=type(other).__name__,
                        want=R.DATATYPE[appnum])
    return obj, other


def both_modes(ctx):
    return (("application", None, APP), ("context", ctx, CTX))


def check_octets(octets, tclass, number, contents, what, **sig):
    want = bytes(R.tagged(tclass, number, contents))
    if bytes(octets) != want:
        raise Violation("not-canonical", what=what, got=octets, want=want, **sig)


# ------------------------------------------------------------------ int_rt
# class, application tag number (20.2.1.4), signed?, values that MUST be accepted
# (the standard's range of the type, 32 bits for the open-ended ones - what the
# repository's own tests bless), values the type can represent at all (None = open)
INT = {
    "Unsigned": (P.Unsigned, R.UNSIGNED, False, (0, 2 ** 32 - 1), (0, None)),
    "Unsigned8": (P.Unsigned8, R.UNSIGNED, False, (0, 255), (0, 255)),
    "Unsigned16": (P.Unsigned16, R.UNSIGNED, False, (0, 65535), (0, 65535)),
    "Enumerated": (P.Enumerated, R.ENUMERATED, False, (0, 2 ** 32 - 1), (0, None)),
    "Integer": (P.Integer, R.INTEGER, True, (-2 ** 31, 2 ** 31 - 1), (None, None)),
}


@meta(bounds="one instance per class and range; value v symbolic over [lo, hi] (widest: -2^71..2^71, so "
             "negative and over-long values are inside the domain), context number symbolic 0..254, both "
             "tagging modes on every path",
      outside="|v| > 2^71 (refused by the same struct range check)",
      stubs=[], assumes=[])
def int_rt(d, cls, lo, hi):
    K, appnum, signed, must, rep = INT[cls]
    v = d.int(lo, hi, 'v')
    ctx = d.int(0, 254, 'ctx')
    try:
        obj = K(v)
        app = wire(obj)
        cx = wire(obj, ctx)
    except Exception as e:
        if must[0] <= v <= must[1]:
            raise Violation("refused-representable", cls=cls, v=v, exc=type(e).__name__)
        d.reach()
        return
    if (rep[0] is not None and v < rep[0]) or (rep[1] is not None and v > rep[1]):
        raise Violation("accepted-unrepresentable", cls=cls, v=v, octets=app)
    if signed:
        outside32 = bool(v < -2 ** 31 or v > 2 ** 31 - 1)
    else:
        outside32 = bool(v > 2 ** 32 - 1)
    altered = []
    for mode, c, tclass in both_modes(ctx):
        octets = app if c is None else cx
        y, other = unwire(K, octets, c, appnum, cls + "/" + mode)
        got = y.value
        if got != v:
            # recorded below with d.flag; the framing oracle is still evaluated
            altered.append((mode, got, octets))
            n = len(app) - 1
            if 1 <= n <= 4:
                contents = app[1:]
                check_octets(octets, tclass, appnum if c is None else ctx, contents,
                             cls + "/" + mode + "/framing")
            continue
        if other.value != v:
            raise Violation("app-to-object-value", cls=cls, mode=mode, v=v, got=other.value)
        contents = R.signed_contents(v) if signed else R.unsigned_contents(v)
        check_octets(octets, tclass, appnum if c is None else ctx, contents, cls + "/" + mode, v=v)
    # "emits octets that decode to a different value".  outside32 tells the known
    # Integer.encode 32-bit mask defect (outside32=True) from anything else
    d.flag(len(altered) > 0, "integer-silently-altered" if cls == "Integer" else "silently-altered",
           cls=cls, outside32=outside32, v=v, got=altered[0][1] if altered else None,
           octets=altered[0][2] if altered else None, modes=[a[0] for a in altered])
    d.reach()


# ------------------------------------------------------------------ bits_rt
CTX_EDGE = (0, 14, 15, 254)     # both sides of the extended-tag-number boundary (20.2.1.2)


def _bits_check(bits, ctxs, K=None, what="BitString"):
    """one bit string through both tagging modes, once per context number in ctxs"""
    K = K or P.BitString
    n = len(bits)
    contents = R.bitstring_contents(bits)
    try:
        obj = K(list(bits))
        app = wire(obj)
    except Exception as e:
        raise Violation("refused-representable", cls=what, n=n, exc=type(e).__name__)
    for ctx in (None,) + tuple(ctxs):
        mode = "application" if ctx is None else "context"
        try:
            octets = app if ctx is None else wire(obj, ctx)
        except Exception as e:
            raise Violation("refused-representable", cls=what, n=n, exc=type(e).__name__)
        check_octets(octets, APP if ctx is None else CTX, R.BIT_STRING if ctx is None else ctx, contents,
                     what + "/" + mode, n=n)
        y, other = unwire(K, octets, ctx, R.BIT_STRING, what + "/" + mode)
        for o in (y, other):
            got = o.value
            if len(got) != n or list(got) != list(bits):
                raise Violation("silently-altered", cls=what, mode=mode, n=n,
                                got=list(got), want=list(bits))


@meta(bounds="shape=all: every bit pattern of every length lo..hi, application tagging and context tagging "
             "with numbers 0, 14, 15, 254 (BitString's constructor and decoder branch on every single bit, so "
             "all patterns means enumeration: the pattern is selected nibble by nibble and the path is "
             "concrete; lead=[a,b] splits one length over several instances by the leading nibble); "
             "shape=hot: lengths lo..hi, every pattern with exactly one bit set and every pattern "
             "with exactly one bit clear (each position of each length individually), context number "
             "symbolic 0..254, both tagging modes",
      outside="lengths above 64; on lengths above the shape=all bound, patterns other than one-hot / "
              "one-cold (bits are packed independently of each other)",
      stubs=[], assumes=[])
def bits_rt(d, shape, lo, hi, lead=None):
    n = lo + d.index(hi - lo + 1, 'n')
    if shape == "all":
        bits = []
        for j in range(0, n, 4):
            w = min(4, n - j)
            if j == 0 and lead is not None:
                # this instance's share of the patterns: leading nibble in lead[0]..lead[1]
                v = lead[0] + d.index(lead[1] - lead[0] + 1, 'nib0')
            else:
                v = d.index(2 ** w, 'nib%d' % (j // 4))
            bits += [(v >> (w - 1 - i)) & 1 for i in range(w)]
        _bits_check(bits, CTX_EDGE)
    else:
        p = d.index(n, 'p')
        ctx = d.int(0, 254, 'ctx')
        for one in (1, 0):
            _bits_check([one if i == p else 1 - one for i in range(n)], (ctx,))
    d.reach()


def _subclasses(base):
    out = []
    for m in (P, B, A):
        for name, c in sorted(vars(m).items()):
            if inspect.isclass(c) and issubclass(c, base) and c is not base \
                    and c.__module__ == m.__name__:
                out.append(c)
    return out


BIT_CLASSES = [c for c in _subclasses(P.BitString) if c.bitNames]


@meta(bounds="every named BitString subclass defined in primitivedata/basetypes/apdu, every bit name "
             "(alone, and together with the next name of the class); context number symbolic 0..254",
      outside="subclasses defined elsewhere", stubs=[], assumes=[])
def bits_names(d):
    K = d.pick(BIT_CLASSES, 'cls')
    names = sorted(K.bitNames)
    i = pick2(d, len(names), 'name')
    ctx = d.int(0, 254, 'ctx')
    for chosen in ([names[i]], [names[i], names[(i + 1) % len(names)]]):
        want = [0] * K.bitLen
        for nm in chosen:
            pos = K.bitNames[nm]
            if not (0 <= pos < K.bitLen):
                raise Violation("bit-name-outside-length", cls=K.__name__, name=nm, pos=pos, bitLen=K.bitLen)
            want[pos] = 1
        try:
            obj = K(list(chosen))
        except Exception as e:
            raise Violation("refused-representable", cls=K.__name__, names=chosen, exc=type(e).__name__)
        if list(obj.value) != want:
            raise Violation("bit-name-position", cls=K.__name__, names=chosen, got=list(obj.value))
        for nm in K.bitNames:
            if obj[nm] != (1 if nm in chosen else 0):
                raise Violation("bit-name-lookup", cls=K.__name__, names=chosen, name=nm)
        # encoded like the plain bit list the names stand for
        try:
            if wire(obj) != wire(P.BitString(list(want))):
                raise Violation("bit-name-encoding", cls=K.__name__, names=chosen)
        except Violation:
            raise
        except Exception as e:
            raise Violation("refused-representable", cls=K.__name__, names=chosen, exc=type(e).__name__)
        _bits_check(want, (ctx,), K, K.__name__)
    d.reach()


# ------------------------------------------------------------------ enum_names
def _table(K):
    """the public name -> number table of an Enumerated subclass (its own and inherited)"""
    t = {}
    for c in reversed(K.__mro__):
        t.update(getattr(c, 'enumerations', None) or {})
    return t


def _enum_edges(numbers):
    """undefined numbers next to every defined one and at every encoded-length boundary"""
    cand = set()
    for k in numbers:
        cand.update((k - 1, k + 1))
    cand.update((0, 255, 256, 65535, 65536, 2 ** 24 - 1, 2 ** 24, 2 ** 32 - 1))
    defined = set(numbers)
    return sorted(c for c in cand if 0 <= c < 2 ** 32 and c not in defined)


ENUM_CLASSES = [c for c in _subclasses(P.Enumerated) if _table(c)]
# per class: name -> number, sorted names, sorted distinct numbers, undefined edge numbers
# (built once at import, untraced)
ENUM_INFO = {}
for _c in ENUM_CLASSES:
    _t = _table(_c)
    _nums = sorted(set(_t.values()))
    ENUM_INFO[_c.__name__] = (_t, sorted(_t), _nums, _enum_edges(_nums))


def _enum_groups(limit=130):
    groups, cur, size = [], [], 0
    for c in ENUM_CLASSES:
        n = len(_table(c))
        if cur and size + n > limit:
            groups.append(cur)
            cur, size = [], 0
        cur.append(c)
        size += n
    if cur:
        groups.append(cur)
    return groups


ENUM_GROUPS = _enum_groups()


def pick2(d, n, name):
    """concrete index in range(n) through a two-level selector: a flat d.index(n) walks a
    chain of up to n solver decisions on every path, which is quadratic on the 477-name
    PropertyIdentifier table"""
    if n <= 24:
        return d.index(n, name)
    hi = d.index((n + 15) // 16, name + '_hi')
    lo = d.index(min(16, n - 16 * hi), name + '_lo')
    return 16 * hi + lo


@meta(bounds="every Enumerated subclass with a name table defined in primitivedata/basetypes/apdu (one "
             "instance per group of classes).  part=names: every name of every table: Cls(name) encodes the "
             "table's number in canonical form and decodes to the same name, Cls(number) gives the name; "
             "application tagging and context tagging with numbers 0, 14, 15, 254 (concrete paths).  "
             "part=other: every number 0..2^32-1 that the table does not define, as one symbolic value per "
             "encoded length, both tagging modes, context number symbolic 0..254: survives as that number.  "
             "part=edges (quick tier, the three tables with more than 130 names, where the symbolic "
             "table lookup costs seconds per path): the undefined numbers adjacent to a defined one and at "
             "the encoded-length boundaries, concrete",
      outside="subclasses defined in other modules; symbolic context numbers for *named* values (the "
              "context form is derived from the application tag's contents; checked for every number and "
              "every context number by part=other and int_rt[Enumerated])",
      stubs=[], assumes=[])
def enum_names(d, group, part):
    K = d.pick(ENUM_GROUPS[group], 'cls')
    cname = K.__name__
    table, names, numbers, edges = ENUM_INFO[cname]
    aliased = []
    if part == "names":
        name = names[pick2(d, len(names), 'name')]
        num = table[name]
        ctxs = CTX_EDGE
        try:
            obj = K(name)
            byn = K(num).value
        except Exception as e:
            raise Violation("refused-representable", cls=cname, name=name, exc=type(e).__name__)
        if obj.value != name:
            raise Violation("enum-ctor-altered", cls=cname, name=name, got=obj.value)
        if byn != name:
            if isinstance(byn, str) and table.get(byn) == num:
                aliased.append(("ctor", byn))
            else:
                raise Violation("enum-number-to-wrong-name", cls=cname, num=num, got=byn, want=name)
        sent = name
    else:
        if part == "edges":
            num = edges[pick2(d, len(edges), 'edge')]
            ctxs = CTX_EDGE
        else:
            ctx = d.int(0, 254, 'ctx')
            num = d.int(0, 2 ** 32 - 1, 'num')
            undefined = True
            for k in numbers:
                undefined = undefined & (num != k)
            d.assume(undefined)
            ctxs = (ctx,)
        try:
            obj = K(num)
        except Exception as e:
            raise Violation("refused-representable", cls=cname, num=num, exc=type(e).__name__)
        sent = obj.value
        if isinstance(sent, str) or sent != num:
            raise Violation("enum-ctor-altered", cls=cname, num=num, got=sent)
    contents = R.unsigned_contents(num)
    for ctx in (None,) + tuple(ctxs):
        mode = "application" if ctx is None else "context"
        try:
            octets = wire(obj, ctx)
        except Exception as e:
            raise Violation("refused-representable", cls=cname, sent=sent, mode=mode, exc=type(e).__name__)
        check_octets(octets, APP if ctx is None else CTX, R.ENUMERATED if ctx is None else ctx, contents,
                     cname + "/" + mode, sent=sent)
        y, other = unwire(K, octets, ctx, R.ENUMERATED, cname + "/" + mode)
        got = y.value
        if isinstance(got, str) != isinstance(sent, str) or got != sent:
            if isinstance(got, str) and isinstance(sent, str) and table.get(got) == num:
                aliased.append((mode, got))
            else:
                raise Violation("silently-altered", cls=cname, mode=mode, sent=sent, got=got)
        if other.value != num:
            raise Violation("app-to-object-value", cls=cname, mode=mode, num=num, got=other.value)
    # two names of one table share a number: the name that went in comes back as the
    # other one (recorded once per path; the remaining oracles above were still evaluated)
    d.flag(len(aliased) > 0, "enum-name-aliased", cls=cname, sent=sent, got=aliased[0][1] if aliased else None,
           num=num, where=[a[0] for a in aliased])
    d.reach()


# ------------------------------------------------------------------ oid_rt
OT_TABLE = _table(P.ObjectType)
OT_NUMBERS = sorted(set(OT_TABLE.values()))
OT_NAMES = sorted(OT_TABLE)
OID = R.OBJECT_IDENTIFIER
OT_SMALL = [0, 8, 56, 62, 63, 127, 128, 1023]


def _oid_finish(d, obj, otype, inst, app, cx, ctx, what, decode):
    contents = R.object_identifier_contents(otype, inst)
    for mode, c, tclass in both_modes(ctx):
        octets = app if c is None else cx
        check_octets(octets, tclass, OID if c is None else ctx, contents, what + "/" + mode)
        if not decode:
            continue
        y, other = unwire(P.ObjectIdentifier, octets, c, OID, what + "/" + mode)
        for o in ((y, other) if c is None else (y,)):
            if o.value != obj.value:
                raise Violation("silently-altered", cls="ObjectIdentifier", mode=mode,
                                sent=obj.value, got=o.value)
            if o.get_tuple() != (otype, inst):
                raise Violation("silently-altered", cls="ObjectIdentifier", mode=mode,
                                sent=(otype, inst), got=o.get_tuple())


def _oid_value_ok(obj, otype, inst):
    """the Python-side value is (name-or-number, instance) of exactly this type and instance"""
    tv, iv = obj.value
    if iv != inst:
        raise Violation("oid-instance", got=iv, want=inst)
    if isinstance(tv, str):
        if OT_TABLE.get(tv) != otype:
            raise Violation("oid-type-wrong-name", got=tv, want=otype)
    else:
        if tv != otype:
            raise Violation("oid-type", got=tv, want=otype)
        for k in OT_NUMBERS:
            if otype == k:
                raise Violation("oid-defined-type-unnamed", otype=otype)
    if obj.get_tuple() != (otype, inst):
        raise Violation("oid-get-tuple", got=obj.get_tuple(), want=(otype, inst))


@meta(bounds="all 2^32 object identifier words.  part=encode: type symbolic 0..1023 (named, reserved, vendor), "
             "instance symbolic 0..2^22-1: ObjectIdentifier(type*2^22+instance) has that (type, instance) value "
             "and encodes as exactly those 4 octets in both tagging modes.  part=decode: 4 symbolic octets: "
             "decoding gives the (type, instance) the 10+22-bit layout says and re-encoding gives the same "
             "octets (together: decode(encode(v)) = v for every word).  part=roundtrip: the literal "
             "decode(encode(v)) = v, both modes, for types {0, 8, 56, 62, 63, 127, 128, 1023} with symbolic "
             "instance.  Context number symbolic 0..254 throughout",
      outside="nothing (the type is 32 bits); the literal round trip is run on 8 representative types only, "
              "because reassembling the word from its octets under a 63-key symbolic table lookup costs "
              "about 1 s per path",
      stubs=[], assumes=[])
def oid_word(d, part):
    ctx = d.int(0, 254, 'ctx')
    if part == "decode":
        o = d.bytes(4, name='octets')
        otype = o[0] * 4 + o[1] // 64
        inst = (o[1] % 64) * 65536 + o[2] * 256 + o[3]
        for tag in (P.ApplicationTag(OID, o), P.ContextTag(ctx, o).context_to_app(OID)):
            try:
                obj = P.ObjectIdentifier(tag)
                app = wire(obj)
                cx = wire(obj, ctx)
            except Exception as e:
                raise Violation("undecodable", what="ObjectIdentifier", octets=o, exc=type(e).__name__)
            _oid_value_ok(obj, otype, inst)
            check_octets(app, APP, OID, o, "ObjectIdentifier/decode/application")
            check_octets(cx, CTX, ctx, o, "ObjectIdentifier/decode/context")
        d.reach()
        return
    if part == "roundtrip":
        otype = d.pick(OT_SMALL, 'type')
    else:
        otype = d.int(0, 1023, 'type')
    inst = d.int(0, 4194303, 'inst')
    w = otype * 4194304 + inst
    try:
        obj = P.ObjectIdentifier(w)
        app = wire(obj)
        cx = wire(obj, ctx)
    except Exception as e:
        raise Violation("refused-representable", cls="ObjectIdentifier", word=w, exc=type(e).__name__)
    _oid_value_ok(obj, otype, inst)
    _oid_finish(d, obj, otype, inst, app, cx, ctx, "ObjectIdentifier(word)", part == "roundtrip")
    d.reach()


@meta(bounds="(type, instance) with type symbolic over [-1, 1024] and instance symbolic over [-1, 2^22] "
             "(one step outside the 10-bit / 22-bit fields on each side), given as two arguments (form=args) "
             "or as one tuple (form=tuple): outside the fields refused, inside accepted and encoded as "
             "type*2^22+instance in both tagging modes; form=name: every object type name with symbolic "
             "instance 0..2^22-1 (rt=True: with the literal round trip); context number symbolic 0..254",
      outside="types / instances further outside the fields; the 'type:instance' text form; decoding is "
              "covered for every word by oid_word[part=decode]",
      stubs=[], assumes=[])
def oid_tuple(d, form, rt):
    ctx = d.int(0, 254, 'ctx')
    if form == "name":
        name = OT_NAMES[pick2(d, len(OT_NAMES), 'name')]
        otype = OT_TABLE[name]
        inst = d.int(0, 4194303, 'inst')
        arg, ok_dom = (name, inst), True
    else:
        otype = d.int(-1, 1024, 'type')
        inst = d.int(-1, 4194304, 'inst')
        arg = (otype, inst)
        ok_dom = bool(0 <= otype <= 1023 and 0 <= inst <= 4194303)
    try:
        obj = P.ObjectIdentifier(arg[0], arg[1]) if form == "args" else P.ObjectIdentifier(arg)
        app = wire(obj)
        cx = wire(obj, ctx)
    except Exception as e:
        if ok_dom:
            raise Violation("refused-representable", cls="ObjectIdentifier", arg=arg, exc=type(e).__name__)
        d.reach()
        return
    if not ok_dom:
        raise Violation("accepted-unrepresentable", cls="ObjectIdentifier", arg=arg, octets=app)
    if form == "name" and obj.value[0] != name:
        raise Violation("oid-type-wrong-name", got=obj.value[0], want=name)
    _oid_value_ok(obj, otype, inst)
    _oid_finish(d, obj, otype, inst, app, cx, ctx, "ObjectIdentifier(" + form + ")", rt)
    d.reach()


# ------------------------------------------------------------------ date_time_rt
@meta(bounds="Date and Time; the four fields symbolic over [-1, 256] each (one step outside an octet on each "
             "side); form=tuple: the 4-tuple constructor; form=kw (Date): keyword constructor with year "
             "symbolic over [-1, 2156] (a year >= 1900 is stored as year-1900); context number symbolic 0..254",
      outside="text forms of dates and times (C20); field values further outside an octet",
      stubs=[], assumes=[])
def date_time_rt(d, cls, form):
    K, appnum = (P.Date, R.DATE) if cls == "Date" else (P.Time, R.TIME)
    ctx = d.int(0, 254, 'ctx')
    if form == "kw":
        year = d.int(-1, 2156, 'year')
        rest = [d.int(-1, 256, 'f%d' % i) for i in (1, 2, 3)]
        want = (year - 1900 if year >= 1900 else year,) + tuple(rest)
    else:
        want = tuple(d.int(-1, 256, 'f%d' % i) for i in range(4))
    ok_dom = True
    for x in want:
        if not (0 <= x <= 255):
            ok_dom = False
            break
    try:
        if form == "kw":
            obj = K(year=year, month=rest[0], day=rest[1], day_of_week=rest[2])
        else:
            obj = K(want)
        app = wire(obj)
        cx = wire(obj, ctx)
    except Exception as e:
        if ok_dom:
            raise Violation("refused-representable", cls=cls, value=want, exc=type(e).__name__)
        d.reach()
        return
    if not ok_dom:
        raise Violation("accepted-unrepresentable", cls=cls, value=want, octets=app)
    if tuple(obj.value) != want:
        raise Violation("ctor-altered", cls=cls, got=obj.value, want=want)
    for mode, c, tclass in both_modes(ctx):
        octets = app if c is None else cx
        check_octets(octets, tclass, appnum if c is None else ctx, list(want), cls + "/" + mode)
        y, other = unwire(K, octets, c, appnum, cls + "/" + mode)
        for o in (y, other):
            got = o.value
            if not isinstance(got, tuple) or len(got) != 4 or got != want:
                raise Violation("silently-altered", cls=cls, mode=mode, got=got, want=want)
    d.reach()


# ------------------------------------------------------------------ str_rt
LONG = [253, 254, 255, 256, 65535, 65536]
LONG_DATA = dict((L, bytes([(7 * i + 1) % 256 for i in range(L)])) for L in LONG)


@meta(bounds="OctetString: every octet string of length 0..n (length and content symbolic), context number "
             "symbolic 0..254; long=True: concrete strings of lengths 253, 254, 255, 256, 65535, 65536 (both "
             "sides of each boundary of the extended length forms of 20.2.1.3.1), context numbers 14, 15 "
             "(n=1: 0, 14, 15, 254) (everything concrete: a 64 KiB symbolic string does not finish)",
      outside="other lengths above n (the content is copied; only the length header depends on the length)",
      stubs=[], assumes=[])
def octets_rt(d, n, long):
    if long:
        L = d.pick(LONG, 'len')
        ctx = d.pick(CTX_EDGE if n else CTX_EDGE[1:3], 'ctx')
        data = LONG_DATA[L]
    else:
        ctx = d.int(0, 254, 'ctx')
        data = d.bytes(0, n, 'data')
    try:
        obj = P.OctetString(data)
        app = wire(obj)
        cx = wire(obj, ctx)
    except Exception as e:
        raise Violation("refused-representable", cls="OctetString", n=len(data), exc=type(e).__name__)
    for mode, c, tclass in both_modes(ctx):
        octets = app if c is None else cx
        if long:
            # header and contents compared separately (a 64 KiB list comparison under tracing is slow)
            hdr = bytes(R.tag_header(tclass, R.OCTET_STRING if c is None else ctx, len(data)))
            if bytes(octets[:len(hdr)]) != hdr or bytes(octets[len(hdr):]) != data:
                raise Violation("not-canonical", what="OctetString/" + mode, n=len(data),
                                got=bytes(octets[:8]), want=hdr)
        else:
            check_octets(octets, tclass, R.OCTET_STRING if c is None else ctx, data, "OctetString/" + mode)
        y, other = unwire(P.OctetString, octets, c, R.OCTET_STRING, "OctetString/" + mode)
        for o in (y, other):
            if bytes(o.value) != bytes(data):
                raise Violation("silently-altered", cls="OctetString", mode=mode, n=len(data))
    d.reach()


SURROGATES = [0xD800, 0xDBFF, 0xDC00, 0xDFFF]
LEAD = {1: (0, 0x7F), 2: (0x80, 0x7FF), 3: (0x800, 0xFFFF), 4: (0x10000, 0x10FFFF)}


@meta(bounds="CharacterString: every text of exactly n characters, each code point symbolic over all of "
             "0..0x10FFFF except the surrogate block (1-, 2-, 3- and 4-octet UTF-8 forms; lead=k splits one "
             "length over four instances by the UTF-8 length of the first character); surrogate=True: "
             "one lone surrogate (concrete: D800, DBFF, DC00, DFFF), alone or next to ASCII characters, "
             "must be refused; context number symbolic 0..254",
      outside="texts longer than n characters; surrogate code points other than the four block boundaries "
              "(CrossHair's UTF-8 model encodes lone surrogates instead of refusing them, so they are "
              "checked with concrete code points through the real codec); character sets other than UTF-8",
      stubs=[], assumes=["code points drawn symbolically are not surrogates (checked concretely instead)"])
def chars_rt(d, n, surrogate, lead=None):
    ctx = d.int(0, 254, 'ctx')
    if surrogate:
        # all concrete: the real codec runs (CrossHair's UTF-8 model lets surrogates through)
        s = d.pick(SURROGATES, 'surrogate')
        text = d.pick(["", "a"], 'before') + chr(s) + d.pick(["", "z"], 'after')
        try:
            app = wire(P.CharacterString(text))
        except Exception:
            d.reach()
            return
        # a lone surrogate has no UTF-8 form (RFC 3629): whatever was emitted is not the value
        raise Violation("accepted-unrepresentable", cls="CharacterString", surrogate=s, octets=app)
    cps = [d.int(0, 0x10FFFF, 'cp%d' % i) for i in range(n)]
    if lead is not None:
        # this instance's share: first character with a UTF-8 form of `lead` octets
        d.assume(LEAD[lead][0] <= cps[0] <= LEAD[lead][1])
    for cp in cps:
        d.assume(not (0xD800 <= cp <= 0xDFFF))
    text = ''.join([chr(cp) for cp in cps])
    try:
        obj = P.CharacterString(text)
        app = wire(obj)
        cx = wire(obj, ctx)
    except Exception as e:
        raise Violation("refused-representable", cls="CharacterString", cps=cps, exc=type(e).__name__)
    contents = R.charstring_contents(cps)
    for mode, c, tclass in both_modes(ctx):
        octets = app if c is None else cx
        check_octets(octets, tclass, R.CHARACTER_STRING if c is None else ctx, contents,
                     "CharacterString/" + mode, cps=cps)
        y, other = unwire(P.CharacterString, octets, c, R.CHARACTER_STRING, "CharacterString/" + mode)
        for o in (y, other):
            if o.value != text or o.strEncoding != 0:
                raise Violation("silently-altered", cls="CharacterString", mode=mode, cps=cps,
                                got=o.value, encoding=o.strEncoding)
    d.reach()


# ------------------------------------------------------------------ null_bool
@meta(bounds="Null; Boolean with symbolic value; context number symbolic 0..254, both tagging modes "
             "(application Boolean: value in the tag's L/V/T field, no contents; context Boolean: one "
             "contents octet, 20.2.3)",
      outside="nothing", stubs=[], assumes=[])
def null_bool(d):
    ctx = d.int(0, 254, 'ctx')
    b = d.bool('b')
    # Null
    try:
        obj = P.Null(())
        app = wire(obj)
        cx = wire(obj, ctx)
    except Exception as e:
        raise Violation("refused-representable", cls="Null", exc=type(e).__name__)
    for mode, c, tclass in both_modes(ctx):
        octets = app if c is None else cx
        check_octets(octets, tclass, R.NULL if c is None else ctx, [], "Null/" + mode)
        y, other = unwire(P.Null, octets, c, R.NULL, "Null/" + mode)
        for o in (y, other):
            if o.value != ():
                raise Violation("silently-altered", cls="Null", mode=mode, got=o.value)
    # Boolean
    try:
        obj = P.Boolean(b)
        app = wire(obj)
        cx = wire(obj, ctx)
    except Exception as e:
        raise Violation("refused-representable", cls="Boolean", b=b, exc=type(e).__name__)
    bit = 1 if b else 0
    want_app = bytes(R.tag_header(APP, R.BOOLEAN, bit))
    if bytes(app) != want_app:
        raise Violation("not-canonical", what="Boolean/application", got=app, want=want_app)
    check_octets(cx, CTX, ctx, [bit], "Boolean/context")
    for mode, c, tclass in both_modes(ctx):
        octets = app if c is None else cx
        y, other = unwire(P.Boolean, octets, c, R.BOOLEAN, "Boolean/" + mode)
        for o in (y, other):
            if not isinstance(o.value, bool) or o.value != b:
                raise Violation("silently-altered", cls="Boolean", mode=mode, got=o.value, want=b)
    d.reach()


# ------------------------------------------------------------------ tag_conv
ATOMIC = [P.Null, P.Boolean, P.Unsigned, P.Integer, P.Real, P.Double, P.OctetString,
          P.CharacterString, P.BitString, P.Enumerated, P.Date, P.Time, P.ObjectIdentifier]


def _fields(t):
    return (t.tagClass, t.tagNumber, t.tagLVT, bytes(t.tagData))


@meta(bounds="every application tag number 0..15 (13 datatypes + 3 reserved numbers; lo..hi per instance); "
             "contents 0..n symbolic octets (Boolean: L/V/T value symbolic 0..1, no contents); context number "
             "symbolic 0..254",
      outside="contents longer than n octets (conversions copy the contents)", stubs=[], assumes=[])
def tag_conv(d, lo, hi, n):
    number = lo + d.index(hi - lo + 1, 'number')
    ctx = d.int(0, 254, 'ctx')
    if number == R.BOOLEAN:
        lvt = d.int(0, 1, 'lvt')
        data = b''
        t = Tag(Tag.applicationTagClass, number, lvt, data)
        cdata = bytes([lvt])
    else:
        data = d.bytes(0, n, 'data')
        t = P.ApplicationTag(number, data)
        lvt = len(data)
        cdata = data
        if _fields(t) != (Tag.applicationTagClass, number, lvt, bytes(data)):
            raise Violation("application-tag-ctor", number=number, got=_fields(t))
    # application -> context: same contents (Boolean: the value moves into one octet)
    try:
        c = t.app_to_context(ctx)
    except Exception as e:
        raise Violation("conversion-refused", step="app_to_context", number=number, exc=type(e).__name__)
    if _fields(c) != (Tag.contextTagClass, ctx, len(cdata), bytes(cdata)):
        raise Violation("app-to-context", number=number, got=_fields(c),
                        want=(Tag.contextTagClass, ctx, len(cdata), bytes(cdata)))
    pdu = PDUData()
    c.encode(pdu)
    check_octets(bytes(pdu.pduData), CTX, ctx, cdata, "tag_conv/context", app_number=number)
    # ... and back
    try:
        back = c.context_to_app(number)
    except Exception as e:
        raise Violation("conversion-refused", step="context_to_app", number=number, exc=type(e).__name__)
    if _fields(back) != _fields(t):
        raise Violation("context-to-app", number=number, got=_fields(back), want=_fields(t))
    if not (back == t) or (back != t):
        raise Violation("tag-equality", number=number)
    pdu = PDUData()
    back.encode(pdu)
    if number == R.BOOLEAN:
        want = bytes(R.tag_header(APP, number, lvt))
    else:
        want = bytes(R.tagged(APP, number, data))
    if bytes(pdu.pduData) != want:
        raise Violation("not-canonical", what="tag_conv/application", number=number,
                        got=bytes(pdu.pduData), want=want)
    # the conversions insist on the class they convert from
    for what, f in (("app_to_context on a context tag", lambda: c.app_to_context(ctx)),
                    ("context_to_app on an application tag", lambda: t.context_to_app(number)),
                    ("app_to_object on a context tag", lambda: c.app_to_object())):
        try:
            f()
        except Exception:
            continue
        raise Violation("conversion-accepted-wrong-class", what=what, number=number)
    # reserved application tag numbers have no datatype
    if number > 12:
        if t.app_to_object() is not None:
            raise Violation("app-to-object-class", what="reserved tag number", number=number)
    # a datatype decodes only its own application tag: never a context tag, never the
    # tag of another datatype (that would be a silently different value)
    for k, K in enumerate(ATOMIC):
        for tag, why in ((c, "context tag"), (t, "application tag of another datatype")):
            if tag is t and k == number:
                continue
            try:
                K(tag)
            except Exception:
                continue
            raise Violation("decoded-foreign-tag", cls=K.__name__, why=why, number=number)
    d.reach()


# ------------------------------------------------------------------ float_plumb
# concrete representatives only (IEEE-754 layout facts are smtk lemmas).  Octets written
# by hand from the binary32 / binary64 layout: sign, biased exponent, fraction.
F32_MAX = (2.0 - 2.0 ** -23) * 2.0 ** 127
REAL_CASES = [
    (0.0, "00000000"), (-0.0, "80000000"), (1.0, "3f800000"), (-1.0, "bf800000"),
    (1.5, "3fc00000"), (73.5, "42930000"), (-2.5, "c0200000"),
    (F32_MAX, "7f7fffff"), (-F32_MAX, "ff7fffff"),
    (2.0 ** -126, "00800000"),                       # smallest normal
    (2.0 ** -149, "00000001"),                       # smallest denormal
    ((1.0 - 2.0 ** -23) * 2.0 ** -126, "007fffff"),  # largest denormal
    (-(2.0 ** -149), "80000001"),
    (1.0 + 2.0 ** -23, "3f800001"),                  # 1 + ulp
    (16777216.0, "4b800000"), (0.15625, "3e200000"),
    (float("inf"), "7f800000"), (float("-inf"), "ff800000"),
]
F64_MAX = (2.0 - 2.0 ** -52) * 2.0 ** 1023
DOUBLE_CASES = [
    (0.0, "0000000000000000"), (-0.0, "8000000000000000"), (1.0, "3ff0000000000000"),
    (-1.0, "bff0000000000000"), (1.5, "3ff8000000000000"), (73.5, "4052600000000000"),
    (0.1, "3fb999999999999a"), (F64_MAX, "7fefffffffffffff"), (-F64_MAX, "ffefffffffffffff"),
    (2.0 ** -1022, "0010000000000000"), (2.0 ** -1074, "0000000000000001"),
    ((1.0 - 2.0 ** -52) * 2.0 ** -1022, "000fffffffffffff"),
    (1.0 + 2.0 ** -52, "3ff0000000000001"), (F32_MAX, "47efffffe0000000"),
    (2.0 ** -149, "36a0000000000000"),
    (float("inf"), "7ff0000000000000"), (float("-inf"), "fff0000000000000"),
]
# binary64 values that are not binary32 values: Real rounds to nearest-even (the
# "4-octet IEEE float" of the statement) or refuses; it never emits anything else
REAL_ROUNDED = [
    (0.1, "3dcccccd"), (1.0 + 2.0 ** -24, "3f800000"), (1.0 + 3 * 2.0 ** -24, "3f800002"),
    (2.0 ** -150, "00000000"), (3 * 2.0 ** -150, "00000002"), (1e-50, "00000000"),
    (16777217.0, "4b800000"),
]
REAL_TOO_BIG = [1e39, -1e39, F32_MAX * (1 + 2.0 ** -23), 2.0 ** 128]


def _same_float(a, b):
    return isinstance(a, float) and a == b and math.copysign(1.0, a) == math.copysign(1.0, b)


def _float_value(hexoctets, double):
    """value of a binary32 / binary64 pattern, computed arithmetically from the layout"""
    v = int(hexoctets, 16)
    ebits, fbits = (11, 52) if double else (8, 23)
    sign = -1.0 if v >> (ebits + fbits) else 1.0
    e = (v >> fbits) % (1 << ebits)
    f = v % (1 << fbits)
    bias = (1 << (ebits - 1)) - 1
    if e == (1 << ebits) - 1:
        return sign * float("inf") if f == 0 else float("nan")
    if e == 0:
        return sign * math.ldexp(float(f), 1 - bias - fbits)
    return sign * math.ldexp(float((1 << fbits) + f), e - bias - fbits)


@meta(bounds="Real / Double on CONCRETE representative values (zeros of both signs, +-1, 1.5, 73.5, "
             "largest finite, smallest normal, smallest/largest denormal, 1+ulp, infinities; for Real also "
             "binary64 values that are not binary32 values - rounded to nearest-even or refused, nothing else - "
             "and values too large for binary32 - refused or exact); "
             "context number symbolic 0..254; wrong-length decode: every contents length 0..9 except the "
             "right one, content symbolic",
      outside="all other floating point values (IEEE-754 layout is discharged as smtk lemmas); NaN",
      stubs=[], assumes=["a Python float that is not a binary32 value may be rounded to the nearest binary32 "
                         "value by Real (statement: '4-octet IEEE float') or refused"])
def float_plumb(d, cls):
    double = cls == "Double"
    K, appnum, width = (P.Double, R.DOUBLE, 8) if double else (P.Real, R.REAL, 4)
    ctx = d.int(0, 254, 'ctx')
    part = d.pick(["value", "wrong-length"] if double else ["value", "rounded", "too-big", "wrong-length"], 'part')
    if part in ("value", "rounded"):
        cases = REAL_ROUNDED if part == "rounded" else (DOUBLE_CASES if double else REAL_CASES)
        x, hexo = cases[d.index(len(cases), 'case')]
        contents = bytes.fromhex(hexo)
        want = _float_value(hexo, double)
        try:
            obj = K(x)
            app = wire(obj)
            cx = wire(obj, ctx)
        except Exception as e:
            if part == "rounded":
                # not a binary32 value: refusing is as legitimate as rounding
                d.reach()
                return
            raise Violation("refused-representable", cls=cls, x=x, exc=type(e).__name__)
        if not _same_float(obj.value, x):
            raise Violation("ctor-altered", cls=cls, x=x, got=obj.value)
        for mode, c, tclass in both_modes(ctx):
            octets = app if c is None else cx
            check_octets(octets, tclass, appnum if c is None else ctx, contents, cls + "/" + mode, x=x)
            y, other = unwire(K, octets, c, appnum, cls + "/" + mode)
            for o in (y, other):
                if not _same_float(o.value, want):
                    raise Violation("silently-altered", cls=cls, mode=mode, x=x, got=o.value, want=want)
    elif part == "too-big":
        x = REAL_TOO_BIG[d.index(len(REAL_TOO_BIG), 'case')]
        try:
            app = wire(K(x))
        except Exception:
            app = None
        if app is not None:
            # not refused: then it must decode to the very value
            y, _ = unwire(K, app, None, appnum, cls + "/too-big")
            if not _same_float(y.value, x):
                raise Violation("silently-altered", cls=cls, mode="application", x=x, got=y.value)
    else:
        data = d.bytes(0, 9, 'data')
        d.assume(len(data) != width)
        for how, tag in (("application", P.ApplicationTag(appnum, data)),
                         ("context", P.ContextTag(ctx, data).context_to_app(appnum))):
            outcome = "accepted"
            try:
                K(tag)
            except InvalidTag:
                continue
            except Exception as e:
                outcome = type(e).__name__
            # the repository's tests pin InvalidTag (the layers above turn it into a Reject)
            raise Violation("wrong-length-not-invalid-tag", cls=cls, n=len(data), how=how, outcome=outcome)
    d.reach()


# ------------------------------------------------------------------ instances
@meta(bounds="a CharacterString RECEIVED in another character set and passed on (what a gateway does): the tag carries encoding "
             "octet 4 (UCS-2), 5 (ISO 8859-1), 3 (UCS-4), 1, 2 or an undefined one, with a concrete representative body (14 cases: "
             "ASCII and non-ASCII characters, the empty string, octets that are not valid UTF-8); decoding it and encoding the result - also a copy made with CharacterString(x) - gives the same octets "
             "and the same character set back, in both tagging modes",
      outside="other bodies (the character-set codecs are not followed symbolically)",
      stubs=[], assumes=[])
def str_reencode(d):
    from bacpypes.primitivedata import CharacterString, Tag
    # concrete representative bodies: the codecs of the character sets, driven with symbolic octets, make the engine enumerate
    enc, body = d.pick([(4, b"\x00a"), (4, b"\x00a\x00b"), (4, b"\x61\x62"), (4, b"\xff\xfd"), (4, b""),
                        (5, b"a"), (5, b"caf\xe9"), (5, b"\xff\x80"),
                        (3, b"\x00\x00\x00a"), (3, b"\x00\x01\xf6\x00"),
                        (6, b"ab"), (255, b"\x00\xff"), (1, b"ab"), (2, b"ab")], 'received')
    data = bytes([enc]) + body
    tag = Tag(Tag.applicationTagClass, Tag.characterStringAppTag, len(data), data)
    x = CharacterString(tag)
    for who, obj in (("received", x), ("copy", CharacterString(x))):
        t2 = Tag()
        obj.encode(t2)
        if bytes(t2.tagData) != data:
            raise Violation("reencoded-differs", who=who, character_set=enc, got=bytes(t2.tagData), want=data)
        y = CharacterString(t2)
        if y.strEncoding != enc or y.value != x.value:
            raise Violation("reencoded-decodes-differently", who=who, character_set=enc)
    d.reach()


def instances(tier):
    _extra = [Inst(str_reencode, {}, budget=120)]
    q = tier == "quick"
    W = 2 ** 71
    out = []
    b = 60 if q else 300
    # integers
    for cls in ("Unsigned", "Unsigned8", "Unsigned16", "Enumerated"):
        out.append(Inst(int_rt, dict(cls=cls, lo=-W, hi=W), budget=b, label="%s,wide" % cls))
    out.append(Inst(int_rt, dict(cls="Integer", lo=-2 ** 31, hi=2 ** 31 - 1), budget=b, label="Integer,in32"))
    out.append(Inst(int_rt, dict(cls="Integer", lo=-W, hi=W), budget=b, label="Integer,wide"))
    # bit strings
    if q:
        out.append(Inst(bits_rt, dict(shape="all", lo=0, hi=8), budget=b))
        out.append(Inst(bits_rt, dict(shape="all", lo=9, hi=9), budget=b))
        out.append(Inst(bits_rt, dict(shape="all", lo=10, hi=10), budget=b))
        out.append(Inst(bits_rt, dict(shape="hot", lo=1, hi=17), budget=b))
    else:
        out.append(Inst(bits_rt, dict(shape="all", lo=0, hi=10), budget=b))
        for n in (11, 12):
            out.append(Inst(bits_rt, dict(shape="all", lo=n, hi=n), budget=400))
        for n, parts in ((13, 2), (14, 4)):
            for k in range(parts):
                lead = [k * 16 // parts, (k + 1) * 16 // parts - 1]
                out.append(Inst(bits_rt, dict(shape="all", lo=n, hi=n, lead=lead), budget=400))
        for lo, hi in ((1, 24), (25, 40), (41, 52), (53, 64)):
            out.append(Inst(bits_rt, dict(shape="hot", lo=lo, hi=hi), budget=b))
    out.append(Inst(bits_names, {}, budget=b))
    # enumerations
    for g, classes in enumerate(ENUM_GROUPS):
        span = classes[0].__name__ if len(classes) == 1 else classes[0].__name__ + ".." + classes[-1].__name__
        big = len(classes) == 1 and len(ENUM_INFO[classes[0].__name__][1]) > 130
        out.append(Inst(enum_names, dict(group=g, part="names"), budget=90 if q else 400,
                        label="names,group=%d:%s" % (g, span)))
        if big:
            out.append(Inst(enum_names, dict(group=g, part="edges"), budget=90 if q else 400,
                            label="edges,group=%d:%s" % (g, span)))
        if not (big and q):
            out.append(Inst(enum_names, dict(group=g, part="other"), budget=90 if q else 600,
                            label="other,group=%d:%s" % (g, span)))
    # object identifiers
    for part in ("encode", "decode", "roundtrip"):
        out.append(Inst(oid_word, dict(part=part), budget=90 if q else 300))
    for form in ("args", "tuple"):
        out.append(Inst(oid_tuple, dict(form=form, rt=False), budget=90 if q else 300))
    out.append(Inst(oid_tuple, dict(form="name", rt=not q), budget=90 if q else 300))
    # date, time
    out.append(Inst(date_time_rt, dict(cls="Date", form="tuple"), budget=b))
    out.append(Inst(date_time_rt, dict(cls="Time", form="tuple"), budget=b))
    out.append(Inst(date_time_rt, dict(cls="Date", form="kw"), budget=b))
    # strings
    out.append(Inst(octets_rt, dict(n=6 if q else 10, long=False), budget=b))
    out.append(Inst(octets_rt, dict(n=0 if q else 1, long=True), budget=90 if q else 300))
    for n in ((0, 1, 2) if q else (0, 1, 2, 3)):
        out.append(Inst(chars_rt, dict(n=n, surrogate=False), budget=b))
    if not q:
        for lead in (1, 2, 3, 4):
            out.append(Inst(chars_rt, dict(n=4, surrogate=False, lead=lead), budget=400))
    out.append(Inst(chars_rt, dict(n=0, surrogate=True), budget=b))
    # null, boolean, tag conversions, floats
    out.append(Inst(null_bool, {}, budget=b))
    for lo in (0, 4, 8, 12):
        out.append(Inst(tag_conv, dict(lo=lo, hi=lo + 3, n=3 if q else 6), budget=b))
    out.append(Inst(float_plumb, dict(cls="Real"), budget=b))
    out.append(Inst(float_plumb, dict(cls="Double"), budget=b))
    out.extend(_extra)
    return out


# ------------------------------------------------------------------ plain-Python self-test
def selftest():
    """DESIGN 4.2: push the literals of the repository's own tests (tests/test_primitive_data)
    through the reference and through the harnesses under plain execution; both must agree
    with what the suite blesses.  Returns a list of disagreements (empty = fine).

        python3-vt -c "from vf.api import repo_setup; repo_setup(); from vf.harness import C01; print(C01.selftest())"
    """
    from ..api import run_concrete
    bad = []

    def same(what, got, hexstr):
        if bytes(got) != bytes.fromhex(hexstr):
            bad.append((what, bytes(got).hex(), hexstr))

    def run(fn, params, draws, what):
        r = run_concrete(fn, params, draws)
        if r["outcome"] != "ok":
            bad.append((what, r))

    W = 2 ** 71
    for v, h in ((0, '00'), (1, '01'), (127, '7f'), (-128, '80'), (-1, 'ff'), (32767, '7fff'),
                 (-32768, '8000'), (8388607, '7fffff'), (-8388608, '800000'),
                 (2147483647, '7fffffff'), (-2147483648, '80000000')):
        same("signed %d" % v, R.signed_contents(v), h)
        run(int_rt, dict(cls="Integer", lo=-W, hi=W), [('v', v), ('ctx', 3)], "Integer %d" % v)
    for v, h in ((0, '00'), (1, '01'), (127, '7f'), (128, '80'), (255, 'ff'), (32767, '7fff'),
                 (32768, '8000'), (8388607, '7fffff'), (8388608, '800000'),
                 (2147483647, '7fffffff'), (2147483648, '80000000')):
        same("unsigned %d" % v, R.unsigned_contents(v), h)
        for cls in ("Unsigned", "Enumerated"):
            run(int_rt, dict(cls=cls, lo=-W, hi=W), [('v', v), ('ctx', 20)], "%s %d" % (cls, v))
    for bits, h in (([], '00'), ([0], '0700'), ([1], '0780'), ([0] * 2, '0600'), ([1] * 2, '06c0'),
                    ([0] * 10, '060000'), ([1] * 10, '06ffc0')):
        same("bits %r" % (bits,), R.bitstring_contents(bits), h)
        draws = [('n', len(bits))]
        for j in range(0, len(bits), 4):
            w = min(4, len(bits) - j)
            draws.append(('nib%d' % (j // 4), int(''.join(str(b) for b in bits[j:j + w]), 2)))
        run(bits_rt, dict(shape="all", lo=0, hi=10), draws, "bits %r" % (bits,))
    same("chars abc", R.charstring_contents([97, 98, 99]), '00616263')
    same("chars empty", R.charstring_contents([]), '00')
    run(chars_rt, dict(n=3, surrogate=False), [('ctx', 0), ('cp0', 97), ('cp1', 98), ('cp2', 99)], "chars abc")
    same("oid analogInput,0", R.object_identifier_contents(0, 0), '00000000')
    run(oid_tuple, dict(form="name", rt=True),
        [('ctx', 1), ('name_hi', OT_NAMES.index('analogInput') // 16),
         ('name_lo', OT_NAMES.index('analogInput') % 16), ('inst', 0)], "oid analogInput,0")
    for f in ((0, 0, 0, 0), (1, 0, 0, 0), (0, 2, 0, 0), (0, 0, 3, 0), (0, 0, 0, 4)):
        run(date_time_rt, dict(cls="Time", form="tuple"),
            [('ctx', 2)] + [('f%d' % i, x) for i, x in enumerate(f)], "time %r" % (f,))
    run(date_time_rt, dict(cls="Date", form="tuple"),
        [('ctx', 2), ('f0', 1), ('f1', 2), ('f2', 3), ('f3', 4)], "date (1,2,3,4)")
    for data in (b'', b'\x01', b'\x01\x02', b'\x01\x02\x03', b'\x01\x02\x03\x04'):
        run(octets_rt, dict(n=6, long=False), [('ctx', 9), ('data', data)], "octets %r" % (data,))
    for b in (False, True):
        run(null_bool, {}, [('ctx', 4), ('b', b)], "boolean %r" % (b,))
    # whole application-tagged encodings of tests/test_primitive_data/test_tag.py
    for obj, h in ((P.Null(), '00'), (P.Boolean(True), '11'), (P.Boolean(False), '10'),
                   (P.Unsigned(127), '217F'), (P.Unsigned(128), '2180'), (P.Integer(128), '320080'),
                   (P.Integer(-128), '3180'), (P.Real(73.5), '4442930000'),
                   (P.Double(73.5), '55084052600000000000'), (P.OctetString(b''), '60')):
        same("wire %s" % (obj,), wire(obj), h)
    same("tagged unsigned 127", R.tagged(APP, R.UNSIGNED, R.unsigned_contents(127)), '217F')
    same("tagged double", R.tagged(APP, R.DOUBLE, bytes.fromhex('4052600000000000')), '55084052600000000000')
    import struct
    for cases, cls, part in ((REAL_CASES, "Real", 0), (REAL_ROUNDED, "Real", 1), (DOUBLE_CASES, "Double", 0)):
        for i, (x, h) in enumerate(cases):
            if struct.pack('>d' if cls == "Double" else '>f', x).hex() != h:
                bad.append(("float table", x, h))
            run(float_plumb, dict(cls=cls), [('ctx', 7), ('part', part), ('case', i)], "float %r" % (x,))
    return bad
