"""C01 - Primitive values survive encoding unchanged and are never silently altered.

Every harness takes a value of one primitive type through the path the stack uses

    Cls(value) -> obj.encode(Tag) [-> Tag.app_to_context(n)] -> Tag.encode(PDUData) -> octets
    octets -> Tag(PDUData) [-> Tag.context_to_app(datatype)] -> Cls(tag) / Tag.app_to_object()

in application *and* in context mode (context number symbolic 0..254) and compares

* the octets with the canonical form of clause 20.2 (vf/ref/C01_ref.py, written from the
  standard), and
* the decoded value with the value that went in.

A constructor or encoder that raises is a refusal; refusing is legitimate only for values
the type cannot represent.
"""
import inspect
import math

from ..api import Inst, Violation, meta
from ..ref import C01_ref as R

from bacpypes.pdu import PDUData
from bacpypes.errors import InvalidTag
from bacpypes import primitivedata as P
from bacpypes import basetypes as B
from bacpypes import apdu as A

try:
    # engine shim (see the module's docstring): exact symbolic `|` / `& mask` for the octet
    # assembly in Integer.decode / BitString.decode.  Absent under plain-Python replay.
    from ..ref import C01_sxshim as _sxshim
    _sxshim.install()
except ImportError:
    _sxshim = None

Tag = P.Tag
APP, CTX = R.APP, R.CTX


# ------------------------------------------------------------------ shared plumbing
def wire(obj, ctx=None):
    """value object -> octets, the way every bacpypes encoder does it"""
    t = Tag()
    obj.encode(t)
    if ctx is not None:
        t = t.app_to_context(ctx)
    pdu = PDUData()
    t.encode(pdu)
    return bytes(pdu.pduData)


def unwire(K, octets, ctx, appnum, what):
    """octets -> value object of class K through Tag.decode (and context_to_app).
    Octets the library produced itself must decode, must be consumed completely, must
    carry the tag class/number they were given, and - in application mode - must be
    recognised by Tag.app_to_object as the standard's datatype for that tag number."""
    try:
        pdu = PDUData(octets)
        t = Tag(pdu)
        left = len(pdu.pduData)
        if ctx is None:
            if t.tagClass != Tag.applicationTagClass or t.tagNumber != appnum:
                raise Violation("tag-identity", what=what, octets=octets,
                                tclass=t.tagClass, number=t.tagNumber)
            a = t
        else:
            if t.tagClass != Tag.contextTagClass or t.tagNumber != ctx:
                raise Violation("tag-identity", what=what, octets=octets,
                                tclass=t.tagClass, number=t.tagNumber)
            a = t.context_to_app(appnum)
        obj = K(a)
        # same four fields, tag number as the concrete value it was just checked to equal
        # (a symbolic index into Tag._app_tag_class yields an uncallable symbolic class)
        other = Tag(Tag.applicationTagClass, appnum, a.tagLVT, a.tagData).app_to_object()
    except Violation:
        raise
    except Exception as e:
        raise Violation("undecodable", what=what, exc=type(e).__name__, octets=octets)
    if left != 0:
        raise Violation("octets-left-over", what=what, octets=octets, left=left)
    if type(other) is not getattr(P, R.DATATYPE[appnum]):
        raise Violation("app-to-object-class", what=what, got=type(other).__name__,
                        want=R.DATATYPE[appnum])
    return obj, other


def both_modes(ctx):
    return (("application", None, APP), ("context", ctx, CTX))


def check_octets(octets, tclass, number, contents, what, **sig):
    want = bytes(R.tagged(tclass, number, contents))
    if bytes(octets) != want:
        raise Violation("not-canonical", what=what, got=octets, want=want, **sig)


# ------------------------------------------------------------------ int_rt
# class, application tag number (20.2.1.4), signed?, values that MUST be accepted
# (the standard's range of the type, 32 bits for the open-ended ones - what the
# repository's own tests bless), values the type can represent at all (None = open)
INT = {
    "Unsigned": (P.Unsigned, R.UNSIGNED, False, (0, 2 ** 32 - 1), (0, None)),
    "Unsigned8": (P.Unsigned8, R.UNSIGNED, False, (0, 255), (0, 255)),
    "Unsigned16": (P.Unsigned16, R.UNSIGNED, False, (0, 65535), (0, 65535)),
    "Enumerated": (P.Enumerated, R.ENUMERATED, False, (0, 2 ** 32 - 1), (0, None)),
    "Integer": (P.Integer, R.INTEGER, True, (-2 ** 31, 2 ** 31 - 1), (None, None)),
}


@meta(bounds="one instance per class and range; value v symbolic over [lo, hi] (widest: -2^71..2^71, so "
             "negative and over-long values are inside the domain), context number symbolic 0..254, both "
             "tagging modes on every path",
      outside="|v| > 2^71 (refused by the same struct range check)",
      stubs=[], assumes=[])
def int_rt(d, cls, lo, hi):
    K, appnum, signed, must, rep = INT[cls]
    v = d.int(lo, hi, 'v')
    ctx = d.int(0, 254, 'ctx')
    try:
        obj = K(v)
        app = wire(obj)
        cx = wire(obj, ctx)
    except Exception as e:
        if must[0] <= v <= must[1]:
            raise Violation("refused-representable", cls=cls, v=v, exc=type(e).__name__)
        d.reach()
        return
    if (rep[0] is not None and v < rep[0]) or (rep[1] is not None and v > rep[1]):
        raise Violation("accepted-unrepresentable", cls=cls, v=v, octets=app)
    if signed:
        outside32 = bool(v < -2 ** 31 or v > 2 ** 31 - 1)
    else:
        outside32 = bool(v > 2 ** 32 - 1)
    for mode, c, tclass in both_modes(ctx):
        octets = app if c is None else cx
        y, other = unwire(K, octets, c, appnum, cls + "/" + mode)
        got = y.value
        if got != v:
            # kept going on purpose: the framing oracles below are still evaluated
            d.flag(True, "integer-silently-altered" if cls == "Integer" else "silently-altered",
                   cls=cls, mode=mode, outside32=outside32, v=v, got=got, octets=octets)
            n = len(app) - 1
            if 1 <= n <= 4:
                contents = app[1:]
                check_octets(octets, tclass, appnum if c is None else ctx, contents,
                             cls + "/" + mode + "/framing")
            continue
        if other.value != v:
            raise Violation("app-to-object-value", cls=cls, mode=mode, v=v, got=other.value)
        contents = R.signed_contents(v) if signed else R.unsigned_contents(v)
        check_octets(octets, tclass, appnum if c is None else ctx, contents, cls + "/" + mode, v=v)
    d.reach()


# ------------------------------------------------------------------ bits_rt
@meta(bounds="shape=all: every bit pattern of every length lo..hi (one symbolic bit per position; the "
             "constructor and decoder branch on each bit, so this is solver-driven enumeration); "
             "shape=hot: lengths lo..hi, every pattern with exactly one bit set and every pattern with "
             "exactly one bit clear (each position of each length individually); context number "
             "symbolic 0..254, both tagging modes",
      outside="lengths above 64; on lengths above the shape=all bound, patterns other than one-hot / "
              "one-cold (bits are packed independently of each other)",
      stubs=[], assumes=[])
def bits_rt(d, shape, lo, hi):
    n = lo + d.index(hi - lo + 1, 'n')
    ctx = d.int(0, 254, 'ctx')
    if shape == "all":
        bits = [d.int(0, 1, 'b%d' % i) for i in range(n)]
    else:
        p = d.index(n, 'p')
        one = 0 if d.bool('inv') else 1
        bits = [one if i == p else 1 - one for i in range(n)]
    try:
        obj = P.BitString(list(bits))
        app = wire(obj)
        cx = wire(obj, ctx)
    except Exception as e:
        raise Violation("refused-representable", cls="BitString", n=n, exc=type(e).__name__)
    contents = R.bitstring_contents(bits)
    for mode, c, tclass in both_modes(ctx):
        octets = app if c is None else cx
        check_octets(octets, tclass, R.BIT_STRING if c is None else ctx, contents,
                     "BitString/" + mode, n=n)
        y, other = unwire(P.BitString, octets, c, R.BIT_STRING, "BitString/" + mode)
        for o in (y, other):
            got = o.value
            if len(got) != n or list(got) != list(bits):
                raise Violation("silently-altered", cls="BitString", mode=mode, n=n,
                                got=list(got), want=list(bits))
    d.reach()


def _subclasses(base):
    out = []
    for m in (P, B, A):
        for name, c in sorted(vars(m).items()):
            if inspect.isclass(c) and issubclass(c, base) and c is not base \
                    and c.__module__ == m.__name__:
                out.append(c)
    return out


BIT_CLASSES = [c for c in _subclasses(P.BitString) if c.bitNames]


@meta(bounds="every named BitString subclass defined in primitivedata/basetypes/apdu, every bit name "
             "(alone, and together with the next name of the class); context number symbolic 0..254",
      outside="subclasses defined elsewhere", stubs=[], assumes=[])
def bits_names(d):
    K = d.pick(BIT_CLASSES, 'cls')
    names = sorted(K.bitNames)
    i = d.index(len(names), 'name')
    pair = d.bool('pair')
    ctx = d.int(0, 254, 'ctx')
    chosen = [names[i]]
    if pair:
        chosen.append(names[(i + 1) % len(names)])
    want = [0] * K.bitLen
    for nm in chosen:
        pos = K.bitNames[nm]
        if not (0 <= pos < K.bitLen):
            raise Violation("bit-name-outside-length", cls=K.__name__, name=nm, pos=pos, bitLen=K.bitLen)
        want[pos] = 1
    try:
        obj = K(list(chosen))
        app = wire(obj)
        cx = wire(obj, ctx)
    except Exception as e:
        raise Violation("refused-representable", cls=K.__name__, names=chosen, exc=type(e).__name__)
    if list(obj.value) != want:
        raise Violation("bit-name-position", cls=K.__name__, names=chosen, got=list(obj.value))
    for nm in K.bitNames:
        if obj[nm] != (1 if nm in chosen else 0):
            raise Violation("bit-name-lookup", cls=K.__name__, names=chosen, name=nm)
    contents = R.bitstring_contents(want)
    for mode, c, tclass in both_modes(ctx):
        octets = app if c is None else cx
        check_octets(octets, tclass, R.BIT_STRING if c is None else ctx, contents,
                     K.__name__ + "/" + mode)
        y, _ = unwire(K, octets, c, R.BIT_STRING, K.__name__ + "/" + mode)
        if list(y.value) != want:
            raise Violation("silently-altered", cls=K.__name__, mode=mode, names=chosen, got=list(y.value))
    d.reach()


# ------------------------------------------------------------------ enum_names
def _table(K):
    """the public name -> number table of an Enumerated subclass (its own and inherited)"""
    t = {}
    for c in reversed(K.__mro__):
        t.update(getattr(c, 'enumerations', None) or {})
    return t


ENUM_CLASSES = [c for c in _subclasses(P.Enumerated) if _table(c)]


def _enum_groups(limit=110):
    groups, cur, size = [], [], 0
    for c in ENUM_CLASSES:
        n = len(_table(c))
        if cur and size + n > limit:
            groups.append(cur)
            cur, size = [], 0
        cur.append(c)
        size += n
    if cur:
        groups.append(cur)
    return groups


ENUM_GROUPS = _enum_groups()


@meta(bounds="every Enumerated subclass with a name table defined in primitivedata/basetypes/apdu (one "
             "instance per group of classes): every name of the table; every number 0..2^32-1 (symbolic: "
             "each defined number, and all undefined numbers as one symbolic value per encoded length); "
             "context number symbolic 0..254, both tagging modes",
      outside="subclasses defined in other modules (object.py property helpers)", stubs=[], assumes=[])
def enum_names(d, group):
    K = d.pick(ENUM_GROUPS[group], 'cls')
    table = _table(K)
    cname = K.__name__
    ctx = d.int(0, 254, 'ctx')
    if d.bool('by_name'):
        names = sorted(table)
        name = names[d.index(len(names), 'name')]
        num = table[name]
        try:
            obj = K(name)
            app = wire(obj)
            cx = wire(obj, ctx)
        except Exception as e:
            raise Violation("refused-representable", cls=cname, name=name, exc=type(e).__name__)
        if obj.value != name:
            raise Violation("enum-ctor-altered", cls=cname, name=name, got=obj.value)
        sent = name
    else:
        num = d.int(0, 2 ** 32 - 1, 'num')
        try:
            obj = K(num)
            app = wire(obj)
            cx = wire(obj, ctx)
        except Exception as e:
            raise Violation("refused-representable", cls=cname, num=num, exc=type(e).__name__)
        sent = obj.value
        if isinstance(sent, str):
            if table.get(sent) != num:
                raise Violation("enum-number-to-wrong-name", cls=cname, num=num, got=sent)
        else:
            if sent != num:
                raise Violation("enum-ctor-altered", cls=cname, num=num, got=sent)
            for k in sorted(set(table.values())):
                if num == k:
                    raise Violation("enum-defined-number-unnamed", cls=cname, num=num)
    contents = R.unsigned_contents(num)
    for mode, c, tclass in both_modes(ctx):
        octets = app if c is None else cx
        check_octets(octets, tclass, R.ENUMERATED if c is None else ctx, contents,
                     cname + "/" + mode, sent=sent)
        y, other = unwire(K, octets, c, R.ENUMERATED, cname + "/" + mode)
        got = y.value
        if got != sent or isinstance(got, str) != isinstance(sent, str):
            if isinstance(got, str) and isinstance(sent, str) and table.get(got) == num:
                # two names of one table share a number: the name that went in comes
                # back as the other one
                d.flag(True, "enum-name-aliased", cls=cname, sent=sent, got=got, num=num)
            else:
                raise Violation("silently-altered", cls=cname, mode=mode, sent=sent, got=got)
        if other.value != num:
            raise Violation("app-to-object-value", cls=cname, mode=mode, num=num, got=other.value)
    d.reach()


# ------------------------------------------------------------------ oid_rt
OT_TABLE = _table(P.ObjectType)
OT_NUMBERS = sorted(set(OT_TABLE.values()))
OT_NAMES = sorted(OT_TABLE)
OID = R.OBJECT_IDENTIFIER


def _oid_finish(d, obj, otype, inst, app, cx, ctx, what):
    contents = R.object_identifier_contents(otype, inst)
    for mode, c, tclass in both_modes(ctx):
        octets = app if c is None else cx
        check_octets(octets, tclass, OID if c is None else ctx, contents, what + "/" + mode)
        y, other = unwire(P.ObjectIdentifier, octets, c, OID, what + "/" + mode)
        for o in (y, other):
            if o.value != obj.value:
                raise Violation("silently-altered", cls="ObjectIdentifier", mode=mode,
                                sent=obj.value, got=o.value)
            if o.get_tuple() != (otype, inst):
                raise Violation("silently-altered", cls="ObjectIdentifier", mode=mode,
                                sent=(otype, inst), got=o.get_tuple())


def _oid_value_ok(obj, otype, inst):
    tv, iv = obj.value
    if iv != inst:
        raise Violation("oid-instance", got=iv, want=inst)
    if isinstance(tv, str):
        if OT_TABLE.get(tv) != otype:
            raise Violation("oid-type-wrong-name", got=tv, want=otype)
    else:
        if tv != otype:
            raise Violation("oid-type", got=tv, want=otype)
        for k in OT_NUMBERS:
            if otype == k:
                raise Violation("oid-defined-type-unnamed", otype=otype)
    if obj.get_tuple() != (otype, inst):
        raise Violation("oid-get-tuple", got=obj.get_tuple(), want=(otype, inst))


@meta(bounds="every 32-bit word (symbolic), i.e. every object type 0..1023 (named, reserved, vendor) with "
             "every instance 0..2^22-1; context number symbolic 0..254, both tagging modes",
      outside="nothing (the type is 32 bits)", stubs=[], assumes=[])
def oid_word(d):
    otype = d.int(0, 1023, 'type')
    inst = d.int(0, 4194303, 'inst')
    ctx = d.int(0, 254, 'ctx')
    w = otype * 4194304 + inst
    try:
        obj = P.ObjectIdentifier(w)
        app = wire(obj)
        cx = wire(obj, ctx)
    except Exception as e:
        raise Violation("refused-representable", cls="ObjectIdentifier", word=w, exc=type(e).__name__)
    _oid_value_ok(obj, otype, inst)
    _oid_finish(d, obj, otype, inst, app, cx, ctx, "ObjectIdentifier(word)")
    d.reach()


@meta(bounds="(type, instance) with type symbolic over [-1, 1024] and instance symbolic over [-1, 2^22] "
             "(one step outside the 10-bit / 22-bit fields on each side), given as two arguments or as one "
             "tuple; form=name: every object type name with every instance 0..2^22-1; context number "
             "symbolic 0..254",
      outside="types / instances further outside the fields; the 'type:instance' text form",
      stubs=[], assumes=[])
def oid_tuple(d, form):
    ctx = d.int(0, 254, 'ctx')
    if form == "name":
        name = OT_NAMES[d.index(len(OT_NAMES), 'name')]
        otype = OT_TABLE[name]
        inst = d.int(0, 4194303, 'inst')
        arg, ok_dom = (name, inst), True
    else:
        otype = d.int(-1, 1024, 'type')
        inst = d.int(-1, 4194304, 'inst')
        arg = (otype, inst)
        ok_dom = bool(0 <= otype <= 1023 and 0 <= inst <= 4194303)
    try:
        obj = P.ObjectIdentifier(arg[0], arg[1]) if form == "args" else P.ObjectIdentifier(arg)
        app = wire(obj)
        cx = wire(obj, ctx)
    except Exception as e:
        if ok_dom:
            raise Violation("refused-representable", cls="ObjectIdentifier", arg=arg, exc=type(e).__name__)
        d.reach()
        return
    if not ok_dom:
        raise Violation("accepted-unrepresentable", cls="ObjectIdentifier", arg=arg, octets=app)
    if form == "name" and obj.value[0] != name:
        raise Violation("oid-type-wrong-name", got=obj.value[0], want=name)
    _oid_value_ok(obj, otype, inst)
    _oid_finish(d, obj, otype, inst, app, cx, ctx, "ObjectIdentifier(" + form + ")")
    d.reach()


# ------------------------------------------------------------------ date_time_rt
@meta(bounds="Date and Time; the four fields symbolic over [-1, 256] each (one step outside an octet on each "
             "side); form=tuple: the 4-tuple constructor; form=kw (Date): keyword constructor with year "
             "symbolic over [-1, 2156] (a year >= 1900 is stored as year-1900); context number symbolic 0..254",
      outside="text forms of dates and times (C20); field values further outside an octet",
      stubs=[], assumes=[])
def date_time_rt(d, cls, form):
    K, appnum = (P.Date, R.DATE) if cls == "Date" else (P.Time, R.TIME)
    ctx = d.int(0, 254, 'ctx')
    if form == "kw":
        year = d.int(-1, 2156, 'year')
        rest = [d.int(-1, 256, 'f%d' % i) for i in (1, 2, 3)]
        want = (year - 1900 if year >= 1900 else year,) + tuple(rest)
    else:
        want = tuple(d.int(-1, 256, 'f%d' % i) for i in range(4))
    ok_dom = True
    for x in want:
        if not (0 <= x <= 255):
            ok_dom = False
            break
    try:
        if form == "kw":
            obj = K(year=year, month=rest[0], day=rest[1], day_of_week=rest[2])
        else:
            obj = K(want)
        app = wire(obj)
        cx = wire(obj, ctx)
    except Exception as e:
        if ok_dom:
            raise Violation("refused-representable", cls=cls, value=want, exc=type(e).__name__)
        d.reach()
        return
    if not ok_dom:
        raise Violation("accepted-unrepresentable", cls=cls, value=want, octets=app)
    if tuple(obj.value) != want:
        raise Violation("ctor-altered", cls=cls, got=obj.value, want=want)
    for mode, c, tclass in both_modes(ctx):
        octets = app if c is None else cx
        check_octets(octets, tclass, appnum if c is None else ctx, list(want), cls + "/" + mode)
        y, other = unwire(K, octets, c, appnum, cls + "/" + mode)
        for o in (y, other):
            got = o.value
            if not isinstance(got, tuple) or len(got) != 4 or got != want:
                raise Violation("silently-altered", cls=cls, mode=mode, got=got, want=want)
    d.reach()


# ------------------------------------------------------------------ str_rt
@meta(bounds="OctetString: every octet string of length 0..n (length and content symbolic); "
             "long=True: lengths 253, 254, 255, 256, 65535, 65536 (the boundaries of the extended length "
             "forms of 20.2.1.3.1) with symbolic first and last octets and zero filler; context number "
             "symbolic 0..254",
      outside="other lengths above n (the content is copied, only the length header depends on the length)",
      stubs=[], assumes=[])
def octets_rt(d, n, long):
    ctx = d.int(0, 254, 'ctx')
    if long:
        L = d.pick([253, 254, 255, 256, 65535, 65536], 'len')
        data = bytes(d.bytes(1, name='head')) + bytes(L - 2) + bytes(d.bytes(1, name='tail'))
    else:
        data = d.bytes(0, n, 'data')
    try:
        obj = P.OctetString(data)
        app = wire(obj)
        cx = wire(obj, ctx)
    except Exception as e:
        raise Violation("refused-representable", cls="OctetString", data=data, exc=type(e).__name__)
    for mode, c, tclass in both_modes(ctx):
        octets = app if c is None else cx
        check_octets(octets, tclass, R.OCTET_STRING if c is None else ctx, data, "OctetString/" + mode)
        y, other = unwire(P.OctetString, octets, c, R.OCTET_STRING, "OctetString/" + mode)
        for o in (y, other):
            if bytes(o.value) != bytes(data):
                raise Violation("silently-altered", cls="OctetString", mode=mode, got=o.value, want=data)
    d.reach()


SURROGATES = [0xD800, 0xDBFF, 0xDC00, 0xDFFF]


@meta(bounds="CharacterString: every text of exactly n characters, each code point symbolic over all of "
             "0..0x10FFFF except the surrogate block (1-, 2-, 3- and 4-octet UTF-8 forms); surrogate=True: "
             "one lone surrogate (concrete: D800, DBFF, DC00, DFFF) between two symbolic ASCII characters "
             "must be refused; context number symbolic 0..254",
      outside="texts longer than n characters; surrogate code points other than the four block boundaries "
              "(CrossHair's UTF-8 model encodes lone surrogates instead of refusing them, so they are "
              "checked with concrete code points through the real codec); character sets other than UTF-8",
      stubs=[], assumes=["code points drawn symbolically are not surrogates (checked concretely instead)"])
def chars_rt(d, n, surrogate):
    ctx = d.int(0, 254, 'ctx')
    if surrogate:
        a = d.int(0, 127, 'a')
        s = d.pick(SURROGATES, 'surrogate')
        b = d.int(0, 127, 'b')
        text = chr(a) + chr(s) + chr(b)
        try:
            obj = P.CharacterString(text)
            app = wire(obj)
        except Exception:
            d.reach()
            return
        # not refused: then it must at least survive
        try:
            y, _ = unwire(P.CharacterString, app, None, R.CHARACTER_STRING, "CharacterString/surrogate")
        except Violation:
            raise Violation("accepted-unrepresentable", cls="CharacterString", cps=[a, s, b], octets=app)
        if y.value != text:
            raise Violation("silently-altered", cls="CharacterString", cps=[a, s, b], octets=app)
        d.reach()
        return
    cps = [d.int(0, 0x10FFFF, 'cp%d' % i) for i in range(n)]
    for cp in cps:
        d.assume(not (0xD800 <= cp <= 0xDFFF))
    text = ''.join([chr(cp) for cp in cps])
    try:
        obj = P.CharacterString(text)
        app = wire(obj)
        cx = wire(obj, ctx)
    except Exception as e:
        raise Violation("refused-representable", cls="CharacterString", cps=cps, exc=type(e).__name__)
    contents = R.charstring_contents(cps)
    for mode, c, tclass in both_modes(ctx):
        octets = app if c is None else cx
        check_octets(octets, tclass, R.CHARACTER_STRING if c is None else ctx, contents,
                     "CharacterString/" + mode, cps=cps)
        y, other = unwire(P.CharacterString, octets, c, R.CHARACTER_STRING, "CharacterString/" + mode)
        for o in (y, other):
            if o.value != text or o.strEncoding != 0:
                raise Violation("silently-altered", cls="CharacterString", mode=mode, cps=cps,
                                got=o.value, encoding=o.strEncoding)
    d.reach()


# ------------------------------------------------------------------ null_bool
@meta(bounds="Null; Boolean with symbolic value; context number symbolic 0..254, both tagging modes "
             "(application Boolean: value in the tag's L/V/T field, no contents; context Boolean: one "
             "contents octet, 20.2.3)",
      outside="nothing", stubs=[], assumes=[])
def null_bool(d):
    ctx = d.int(0, 254, 'ctx')
    b = d.bool('b')
    # Null
    try:
        obj = P.Null(())
        app = wire(obj)
        cx = wire(obj, ctx)
    except Exception as e:
        raise Violation("refused-representable", cls="Null", exc=type(e).__name__)
    for mode, c, tclass in both_modes(ctx):
        octets = app if c is None else cx
        check_octets(octets, tclass, R.NULL if c is None else ctx, [], "Null/" + mode)
        y, other = unwire(P.Null, octets, c, R.NULL, "Null/" + mode)
        for o in (y, other):
            if o.value != ():
                raise Violation("silently-altered", cls="Null", mode=mode, got=o.value)
    # Boolean
    try:
        obj = P.Boolean(b)
        app = wire(obj)
        cx = wire(obj, ctx)
    except Exception as e:
        raise Violation("refused-representable", cls="Boolean", b=b, exc=type(e).__name__)
    bit = 1 if b else 0
    want_app = bytes(R.tag_header(APP, R.BOOLEAN, bit))
    if bytes(app) != want_app:
        raise Violation("not-canonical", what="Boolean/application", got=app, want=want_app)
    check_octets(cx, CTX, ctx, [bit], "Boolean/context")
    for mode, c, tclass in both_modes(ctx):
        octets = app if c is None else cx
        y, other = unwire(P.Boolean, octets, c, R.BOOLEAN, "Boolean/" + mode)
        for o in (y, other):
            if not isinstance(o.value, bool) or o.value != b:
                raise Violation("silently-altered", cls="Boolean", mode=mode, got=o.value, want=b)
    d.reach()


# ------------------------------------------------------------------ tag_conv
ATOMIC = [P.Null, P.Boolean, P.Unsigned, P.Integer, P.Real, P.Double, P.OctetString,
          P.CharacterString, P.BitString, P.Enumerated, P.Date, P.Time, P.ObjectIdentifier]


def _fields(t):
    return (t.tagClass, t.tagNumber, t.tagLVT, bytes(t.tagData))


@meta(bounds="one instance per application tag number 0..15 (13 datatypes + 3 reserved numbers); contents "
             "0..n symbolic octets (Boolean: L/V/T value symbolic 0..7, no contents); context number "
             "symbolic 0..254",
      outside="contents longer than n octets (conversions copy the contents)", stubs=[], assumes=[])
def tag_conv(d, number, n):
    ctx = d.int(0, 254, 'ctx')
    if number == R.BOOLEAN:
        lvt = d.int(0, 7, 'lvt')
        data = b''
        t = Tag(Tag.applicationTagClass, number, lvt, data)
        cdata = bytes([lvt])
    else:
        data = d.bytes(0, n, 'data')
        t = P.ApplicationTag(number, data)
        lvt = len(data)
        cdata = data
        if _fields(t) != (Tag.applicationTagClass, number, lvt, bytes(data)):
            raise Violation("application-tag-ctor", number=number, got=_fields(t))
    # application -> context: same contents (Boolean: the value moves into one octet)
    try:
        c = t.app_to_context(ctx)
    except Exception as e:
        raise Violation("conversion-refused", step="app_to_context", number=number, exc=type(e).__name__)
    if _fields(c) != (Tag.contextTagClass, ctx, len(cdata), bytes(cdata)):
        raise Violation("app-to-context", number=number, got=_fields(c),
                        want=(Tag.contextTagClass, ctx, len(cdata), bytes(cdata)))
    pdu = PDUData()
    c.encode(pdu)
    check_octets(bytes(pdu.pduData), CTX, ctx, cdata, "tag_conv/context", app_number=number)
    # ... and back
    try:
        back = c.context_to_app(number)
    except Exception as e:
        raise Violation("conversion-refused", step="context_to_app", number=number, exc=type(e).__name__)
    if _fields(back) != _fields(t):
        raise Violation("context-to-app", number=number, got=_fields(back), want=_fields(t))
    if not (back == t) or (back != t):
        raise Violation("tag-equality", number=number)
    pdu = PDUData()
    back.encode(pdu)
    if number == R.BOOLEAN:
        want = bytes(R.tag_header(APP, number, lvt))
    else:
        want = bytes(R.tagged(APP, number, data))
    if bytes(pdu.pduData) != want:
        raise Violation("not-canonical", what="tag_conv/application", number=number,
                        got=bytes(pdu.pduData), want=want)
    # the conversions insist on the class they convert from
    for what, f in (("app_to_context on a context tag", lambda: c.app_to_context(ctx)),
                    ("context_to_app on an application tag", lambda: t.context_to_app(number)),
                    ("app_to_object on a context tag", lambda: c.app_to_object())):
        try:
            f()
        except Exception:
            continue
        raise Violation("conversion-accepted-wrong-class", what=what, number=number)
    # reserved application tag numbers have no datatype
    if number > 12:
        if t.app_to_object() is not None:
            raise Violation("app-to-object-class", what="reserved tag number", number=number)
    # a datatype decodes only its own application tag: never a context tag, never the
    # tag of another datatype (that would be a silently different value)
    for k, K in enumerate(ATOMIC):
        for tag, why in ((c, "context tag"), (t, "application tag of another datatype")):
            if tag is t and k == number:
                continue
            try:
                K(tag)
            except Exception:
                continue
            raise Violation("decoded-foreign-tag", cls=K.__name__, why=why, number=number)
    d.reach()


# ------------------------------------------------------------------ float_plumb
# concrete representatives only (IEEE-754 layout facts are smtk lemmas).  Octets written
# by hand from the binary32 / binary64 layout: sign, biased exponent, fraction.
F32_MAX = (2.0 - 2.0 ** -23) * 2.0 ** 127
REAL_CASES = [
    (0.0, "00000000"), (-0.0, "80000000"), (1.0, "3f800000"), (-1.0, "bf800000"),
    (1.5, "3fc00000"), (73.5, "42930000"), (-2.5, "c0200000"),
    (F32_MAX, "7f7fffff"), (-F32_MAX, "ff7fffff"),
    (2.0 ** -126, "00800000"),                       # smallest normal
    (2.0 ** -149, "00000001"),                       # smallest denormal
    ((1.0 - 2.0 ** -23) * 2.0 ** -126, "007fffff"),  # largest denormal
    (-(2.0 ** -149), "80000001"),
    (1.0 + 2.0 ** -23, "3f800001"),                  # 1 + ulp
    (16777216.0, "4b800000"), (0.15625, "3e200000"),
    (float("inf"), "7f800000"), (float("-inf"), "ff800000"),
]
F64_MAX = (2.0 - 2.0 ** -52) * 2.0 ** 1023
DOUBLE_CASES = [
    (0.0, "0000000000000000"), (-0.0, "8000000000000000"), (1.0, "3ff0000000000000"),
    (-1.0, "bff0000000000000"), (1.5, "3ff8000000000000"), (73.5, "4052600000000000"),
    (0.1, "3fb999999999999a"), (F64_MAX, "7fefffffffffffff"), (-F64_MAX, "ffefffffffffffff"),
    (2.0 ** -1022, "0010000000000000"), (2.0 ** -1074, "0000000000000001"),
    ((1.0 - 2.0 ** -52) * 2.0 ** -1022, "000fffffffffffff"),
    (1.0 + 2.0 ** -52, "3ff0000000000001"), (F32_MAX, "47efffffe0000000"),
    (2.0 ** -149, "36a0000000000000"),
    (float("inf"), "7ff0000000000000"), (float("-inf"), "fff0000000000000"),
]
# binary64 values that are not binary32 values: Real rounds to nearest-even (the
# "4-octet IEEE float" of the statement) or refuses; it never emits anything else
REAL_ROUNDED = [
    (0.1, "3dcccccd"), (1.0 + 2.0 ** -24, "3f800000"), (1.0 + 3 * 2.0 ** -24, "3f800002"),
    (2.0 ** -150, "00000000"), (3 * 2.0 ** -150, "00000002"), (1e-50, "00000000"),
    (16777217.0, "4b800000"),
]
REAL_TOO_BIG = [1e39, -1e39, F32_MAX * (1 + 2.0 ** -23), 2.0 ** 128]


def _same_float(a, b):
    return isinstance(a, float) and a == b and math.copysign(1.0, a) == math.copysign(1.0, b)


def _float_value(hexoctets, double):
    """value of a binary32 / binary64 pattern, computed arithmetically from the layout"""
    v = int(hexoctets, 16)
    ebits, fbits = (11, 52) if double else (8, 23)
    sign = -1.0 if v >> (ebits + fbits) else 1.0
    e = (v >> fbits) % (1 << ebits)
    f = v % (1 << fbits)
    bias = (1 << (ebits - 1)) - 1
    if e == (1 << ebits) - 1:
        return sign * float("inf") if f == 0 else float("nan")
    if e == 0:
        return sign * math.ldexp(float(f), 1 - bias - fbits)
    return sign * math.ldexp(float((1 << fbits) + f), e - bias - fbits)


@meta(bounds="Real / Double on CONCRETE representative values (zeros of both signs, +-1, 1.5, 73.5, "
             "largest finite, smallest normal, smallest/largest denormal, 1+ulp, infinities; for Real also "
             "binary64 values that must round to nearest-even and values too large for binary32); "
             "context number symbolic 0..254; wrong-length decode: every contents length 0..9 except the "
             "right one, content symbolic",
      outside="all other floating point values (IEEE-754 layout is discharged as smtk lemmas); NaN",
      stubs=[], assumes=["a Python float that is not a binary32 value is rounded by Real (statement: "
                         "'4-octet IEEE float')"])
def float_plumb(d, cls):
    double = cls == "Double"
    K, appnum, width = (P.Double, R.DOUBLE, 8) if double else (P.Real, R.REAL, 4)
    cases = list(DOUBLE_CASES) if double else list(REAL_CASES) + list(REAL_ROUNDED)
    ctx = d.int(0, 254, 'ctx')
    part = d.pick(["value", "too-big", "wrong-length"] if not double else ["value", "wrong-length"], 'part')
    if part == "value":
        x, hexo = cases[d.index(len(cases), 'case')]
        contents = bytes.fromhex(hexo)
        want = _float_value(hexo, double)
        try:
            obj = K(x)
            app = wire(obj)
            cx = wire(obj, ctx)
        except Exception as e:
            raise Violation("refused-representable", cls=cls, x=x, exc=type(e).__name__)
        if not _same_float(obj.value, x):
            raise Violation("ctor-altered", cls=cls, x=x, got=obj.value)
        for mode, c, tclass in both_modes(ctx):
            octets = app if c is None else cx
            check_octets(octets, tclass, appnum if c is None else ctx, contents, cls + "/" + mode, x=x)
            y, other = unwire(K, octets, c, appnum, cls + "/" + mode)
            for o in (y, other):
                if not _same_float(o.value, want):
                    raise Violation("silently-altered", cls=cls, mode=mode, x=x, got=o.value, want=want)
    elif part == "too-big":
        x = REAL_TOO_BIG[d.index(len(REAL_TOO_BIG), 'case')]
        try:
            app = wire(K(x))
        except Exception:
            app = None
        if app is not None:
            # not refused: then it must decode to the very value
            y, _ = unwire(K, app, None, appnum, cls + "/too-big")
            if not _same_float(y.value, x):
                raise Violation("silently-altered", cls=cls, mode="application", x=x, got=y.value)
    else:
        data = d.bytes(0, 9, 'data')
        d.assume(len(data) != width)
        for what, tag in (("application", P.ApplicationTag(appnum, data)),):
            try:
                K(tag)
            except InvalidTag:
                continue
            except Exception as e:
                raise Violation("wrong-length-error", cls=cls, n=len(data), exc=type(e).__name__)
            raise Violation("wrong-length-accepted", cls=cls, n=len(data))
        try:
            K(P.ContextTag(ctx, data).context_to_app(appnum))
        except InvalidTag:
            pass
        except Exception as e:
            raise Violation("wrong-length-error", cls=cls, n=len(data), exc=type(e).__name__)
        else:
            raise Violation("wrong-length-accepted", cls=cls, n=len(data))
    d.reach()


# ------------------------------------------------------------------ instances
def instances(tier):
    q = tier == "quick"
    W = 2 ** 71
    out = []
    b = 60 if q else 300
    # integers
    for cls in ("Unsigned", "Unsigned8", "Unsigned16", "Enumerated"):
        out.append(Inst(int_rt, dict(cls=cls, lo=-W, hi=W), budget=b, label="%s,wide" % cls))
    out.append(Inst(int_rt, dict(cls="Integer", lo=-2 ** 31, hi=2 ** 31 - 1), budget=b, label="Integer,in32"))
    out.append(Inst(int_rt, dict(cls="Integer", lo=-W, hi=W), budget=b, label="Integer,wide"))
    # bit strings
    if q:
        out.append(Inst(bits_rt, dict(shape="all", lo=0, hi=6), budget=b))
        out.append(Inst(bits_rt, dict(shape="all", lo=7, hi=8), budget=b))
        out.append(Inst(bits_rt, dict(shape="all", lo=9, hi=9), budget=b))
        out.append(Inst(bits_rt, dict(shape="hot", lo=1, hi=17), budget=b))
    else:
        out.append(Inst(bits_rt, dict(shape="all", lo=0, hi=8), budget=b))
        for n in (9, 10, 11, 12):
            out.append(Inst(bits_rt, dict(shape="all", lo=n, hi=n), budget=600))
        for lo, hi in ((1, 24), (25, 40), (41, 52), (53, 64)):
            out.append(Inst(bits_rt, dict(shape="hot", lo=lo, hi=hi), budget=b))
    out.append(Inst(bits_names, {}, budget=b))
    # enumerations
    for g, classes in enumerate(ENUM_GROUPS):
        label = "group=%d:%s" % (g, classes[0].__name__ if len(classes) == 1
                                 else classes[0].__name__ + ".." + classes[-1].__name__)
        out.append(Inst(enum_names, dict(group=g), budget=90 if q else 300, label=label))
    # object identifiers
    out.append(Inst(oid_word, {}, budget=b))
    for form in ("args", "tuple", "name"):
        out.append(Inst(oid_tuple, dict(form=form), budget=b))
    # date, time
    out.append(Inst(date_time_rt, dict(cls="Date", form="tuple"), budget=b))
    out.append(Inst(date_time_rt, dict(cls="Time", form="tuple"), budget=b))
    out.append(Inst(date_time_rt, dict(cls="Date", form="kw"), budget=b))
    # strings
    out.append(Inst(octets_rt, dict(n=6 if q else 10, long=False), budget=b))
    out.append(Inst(octets_rt, dict(n=0, long=True), budget=b))
    for n in ((0, 1, 2) if q else (0, 1, 2, 3, 4)):
        out.append(Inst(chars_rt, dict(n=n, surrogate=False), budget=b if n < 4 else 600))
    out.append(Inst(chars_rt, dict(n=0, surrogate=True), budget=b))
    # null, boolean, tag conversions, floats
    out.append(Inst(null_bool, {}, budget=b))
    for number in range(16):
        out.append(Inst(tag_conv, dict(number=number, n=3 if q else 6), budget=b))
    out.append(Inst(float_plumb, dict(cls="Real"), budget=b))
    out.append(Inst(float_plumb, dict(cls="Double"), budget=b))
    return out
