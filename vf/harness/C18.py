"""C18 - Addresses parse, print, compare and hash coherently in every notation.

Every text notation is a *fixed shape* (separators concrete) whose decimal digits and
hexadecimal glyphs are symbolic; every non-text notation gets symbolic integers / octets.
The expected address comes from vf/ref/C18_ref.py (integer arithmetic on the numbers the
notation denotes), never from pdu.py.

Engine notes (see vf/ref/C18_sxmodels.py): CrossHair has no symbolic model of
`int & MASK`, `int | MASK` (IP mask arithmetic), of binascii.(un)hexlify and of
str(octets, 'ascii'); exact models are registered for the worker process of C18
obligations only.  `socket.inet_aton /
inet_ntoa` are the stubs of vf/sx_stubs.py (canonical dotted quads only).
"""
import socket

from ..api import HarnessError, Inst, Violation, meta
from ..ref import C18_ref as R
from ..ref import C18_sxmodels as _models

from bacpypes import pdu
from bacpypes.pdu import (Address, LocalStation, RemoteStation, LocalBroadcast, RemoteBroadcast,
                          GlobalBroadcast, pack_ip_addr, unpack_ip_addr)

_models.install()       # no-op unless running inside the sx worker
_bad = R.selftest()
if _bad:
    raise HarnessError("C18 reference model disagrees with ipaddress / the notation list: %r" % (_bad[:4],))

STUBS = ["socket.inet_aton/inet_ntoa (canonical dotted quad <-> 4 octets)",
         "C18 local engine models: int &,|,^ constant; binascii.hexlify/unhexlify; str(octets, 'ascii') "
         "(exact identities, checked against the real operations at start-up: vf/ref/C18_sxmodels.py)"]
ASSUMES = ["route suffixes ('@...') and settings.route_aware are outside the domain",
           "IPv4 text is canonical decimal (no leading zeros: the C inet_aton reads those as octal)"]


# ---------------------------------------------------------------------------- text builders
def dec(d, n, name, octet=False):
    """n symbolic decimal digits -> (number, text).  octet: canonical text of an IPv4 octet
    (no leading zero; a three-digit one starts with 1 or 2), else leading zeros included"""
    v = 0
    t = ''
    for i in range(n):
        lead = octet and n > 1 and i == 0
        x = d.int(1 if lead else 0, 2 if (lead and n == 3) else 9, '%s%d' % (name, i))
        v = v * 10 + x
        t = t + chr(48 + x)
    return v, t


def hexglyph(d, name):
    """one symbolic hexadecimal glyph out of 0-9 A-F a-f -> (value, character)"""
    w = d.int(0, 21, name)
    return w - 6 * (w >= 16), chr(48 + w + 7 * (w >= 10) + 26 * (w >= 16))


def hexoctets(d, n, name, sep=''):
    """n octets as 2n symbolic hex glyphs -> (octet values, text)"""
    vals = []
    t = ''
    for i in range(n):
        hi, chi = hexglyph(d, '%s%dh' % (name, i))
        lo, clo = hexglyph(d, '%s%dl' % (name, i))
        vals.append(hi * 16 + lo)
        if i and sep:
            t = t + sep
        t = t + chi + clo
    return vals, t


def hex_of(octs, upper=False):
    """hex text of octet values (numbers first), one fixed case"""
    k = 7 if upper else 39
    t = ''
    for x in octs:
        hi = x // 16
        lo = x % 16
        t = t + chr(48 + hi + k * (hi >= 10)) + chr(48 + lo + k * (lo >= 10))
    return t


def dotted(d, shape, name):
    """canonical dotted quad with the given digit count per octet (each octet <= 255)
    -> (octets, text)"""
    vals = []
    t = ''
    ok = True
    for i, n in enumerate(shape):
        v, s = dec(d, n, '%s%d_' % (name, i), octet=True)
        if n == 3:
            ok = ok & (v <= 255)
        vals.append(v)
        t = t + ('.' if i else '') + s
    d.assume(ok)
    return vals, t


# ---------------------------------------------------------------------------- oracles
def fields(a, typ, net, octs, **ctx):
    """type, network and station octets of a must be the denoted ones"""
    if a.addrType != typ:
        raise Violation("type", got=a.addrType, want=typ, **ctx)
    if net is None:
        if a.addrNet is not None:
            raise Violation("net", got=a.addrNet, want=None, **ctx)
    elif a.addrNet is None or a.addrNet != net:
        raise Violation("net", got=a.addrNet, want=net, **ctx)
    if octs is None:
        if a.addrAddr is not None or a.addrLen is not None:
            raise Violation("octets", got=a.addrAddr, want=None, **ctx)
    else:
        if a.addrAddr is None or a.addrLen != len(octs) or bytes(a.addrAddr) != bytes(octs):
            raise Violation("octets", got=a.addrAddr, want=bytes(octs), **ctx)
    if a.addrRoute is not None:
        raise Violation("route", got=str(a.addrRoute), **ctx)


def build(d, make, valid, **ctx):
    """run a constructor; refusal (any Exception) is right exactly when not valid.
    returns the address or None (= correctly refused; caller ends the path)"""
    try:
        a = make()
    except Exception as e:
        if valid:
            raise Violation("refused-valid", exc=type(e).__name__, **ctx)
        return None
    if not valid:
        raise Violation("accepted-out-of-range", **ctx)
    return a


def ip_text_of(x):
    """the four octets an IPv4 text denotes (the text may be the engine's opaque string)"""
    return bytes(socket.inet_aton(x))


# ---------------------------------------------------------------------------- 1. short text forms
SHORT_GROUPS = {
    "station": [("s", 0, n) for n in (1, 2, 3, 4)],
    "net:*": [("n:*", n, 0) for n in (1, 2, 3, 4, 5, 6)] + [("*", 0, 0), ("*:*", 0, 0)],
}
for _nn in (1, 2, 3, 4, 5, 6):
    SHORT_GROUPS["net%d:station" % _nn] = [("n:s", _nn, n) for n in (1, 2, 3, 4)]


@meta(bounds="shapes d{1,4} | d{1,6}:d{1,4} | d{1,6}:* | * | *:* ; every decimal digit symbolic (leading zeros "
             "included), so every station number 0..9999 and every network number 0..999999 in every digit count",
      outside="longer digit strings", stubs=[], assumes=ASSUMES[:1])
def parse_short(d, groups):
    form, nn, ns = d.pick([sh for g in groups for sh in SHORT_GROUPS[g]], 'shape')
    net = st = None
    if form in ("n:s", "n:*"):
        net, nt = dec(d, nn, 'n')
    if form in ("s", "n:s"):
        st, stt = dec(d, ns, 's')
    if form == "s":
        text, want = stt, (R.LOCAL_STATION, None, [st])
    elif form == "n:s":
        text, want = nt + ':' + stt, (R.REMOTE_STATION, net, [st])
    elif form == "n:*":
        text, want = nt + ':*', (R.REMOTE_BROADCAST, net, None)
    elif form == "*":
        text, want = '*', (R.LOCAL_BROADCAST, None, None)
    else:
        text, want = '*:*', (R.GLOBAL_BROADCAST, None, None)
    valid = (net is None or net <= R.MAX_NET) and (st is None or st <= R.MAX_STATION)
    a = build(d, lambda: Address(text), valid, text=text)
    if a is not None:
        fields(a, *want, text=text)
    d.reach()


# ---------------------------------------------------------------------------- 2. hex text forms
@meta(bounds="0x(hh){n} | X'(hh){n}' | net:0x(hh){n} | net:X'(hh){n}' | hh:hh:hh:hh:hh:hh ; n 1..7 (quick: 1, 2, 4, 7; "
             "with network 1, 7), every hex glyph symbolic over 0-9A-Fa-f (mixed case), network = nd symbolic decimal "
             "digits, leading zeros included (nd 1..6; quick: 1, 5)",
      outside="octet strings longer than 7", stubs=STUBS[1:], assumes=ASSUMES[:1])
def parse_hex(d, cases):
    form, n, nd = d.pick(cases, 'case')
    net = None
    if nd:
        net, nt = dec(d, nd, 'n')
    if form == "ether":
        octs, ht = hexoctets(d, 6, 'x', sep=':')
        text = ht
    else:
        octs, ht = hexoctets(d, n, 'x')
        body = ('0x' + ht) if form == "0x" else ("X'" + ht + "'")
        text = (nt + ':' + body) if nd else body
    valid = net is None or net <= R.MAX_NET
    a = build(d, lambda: Address(text), valid, text=text)
    if a is not None:
        fields(a, R.REMOTE_STATION if nd else R.LOCAL_STATION, net, octs, text=text)
    d.reach()


# ---------------------------------------------------------------------------- 3. dotted IPv4 text
def check_ip_aux(a, octs, m, port, iptext=None, **ctx):
    """IP helper fields against integer arithmetic on the denoted numbers"""
    ip = R.ip_number(octs)
    mask, subnet, host, bcast = R.ip_fields(ip, m)
    if a.addrPort != port:
        raise Violation("ip-port", got=a.addrPort, want=port, **ctx)
    if a.addrIP != ip:
        raise Violation("ip-number", got=a.addrIP, want=ip, **ctx)
    if a.addrMask != mask:
        raise Violation("ip-mask", got=a.addrMask, want=mask, m=m, **ctx)
    if a.addrSubnet != subnet:
        raise Violation("ip-subnet", got=a.addrSubnet, want=subnet, m=m, **ctx)
    if a.addrHost != host:
        raise Violation("ip-host", got=a.addrHost, want=host, m=m, **ctx)
    t = a.addrTuple
    if len(t) != 2 or t[1] != port:
        raise Violation("ip-tuple", got=[str(t[0]), t[1]], **ctx)
    if (t[0] != iptext) if iptext is not None else (ip_text_of(t[0]) != bytes(octs)):
        raise Violation("ip-tuple", got=[str(t[0]), t[1]], **ctx)
    b = a.addrBroadcastTuple
    if len(b) != 2 or b[1] != port or ip_text_of(b[0]) != bytes(R.number_octets(bcast)):
        raise Violation("ip-directed-broadcast", got=[str(b[0]), b[1]], want=bcast, m=m, **ctx)


@meta(bounds="[net:]a.b.c.d[/m][:port] ; digit count of each octet concrete (instance), every digit symbolic "
             "(octets canonical decimal <= 255); m = every mask length of the instance's list or absent; port = pd "
             "symbolic digits (<= 65535, leading zeros included) or absent; net = nd symbolic digits.  quick: all "
             "33 mask lengths and no mask on the shape ddd.ddd.ddd.ddd (octets 100..255), four other digit-count "
             "shapes with 2-3 masks, ports of 1 and 5 digits, networks of 1 and 5 digits.  thorough: all 33 mask "
             "lengths and no mask on 9 digit-count shapes in which every octet position takes every digit count, "
             "all 81 digit-count shapes (= every IPv4 address) with no mask, /0 and /19, ports of 1..5 digits and "
             "networks of 1..6 digits on four shapes",
      outside="octets > 255 / non-canonical octet text (refused by inet_aton, not part of the statement); ports > 65535; "
              "mask lengths > 32",
      stubs=STUBS, assumes=ASSUMES)
def parse_ip(d, shapes, masks, pd, nd):
    shape = d.pick(shapes, 'shape')
    m = d.pick(masks, 'mask')            # None = no /m in the text
    net = None
    text = ''
    if nd:
        net, nt = dec(d, nd, 'n')
        text = nt + ':'
    octs, it = dotted(d, shape, 'o')
    text = text + it
    if m is not None:
        text = text + '/' + str(m)
    port = R.DEFAULT_PORT
    if pd:
        port, pt = dec(d, pd, 'p')
        d.assume(port <= 65535)
        text = text + ':' + pt
    valid = net is None or net <= R.MAX_NET
    a = build(d, lambda: Address(text), valid, text=text)
    if a is not None:
        fields(a, R.REMOTE_STATION if nd else R.LOCAL_STATION, net, octs + R.port_octets(port), text=text)
        check_ip_aux(a, octs, 32 if m is None else m, port, iptext=it, text=text)
    d.reach()


# ---------------------------------------------------------------------------- 4. non-text forms
@meta(bounds="Address(v), LocalStation(v), RemoteStation(net, v), RemoteBroadcast(net), LocalBroadcast(), "
             "GlobalBroadcast(): v symbolic 0..hi_v, net symbolic 0..hi_net",
      outside="negative numbers (not station / network numbers)", stubs=[], assumes=ASSUMES[:1])
def ctor_numbers(d, hi_v, hi_net):
    which = d.pick(["Address", "LocalStation", "RemoteStation", "RemoteBroadcast", "LocalBroadcast",
                    "GlobalBroadcast"], 'ctor')
    v = d.int(0, hi_v, 'v')
    net = d.int(0, hi_net, 'net')
    if which == "Address":
        make, valid, want = (lambda: Address(v)), v <= R.MAX_STATION, (R.LOCAL_STATION, None, [v])
    elif which == "LocalStation":
        make, valid, want = (lambda: LocalStation(v)), v <= R.MAX_STATION, (R.LOCAL_STATION, None, [v])
    elif which == "RemoteStation":
        make, valid, want = (lambda: RemoteStation(net, v)), (net <= R.MAX_NET) and (v <= R.MAX_STATION), \
            (R.REMOTE_STATION, net, [v])
    elif which == "RemoteBroadcast":
        make, valid, want = (lambda: RemoteBroadcast(net)), net <= R.MAX_NET, (R.REMOTE_BROADCAST, net, None)
    elif which == "LocalBroadcast":
        make, valid, want = LocalBroadcast, True, (R.LOCAL_BROADCAST, None, None)
    else:
        make, valid, want = GlobalBroadcast, True, (R.GLOBAL_BROADCAST, None, None)
    a = build(d, make, valid, ctor=which, v=v, net=net)
    if a is not None:
        fields(a, *want, ctor=which)
    d.reach()


@meta(bounds="raw octets of length n (1..7, every octet symbolic) as bytes and bytearray given to Address, "
             "LocalStation, RemoteStation(net symbolic 0..hi_net); for n = 6 also the address/port tuple of the octets",
      outside="octet strings longer than 7, the empty octet string", stubs=STUBS[:1], assumes=ASSUMES[:1])
def ctor_octets(d, ns, hi_net):
    n = d.pick(ns, 'n')
    which = d.pick(["Address", "Address-bytearray", "LocalStation", "LocalStation-bytearray", "RemoteStation",
                    "RemoteStation-bytearray"], 'ctor')
    y = d.bytes(n, name='octets')
    net = d.int(0, hi_net, 'net')
    arg = bytearray(y) if which.endswith("bytearray") else y
    if which.startswith("Address"):
        make, valid, want = (lambda: Address(arg)), True, (R.LOCAL_STATION, None, y)
    elif which.startswith("LocalStation"):
        make, valid, want = (lambda: LocalStation(arg)), True, (R.LOCAL_STATION, None, y)
    else:
        make, valid, want = (lambda: RemoteStation(net, arg)), net <= R.MAX_NET, (R.REMOTE_STATION, net, y)
    a = build(d, make, valid, ctor=which, octets=y, net=net)
    if a is not None:
        fields(a, *want, ctor=which)
        if n == 6 and which.startswith("Address"):
            port = y[4] * 256 + y[5]
            t = a.addrTuple
            if t[1] != port or a.addrPort != port or ip_text_of(t[0]) != bytes(y[:4]):
                raise Violation("ip-tuple", ctor=which, octets=y, got=[str(t[0]), t[1]])
            if a.addrIP != R.ip_number(y):
                raise Violation("ip-number", ctor=which, octets=y, got=a.addrIP)
    d.reach()


@meta(bounds="(ip, port) tuples: ip as canonical dotted text (digit counts per instance, digits symbolic) or as "
             "a symbolic 32-bit number; port symbolic 0..65535; pack_ip_addr / unpack_ip_addr on the same numbers",
      outside="the ('', port) any-address form; ports > 65535; numbers >= 2**32", stubs=STUBS[:1], assumes=ASSUMES)
def ctor_tuple(d, shapes):
    shape = d.pick(shapes, 'shape')          # None = the ip is given as a number
    port = d.int(0, 65535, 'port')
    if shape is None:
        ip = d.int(0, 2 ** 32 - 1, 'ip')
        octs = R.number_octets(ip)
        arg = (ip, port)
        it = None
    else:
        octs, it = dotted(d, shape, 'o')
        ip = R.ip_number(octs)
        arg = (it, port)
    want = octs + R.port_octets(port)
    a = build(d, lambda: Address(arg), True, ip=ip, port=port)
    fields(a, R.LOCAL_STATION, None, want, ip=ip, port=port)
    t = a.addrTuple
    if len(t) != 2 or t[1] != port or a.addrPort != port or ip_text_of(t[0]) != bytes(octs):
        raise Violation("ip-tuple", ip=ip, port=port, got=[str(t[0]), t[1]])
    if it is not None and t[0] != it:
        raise Violation("ip-tuple-text", ip=ip, port=port, got=str(t[0]))
    if a.addrIP != ip:
        raise Violation("ip-number", ip=ip, port=port, got=a.addrIP)
    # the two helper functions: tuple <-> six octets
    u = unpack_ip_addr(bytes(want))
    if len(u) != 2 or u[1] != port or ip_text_of(u[0]) != bytes(octs):
        raise Violation("unpack_ip_addr", ip=ip, port=port, got=[str(u[0]), u[1]])
    if bytes(pack_ip_addr(u)) != bytes(want):
        raise Violation("pack_ip_addr", ip=ip, port=port)
    if it is not None and bytes(pack_ip_addr((it, port))) != bytes(want):
        raise Violation("pack_ip_addr", ip=ip, port=port, text=it)
    d.reach()


# ---------------------------------------------------------------------------- 5. print / parse round trip
NETS = [0, 1, 9, 10, 99, 100, 255, 256, 999, 1000, 9999, 10000, 47808, 65534]
QUADS = [(0, 0, 0, 0), (1, 2, 3, 4), (10, 0, 0, 255), (99, 100, 9, 10), (127, 0, 0, 1), (192, 168, 0, 255),
         (199, 200, 249, 250), (255, 255, 255, 255)]
TEXTS = ["1", "254", "0x01", "0x0102", "X'01'", "X'0102'", "*", "1:*", "1:2", "1:254", "1:0x02", "1:0x0203",
         "1:X'02'", "1:X'0203'", "*:*", "1.2.3.4", "1.2.3.4:47809", "1.2.3.4:47999", "01:02:03:04:05:06",
         "1.2.3.4/24", "1.2.3.4/0:47823", "10.0.0.255/8:47824", "5:1.2.3.4", "65534:255.255.255.255:47807",
         "0xBAC0", "0x0102030405BAC0", "7:0x01020304bac1", "0:0", "00012:007"]


def same_address(a, b):
    if a.addrType != b.addrType:
        return False
    if (a.addrNet is None) != (b.addrNet is None) or (a.addrNet is not None and a.addrNet != b.addrNet):
        return False
    if (a.addrAddr is None) != (b.addrAddr is None):
        return False
    return a.addrAddr is None or bytes(a.addrAddr) == bytes(b.addrAddr)


QUADS_T = [(a, b, c, e) for a in (0, 10, 100, 255) for b in (0, 10, 100, 255) for c in (0, 10, 100, 255)
           for e in (0, 10, 100, 255)]
RT_GROUPS = {
    "simple": [("text", 0), ("lbcast", 0), ("gbcast", 0), ("rbcast", 0), ("local", 1), ("local", 2), ("local", 3),
               ("local", 4), ("local", 5), ("local", 6), ("local", 7)],
    "local-ip": [("local-ip", 6)],
    "remote": [("remote", 1), ("remote", 2), ("remote", 3), ("remote", 4), ("remote", 5), ("remote", 6),
               ("remote", 7)],
    "remote-q": [("remote", 1), ("remote", 2), ("remote", 6), ("remote", 7)],
    "remote-12": [("remote", 1), ("remote", 2)],
    "remote-ip": [("remote-ip", 6)],
    "rbcast": [("rbcast", 0)],
}


def draw_net(d, nets):
    if nets and nets[0] == "range":
        return d.int(nets[1], nets[2], 'net')      # printing it enumerates the range
    return d.pick(nets, 'net')


@meta(bounds="every address value (type, network, station octets), built by the typed constructors: one-octet "
             "stations 0..255 (symbolic), octet strings of length 2..7 with every octet symbolic (printed in hex; "
             "for length 6 the last two octets outside 47808..47823), six-octet stations whose last two octets are a "
             "port 47808..47823 (printed dotted): port symbolic, the four IP octets picked from 8 boundary quads "
             "(thorough, local: 256 quads over {0,10,100,255}); networks picked from 14 boundary values (quick: 4) and, "
             "thorough, every network of 0..300 and 65300..65534 (net:*), 0..120 and 65480..65534 (net:station) ('%d' formatting of a symbolic integer makes the "
             "engine enumerate, hence picks / small ranges); plus 29 literal notations (those of "
             "tests/test_pdu/test_address.py and mask / port / leading-zero variants)",
      outside="other networks / IP quads on the dotted and net: printing paths; the Null address (no notation "
              "denotes it); routes",
      stubs=STUBS, assumes=ASSUMES)
def roundtrip(d, group, nets, quads):
    kind, n = d.pick(RT_GROUPS[group], 'case')
    if kind == "text":
        a = Address(d.pick(TEXTS, 'text'))
    elif kind == "lbcast":
        a = LocalBroadcast()
    elif kind == "gbcast":
        a = GlobalBroadcast()
    elif kind == "rbcast":
        a = RemoteBroadcast(draw_net(d, nets))
    else:
        if kind.endswith("ip"):
            port = d.int(47808, 47823, 'port')
            q = d.pick(QUADS_T if quads == "T" else QUADS, 'quad')
            y = bytes(list(q) + R.port_octets(port))
        else:
            y = d.bytes(n, name='octets')
            if n == 6:
                port = y[4] * 256 + y[5]
                d.assume((port < 47808) | (port > 47823))
        if kind.startswith("local"):
            a = LocalStation(y)
        else:
            a = RemoteStation(draw_net(d, nets), y)
    text = str(a)
    d.note(text=text)
    try:
        b = Address(text)
    except Exception as e:
        raise Violation("roundtrip-refused", text=text, exc=type(e).__name__)
    if not (b == a) or not (a == b) or (a != b) or (b != a):
        raise Violation("roundtrip-not-equal", text=text, back=str(b))
    if not same_address(a, b):
        raise Violation("roundtrip-fields", text=text, type=b.addrType, net=b.addrNet, octets=b.addrAddr)
    d.reach()


# ---------------------------------------------------------------------------- 6. equality / hash laws
class _Material:
    """stand-in hash value: remembers what was hashed (DESIGN section 3, `hash` stand-in)"""

    def __init__(self, m):
        self.m = m


def hashed(a):
    """what a.__hash__() feeds to hash(); falls back to the real hash value"""
    pdu.hash = _Material
    try:
        try:
            h = a.__hash__()
        finally:
            pdu.__dict__.pop('hash', None)
    except Exception:
        h = None
    if isinstance(h, _Material):
        if isinstance(h.m, tuple):
            for part in h.m:
                if isinstance(part, (bytearray, list, dict, set)):
                    # the stand-in would hide it: hash() refuses mutable containers
                    raise Violation("unhashable-address", text=str(a), part=type(part).__name__)
        return h.m
    return ("hash-value", a.__hash__())


def same_material(p, q):
    if isinstance(p, tuple) and isinstance(q, tuple) and len(p) == len(q):
        for u, v in zip(p, q):
            if (u is None) != (v is None):
                return False
            if u is not None and not same_material(u, v):
                return False
        return True
    return True if p == q else False


def spellings(pool):
    """[(name, class, fn(N) -> Address)]; every spelling of one class denotes the same
    address when given the same numbers N"""
    L, RS, RB, LB, GB = "local", "remote", "rbcast", "lbcast", "gbcast"
    if pool == "short":
        return [
            ("int", L, lambda N: Address(N['v'])),
            ("dec", L, lambda N: Address(N['vt'])),
            ("bytes", L, lambda N: Address(bytes([N['v']]))),
            ("bytearray", L, lambda N: Address(bytearray([N['v']]))),
            ("LocalStation-int", L, lambda N: LocalStation(N['v'])),
            ("LocalStation-bytes", L, lambda N: LocalStation(bytes([N['v']]))),
            ("0x", L, lambda N: Address('0x' + hex_of([N['v']]))),
            ("X'", L, lambda N: Address("X'" + hex_of([N['v']], upper=True) + "'")),
            ("net:dec", RS, lambda N: Address(N['nt'] + ':' + N['vt'])),
            ("RemoteStation-int", RS, lambda N: RemoteStation(N['net'], N['v'])),
            ("RemoteStation-bytes", RS, lambda N: RemoteStation(N['net'], bytes([N['v']]))),
            ("net:0x", RS, lambda N: Address(N['nt'] + ':0x' + hex_of([N['v']], upper=True))),
            ("net:X'", RS, lambda N: Address(N['nt'] + ":X'" + hex_of([N['v']]) + "'")),
            ("net:*", RB, lambda N: Address(N['nt'] + ':*')),
            ("RemoteBroadcast", RB, lambda N: RemoteBroadcast(N['net'])),
            ("*", LB, lambda N: Address('*')),
            ("LocalBroadcast", LB, lambda N: LocalBroadcast()),
            ("*:*", GB, lambda N: Address('*:*')),
            ("GlobalBroadcast", GB, lambda N: GlobalBroadcast()),
        ]
    if pool == "long":
        return [
            ("bytes", L, lambda N: Address(bytes(N['octs']))),
            ("bytearray", L, lambda N: Address(bytearray(N['octs']))),
            ("LocalStation", L, lambda N: LocalStation(bytes(N['octs']))),
            ("LocalStation-bytearray", L, lambda N: LocalStation(bytearray(N['octs']))),
            ("0x", L, lambda N: Address('0x' + hex_of(N['octs'], upper=True))),
            ("X'", L, lambda N: Address("X'" + hex_of(N['octs']) + "'")),
            ("RemoteStation", RS, lambda N: RemoteStation(N['net'], bytes(N['octs']))),
            ("RemoteStation-bytearray", RS, lambda N: RemoteStation(N['net'], bytearray(N['octs']))),
            ("net:0x", RS, lambda N: Address(N['nt'] + ':0x' + hex_of(N['octs']))),
            ("net:X'", RS, lambda N: Address(N['nt'] + ":X'" + hex_of(N['octs'], upper=True) + "'")),
        ]
    if pool == "ip":
        return [
            ("text", L, lambda N: Address(N['it'] + ':' + N['pt'])),
            ("text/24", L, lambda N: Address(N['it'] + '/24:' + N['pt'])),
            ("text/0", L, lambda N: Address(N['it'] + '/0:' + N['pt'])),
            ("tuple-text", L, lambda N: Address((N['it'], N['port']))),
            ("tuple-number", L, lambda N: Address((R.ip_number(N['octs']), N['port']))),
            ("bytes", L, lambda N: Address(bytes(N['octs']))),
            ("LocalStation", L, lambda N: LocalStation(bytes(N['octs']))),
            ("0x", L, lambda N: Address('0x' + hex_of(N['octs']))),
            ("ether", L, lambda N: Address(':'.join(hex_of([x], upper=True) for x in N['octs']))),
            ("net:text", RS, lambda N: Address(N['nt'] + ':' + N['it'] + ':' + N['pt'])),
            ("RemoteStation", RS, lambda N: RemoteStation(N['net'], bytes(N['octs']))),
            ("net:0x", RS, lambda N: Address(N['nt'] + ':0x' + hex_of(N['octs']))),
        ]
    raise AssertionError(pool)


def numbers(d, pool, n, tag):
    """the numbers of one address (digits first, so that the decimal text needs no fork)"""
    N = {}
    N['net'], N['nt'] = dec(d, 5, tag + 'n')
    ok = N['net'] <= R.MAX_NET
    if pool == "short":
        N['v'], N['vt'] = dec(d, 3, tag + 's')
        ok = ok & (N['v'] <= R.MAX_STATION)
        N['octs'] = [N['v']]
    elif pool == "long":
        N['octs'] = [d.int(0, 255, '%so%d' % (tag, i)) for i in range(n)]
    else:
        o, N['it'] = dotted(d, (3, 3, 3, 3), tag + 'o')
        N['port'], N['pt'] = dec(d, 5, tag + 'p')
        ok = ok & (N['port'] <= 65535)
        N['octs'] = o + R.port_octets(N['port'])
    d.assume(ok)
    return N


def denotes(cls, N):
    if cls == "local":
        return (R.LOCAL_STATION, None, N['octs'])
    if cls == "remote":
        return (R.REMOTE_STATION, N['net'], N['octs'])
    if cls == "rbcast":
        return (R.REMOTE_BROADCAST, N['net'], None)
    if cls == "lbcast":
        return (R.LOCAL_BROADCAST, None, None)
    return (R.GLOBAL_BROADCAST, None, None)


def same_denotation(p, q):
    if p[0] != q[0]:
        return False
    if p[1] is not None and p[1] != q[1]:
        return False
    if p[2] is not None and bytes(p[2]) != bytes(q[2]):
        return False
    return True


@meta(bounds="three addresses a, b, c: a and b are two different spellings (i, j) of the same symbolic numbers N1 "
             "(quick: every spelling with the next one of its class, cyclically; thorough: every pair), c "
             "is spelling k (quick: a representative of every class; thorough: all) of independent symbolic numbers N2 (network 0..65534, station octets 0..255 each, port "
             "0..65535, all via symbolic decimal digits); pool 'short' = 19 spellings of one-octet stations, "
             "net:station, net:*, * and *:* (int / decimal text / bytes / bytearray / typed constructors / 0x / X''), "
             "pool 'long' = 10 spellings of an n-octet string, pool 'ip' = 12 spellings of a B/IP address (text, "
             "text with /24 and /0 mask, both tuple forms, six octets, hex, colon-separated hex, with and without "
             "network; octets 100..255 on this pool: three-digit canonical text; the pairs of the numeric tuple form "
             "with the two hex texts are left out - solver timeouts - and are tied in through 'bytes').  The whole 3x3 matrix of == and != "
             "is evaluated: reflexive, symmetric, transitive, != is the negation, a == b holds exactly when the "
             "spellings denote the same (type, network, octets), and == implies equal hashed material",
      outside="addresses with routes (== is documented as not transitive there); IP octets below 100 in pool 'ip'",
      stubs=STUBS + ["hash stand-in: Address.__hash__ evaluated with bacpypes.pdu.hash bound to a tagging "
                     "function (equal hashed material <=> equal hash, Python's hash being a function)"],
      assumes=ASSUMES)
def equiv(d, pool, n, pairs, ks):
    sp = spellings(pool)
    i, j = d.pick(pairs, 'pair')
    k = d.pick(ks, 'k')
    N1 = numbers(d, pool, n, 'a')
    N2 = numbers(d, pool, n, 'c')
    names = [sp[i][0], sp[j][0], sp[k][0]]
    if sp[i][1] != sp[j][1]:
        raise AssertionError("harness: i and j must be spellings of one class")
    objs = [sp[i][2](N1), sp[j][2](N1), sp[k][2](N2)]
    dens = [denotes(sp[i][1], N1), denotes(sp[j][1], N1), denotes(sp[k][1], N2)]
    mats = [hashed(x) for x in objs]
    E = [[None] * 3 for _ in range(3)]
    for x in range(3):
        for y in range(3):
            E[x][y] = True if (objs[x] == objs[y]) else False
            ne = True if (objs[x] != objs[y]) else False
            d.flag(ne == E[x][y], "ne-not-negation", x=names[x], y=names[y], eq=E[x][y])
    for x in range(3):
        if not E[x][x]:
            raise Violation("not-reflexive", x=names[x], text=str(objs[x]))
        for y in range(3):
            if E[x][y] != E[y][x]:
                raise Violation("not-symmetric", x=names[x], y=names[y], xy=E[x][y], yx=E[y][x])
            want = same_denotation(dens[x], dens[y])
            if E[x][y] != want:
                raise Violation("eq-denotation", x=names[x], y=names[y], eq=E[x][y], want=want,
                                tx=str(objs[x]), ty=str(objs[y]))
            if E[x][y]:
                if not same_material(mats[x], mats[y]):
                    raise Violation("equal-but-hash-differs", x=names[x], y=names[y],
                                    tx=str(objs[x]), ty=str(objs[y]))
            for z in range(3):
                if E[x][y] and E[y][z] and not E[x][z]:
                    raise Violation("not-transitive", x=names[x], y=names[y], z=names[z])
    d.reach()


# ---------------------------------------------------------------------------- 7. dictionary slot (concrete)
def concrete_pool():
    """groups of spellings of one address each (concrete literals)"""
    six = bytes([192, 168, 0, 10, 0xBA, 0xC0])
    six2 = bytes([192, 168, 0, 10, 0xBA, 0xC1])
    return [
        [Address(5), Address("5"), Address("005"), Address(b'\x05'), Address(bytearray(b'\x05')), LocalStation(5),
         LocalStation(b'\x05'), LocalStation(bytearray(b'\x05')), Address("0x05"), Address("X'05'")],
        [Address("2:3"), RemoteStation(2, 3), RemoteStation(2, b'\x03'), RemoteStation(2, bytearray(b'\x03')),
         Address("2:0x03"), Address("2:X'03'"), Address("02:003")],
        [Address("2:*"), RemoteBroadcast(2)],
        [Address("*"), LocalBroadcast()],
        [Address("*:*"), GlobalBroadcast()],
        [Address("192.168.0.10"), Address("192.168.0.10:47808"), Address("192.168.0.10/24"),
         Address("192.168.0.10/0:47808"), Address(("192.168.0.10", 47808)), Address((0xC0A8000A, 47808)),
         Address(six), LocalStation(six), Address("0xc0a8000abac0"), Address("X'C0A8000ABAC0'"),
         Address("c0:a8:00:0a:ba:c0")],
        [Address("192.168.0.10:47809"), Address(("192.168.0.10", 47809)), Address(six2), Address("0xC0A8000ABAC1")],
        [Address("9:192.168.0.10"), RemoteStation(9, six), Address("9:0xc0a8000abac0"), Address("9:X'c0a8000abac0'")],
        [Address("0x0102"), Address(b'\x01\x02'), LocalStation(b'\x01\x02'), Address("X'0102'")],
        [Address("3:5"), RemoteStation(3, 5)],
        [Address("2:5"), RemoteStation(2, 5)],
        [Address(3), LocalStation(3)],
    ]


@meta(bounds="12 groups of concrete spellings (52 addresses) taken from the literals of the repository's tests and "
             "their other spellings; the pair is chosen by the engine, so every ordered pair is run (quick: every pair "
             "within a group, and every address against the first spelling of every other group)",
      outside="everything that is not one of these literals (the symbolic harness `equiv` covers the values)",
      stubs=STUBS[:1], assumes=ASSUMES[:1])
def dict_slot(d, gs, others):
    """equal addresses are one dictionary key, different addresses are different keys:
    the real hash() and a real dict, on concrete witnesses"""
    pool = concrete_pool()
    g = d.pick(gs, 'group')
    flat = [(gi, a) for gi, grp in enumerate(pool) for a in (grp if (others == "all" or gi == g) else grp[:1])]
    x = d.pick(pool[g], 'x')
    gy, y = d.pick(flat, 'y')
    table = {x: "x"}
    if gy == g:
        if not (x == y) or hash(x) != hash(y):
            raise Violation("equal-but-hash-differs", x=str(x), y=str(y), real_hash=True)
        if y not in table or table.get(y) != "x":
            raise Violation("dict-lookup-misses", x=str(x), y=str(y))
        table[y] = "y"
        if len(table) != 1:
            raise Violation("dict-duplicate-entry", x=str(x), y=str(y))
    else:
        if x == y or not (x != y):
            raise Violation("eq-denotation", x=str(x), y=str(y), eq=True, want=False)
        if y in table:
            raise Violation("dict-lookup-wrong-entry", x=str(x), y=str(y))
    if len({x, y, Address(str(x))}) != (1 if gy == g else 2):
        raise Violation("set-size", x=str(x), y=str(y))
    d.reach()


# ---------------------------------------------------------------------------- 8. refused shapes
# '#' = a symbolic decimal digit, '%' = a symbolic hex glyph, everything else literal
TEMPLATES = ["#", "###", "#####:###", "#:#", "#####:*", "*", "*:*", "#.#.#.#", "###.###.###.###",
             "#.##.###.#/##", "#.#.#.#:#####", "##.##.##.##/#:#####", "#####:#.#.#.#", "#:###.###.###.###:#####",
             "0x%%", "0x%%%%%%", "X'%%'", "X'%%%%'", "#####:0x%%", "#:0x%%%%", "#####:X'%%'", "#:X'%%%%'",
             "%%:%%:%%:%%:%%:%%"]
INSIDE = ":./*x'aA0X-"     # junk that does occur in some notation (plus '-'), tried concretely


def in_alphabet(c):
    """code point c occurs in some accepted notation (or is '@', the excluded route mark)"""
    return (((c >= 48) & (c <= 58)) | ((c >= 64) & (c <= 70)) | ((c >= 97) & (c <= 102)) |
            (c == 120) | (c == 88) | (c == 39) | (c == 46) | (c == 47) | (c == 42))


@meta(bounds="23 notation shapes (digits / hex glyphs symbolic) with one junk character inserted in front, behind "
             "or in the middle: (a) any printable ASCII character that occurs in no notation (symbolic, 65 "
             "characters), (b) each of the characters : . / * x ' a A 0 X - (concrete) whenever the reference "
             "recogniser of the statement's notation list says the result is not a notation",
      outside="control characters (a trailing newline is accepted by the `$` of the regular expressions), "
              "non-ASCII, more than one junk character, arbitrary strings; '@' (route suffix)",
      stubs=STUBS[1:], assumes=ASSUMES[:1])
def junk(d, ts, mode):
    tpl = TEMPLATES[d.pick(ts, 'template')]
    pos = d.pick(sorted({0, len(tpl), len(tpl) // 2}), 'pos')
    if mode == "outside":
        c = d.int(32, 126, 'junk')
        d.assume(not in_alphabet(c))
        jc, jrep = chr(c), ' '
    else:
        jc = jrep = d.pick(list(INSIDE), 'junk')
    text = ''
    reps = ['', '', '']      # representatives: the grammar only tells digits, '0' (as in 0x) and letters apart
    for idx in range(len(tpl) + 1):
        if idx == pos:
            text = text + jc
            reps = [r + jrep for r in reps]
        if idx == len(tpl):
            break
        ch = tpl[idx]
        if ch == '#':
            x = d.int(0, 9, 'd%d' % idx)
            text = text + chr(48 + x)
            reps = [reps[0] + '1', reps[1] + '0', reps[2] + '1']
        elif ch == '%':
            _, g = hexglyph(d, 'h%d' % idx)
            text = text + g
            reps = [reps[0] + 'b', reps[1] + '0', reps[2] + '1']
        else:
            text = text + ch
            reps = [r + ch for r in reps]
    if R.accepts(reps[0]) or R.accepts(reps[1]) or R.accepts(reps[2]):
        # the junk character may extend the text into another notation
        d.reach()
        return
    try:
        a = Address(text)
    except Exception:
        d.reach()
        return
    raise Violation("junk-accepted", text=text, parsed_as=str(a), template=tpl, pos=pos)


# ---------------------------------------------------------------------------- instances
ALL_SHAPES = [[a, b, c, e] for a in (1, 2, 3) for b in (1, 2, 3) for c in (1, 2, 3) for e in (1, 2, 3)]
MIX_SHAPES = [[1, 1, 1, 1], [2, 2, 2, 2], [3, 3, 3, 3], [1, 2, 3, 1], [3, 2, 1, 3], [2, 3, 1, 2], [3, 1, 2, 3],
              [1, 3, 3, 2], [2, 1, 2, 3]]
ALL_MASKS = [None] + list(range(33))


def _classes(pool):
    out = {}
    for idx, (_, cls, _) in enumerate(spellings(pool)):
        out.setdefault(cls, []).append(idx)
    return out


# pairs the solver does not get through in useful time (the 32-bit number of the tuple form
# against hex text of the same digits: UnknownSatisfiability); both are tied to the rest of
# their class through the pairs with 'bytes'
SKIP_PAIRS = [("tuple-number", "0x"), ("tuple-number", "ether")]


def _equiv_instances(pool, n, ks, every_pair, budget, per_inst, only=None):
    """pairs (i, j) of spellings of one class: every spelling with the next one of its class
    (cyclically), or every unordered pair; `per_inst` pairs per obligation; ks / only are
    spelling names (None = all)"""
    names = [x[0] for x in spellings(pool)]
    ks = list(range(len(names))) if ks is None else [names.index(k) for k in ks]
    pairs = []
    for cls, members in _classes(pool).items():
        if only is not None:
            members = [m for m in members if names[m] in only]
        if len(members) == 1:
            pairs.append([members[0], members[0]])
        elif every_pair or len(members) == 2:
            pairs += [[a, b] for x, a in enumerate(members) for b in members[x + 1:]]
        else:
            pairs += [[a, members[(x + 1) % len(members)]] for x, a in enumerate(members)]
    if pool == "ip":
        pairs = [pq for pq in pairs if (names[pq[0]], names[pq[1]]) not in SKIP_PAIRS]
    out = []
    for part in range(0, len(pairs), per_inst):
        out.append(Inst(equiv, dict(pool=pool, n=n, pairs=pairs[part:part + per_inst], ks=ks), budget=budget,
                        label="%s%s,pairs%d" % (pool, n if pool == "long" else "", part // per_inst)))
    return out


def instances(tier):
    q = tier == "quick"
    out = []
    B = 150 if q else 600

    # 1. short text forms
    out.append(Inst(parse_short, dict(groups=["station", "net:*"]), budget=B, label="station,net:*"))
    for nns in ((1, 2, 3), (4, 5), (6,)):
        out.append(Inst(parse_short, dict(groups=["net%d:station" % nn for nn in nns]), budget=B,
                        label="net%s:station" % "".join(map(str, nns))))

    # 2. hex text forms
    ns = (1, 2, 4, 7) if q else (1, 2, 3, 4, 5, 6, 7)
    rn = (1, 7) if q else (1, 2, 3, 4, 5, 6, 7)
    nds = (1, 5) if q else (1, 2, 3, 4, 5, 6)
    out.append(Inst(parse_hex, dict(cases=[[f, n, 0] for f in ("0x", "X'") for n in ns]), budget=B, label="local"))
    out.append(Inst(parse_hex, dict(cases=[["ether", 6, 0]]), budget=B, label="ether"))
    for f in ("0x", "X'"):
        if q:
            out.append(Inst(parse_hex, dict(cases=[[f, n, nd] for n in rn for nd in nds]), budget=B, label="net:%s" % f))
        else:
            for nd in nds:
                out.append(Inst(parse_hex, dict(cases=[[f, n, nd] for n in rn]), budget=B, label="net%d:%s" % (nd, f)))

    # 3. dotted IPv4: every mask length on the mixed digit-count shapes, every digit-count
    #    shape on a few mask lengths; ports and networks on some shapes
    if q:
        for part in range(4):
            out.append(Inst(parse_ip, dict(shapes=[[3, 3, 3, 3]], masks=ALL_MASKS[part::4], pd=0, nd=0), budget=B + 20,
                            label="3333,masks%d" % part))
        out.append(Inst(parse_ip, dict(shapes=[[1, 1, 1, 1]], masks=[None, 0, 32], pd=0, nd=0), budget=B, label="1111"))
        out.append(Inst(parse_ip, dict(shapes=[[2, 2, 2, 2]], masks=[None, 9], pd=5, nd=5), budget=B, label="2222,port,net"))
        out.append(Inst(parse_ip, dict(shapes=[[1, 2, 3, 1]], masks=[None, 16], pd=5, nd=0), budget=B, label="1231,port"))
        out.append(Inst(parse_ip, dict(shapes=[[3, 2, 1, 3]], masks=[None, 25], pd=1, nd=1), budget=B, label="3213,port1,net1"))
    else:
        for sh in MIX_SHAPES:
            for part in range(2):
                out.append(Inst(parse_ip, dict(shapes=[sh], masks=ALL_MASKS[part::2], pd=0, nd=0), budget=B,
                                label="%d%d%d%d,masks%d" % (tuple(sh) + (part,))))
        rest = [sh for sh in ALL_SHAPES if sh not in MIX_SHAPES]
        for part in range(0, len(rest), 3):
            out.append(Inst(parse_ip, dict(shapes=rest[part:part + 3], masks=[None, 0, 19], pd=0, nd=0), budget=B,
                            label="shapes%d" % (part // 3)))
        for pd in (1, 2, 3, 4, 5):
            out.append(Inst(parse_ip, dict(shapes=[[3, 3, 3, 3]], masks=[None, 0, 8, 31], pd=pd, nd=0), budget=B,
                            label="3333,port%d" % pd))
            out.append(Inst(parse_ip, dict(shapes=[[1, 2, 3, 1]], masks=[None, 24], pd=pd, nd=6 - pd), budget=B,
                            label="1231,port%d,net%d" % (pd, 6 - pd)))
        for nd in (1, 2, 3, 4, 5, 6):
            out.append(Inst(parse_ip, dict(shapes=[[2, 3, 1, 2]], masks=[None, 13], pd=0, nd=nd), budget=B,
                            label="2312,net%d" % nd))
            out.append(Inst(parse_ip, dict(shapes=[[3, 3, 3, 3]], masks=[None, 30], pd=5, nd=nd), budget=B,
                            label="3333,port5,net%d" % nd))

    # 4. non-text forms
    out.append(Inst(ctor_numbers, dict(hi_v=1000 if q else 10 ** 6, hi_net=70000 if q else 10 ** 7), budget=B))
    out.append(Inst(ctor_octets, dict(ns=[1, 2, 3, 4, 5, 6, 7], hi_net=70000 if q else 10 ** 7), budget=B))
    out.append(Inst(ctor_tuple, dict(shapes=[None, [3, 1, 2, 3], [1, 1, 1, 1]] if q else [None] + MIX_SHAPES),
                    budget=B))

    # 5. print / parse
    nets_q = [0, 9, 10, 65534]
    out.append(Inst(roundtrip, dict(group="simple", nets=nets_q if q else NETS, quads="Q"), budget=B))
    out.append(Inst(roundtrip, dict(group="local-ip", nets=[], quads="Q" if q else "T"), budget=B))
    out.append(Inst(roundtrip, dict(group="remote-q" if q else "remote", nets=nets_q if q else NETS, quads="Q"),
                    budget=B))
    out.append(Inst(roundtrip, dict(group="remote-ip", nets=nets_q if q else NETS, quads="Q"), budget=B))
    if not q:
        for lo, hi in ((0, 300), (65300, 65534)):
            out.append(Inst(roundtrip, dict(group="rbcast", nets=["range", lo, hi], quads="Q"), budget=B,
                            label="rbcast,%d..%d" % (lo, hi)))
        for lo, hi in ((0, 120), (65480, 65534)):
            out.append(Inst(roundtrip, dict(group="remote-12", nets=["range", lo, hi], quads="Q"), budget=B,
                            label="remote,%d..%d" % (lo, hi)))

    # 6. equality / hash
    if q:
        out += _equiv_instances("short", 1, ["int", "dec", "0x", "net:dec", "RemoteStation-int", "net:0x", "net:*",
                                             "RemoteBroadcast", "*", "*:*"], False, B + 10, 3)
        out += _equiv_instances("long", 3, ["bytes", "RemoteStation", "net:0x"], False, B + 10, 3)
        out += _equiv_instances("ip", 6, ["bytes"], False, B + 20, 1,
                                only=["text", "text/24", "tuple-text", "tuple-number", "bytes", "0x", "net:text",
                                      "RemoteStation"])
    else:
        out += _equiv_instances("short", 1, None, True, B, 2)
        for n in (2, 3, 7):
            out += _equiv_instances("long", n, None, True, B, 3)
        out += _equiv_instances("ip", 6, ["bytes", "RemoteStation"], True, B, 1)

    # 7. dictionary slot
    if q:
        out.append(Inst(dict_slot, dict(gs=list(range(12)), others="first"), budget=B))
    else:
        for part in range(4):
            out.append(Inst(dict_slot, dict(gs=list(range(12))[part::4], others="all"), budget=B, label="part%d" % part))

    # 8. refused shapes
    T = list(range(len(TEMPLATES)))
    for part in range(3 if q else 6):
        out.append(Inst(junk, dict(ts=T[part::3 if q else 6], mode="outside"), budget=B, label="outside,part%d" % part))
    inside = [1, 2, 4, 5, 6, 7, 14, 16] if q else T
    parts = 6 if q else 12
    for part in range(parts):
        out.append(Inst(junk, dict(ts=inside[part::parts], mode="inside"), budget=B, label="inside,part%d" % part))
    return out
