"""C19 - Routing knowledge stays coherent: one next hop per destination, newest wins.

Real code driven: RouterInfoCache (every method), NetworkServiceAccessPoint.update_/
delete_router_references, .indication, .process_npdu (learning from SADR),
NetworkServiceElement.IAmRouterToNetwork / NetworkNumberIs, over bacpypes.vlan.

Oracle: vf/ref/C19_routes.py (a map (source net, destination net) -> router, newest
statement wins), compared with what the public lookups show after EVERY step.
"""
import contextlib
import sys

from ..api import Inst, Violation, meta
from ..ref.C19_routes import (RefRoutes, renumber_allowed, frame_i_am_router,
                              frame_network_number_is, routed_head, routed_to_head, parse_frame)

from bacpypes.pdu import LocalStation, LocalBroadcast, RemoteStation, PDU
from bacpypes.comm import Client, Server, bind
from bacpypes.netservice import (RouterInfoCache, NetworkServiceAccessPoint,
                                 NetworkServiceElement)


def untraced(d):
    """Engine workaround (the harness API has no such call yet): once every selector has
    been drawn and branched on, the values that remain are plain Python objects, and running
    the real code on them needs no symbolic tracer.  CrossHair's tracer costs ~140x on this
    dict-heavy code (measured: 0.7 s instead of 5 ms for one path), so the concrete part of
    a path runs with tracing suspended.  Uses `d.untraced()` if the engine provides it, else
    CrossHair's NoTracing when (and only when) the engine has loaded it; plain replay
    (no CrossHair) gets a null context.  Nothing symbolic may be touched inside."""
    f = getattr(d, 'untraced', None)
    if f is not None:
        return f()
    if getattr(d, 'symbolic', False):
        tr = sys.modules.get('crosshair.tracers')
        if tr is not None:
            return tr.NoTracing()
    return contextlib.nullcontext()


# ------------------------------------------------------------------------ the domain
SNETS = (1, 2)                      # attached ("source") networks
MACS = (201, 202, 203)              # router stations (one-octet LAN addresses)
DNETS = (11, 12, 13, 14)            # destination networks
FOREIGN_SNET, FOREIGN_DNET = 7, 99  # never named by any operation: must never resolve

LEARN, FORGET_ROUTER, FORGET_SUB, FORGET_DNETS, RENUMBER = range(5)
OPNAME = ("learn", "forget-router", "forget-subset", "forget-dnets", "renumber")


class Dom:
    def __init__(self, S, R, D):
        self.S, self.R, self.D = S, R, D
        self.snets, self.macs, self.dnets = SNETS[:S], MACS[:R], DNETS[:D]
        self.addrs = [LocalStation(m) for m in self.macs]
        # every pair of the domain, plus pairs with a network no operation ever names
        self.keys = [(s, x) for s in self.snets for x in self.dnets + (FOREIGN_DNET,)] + \
                    [(FOREIGN_SNET, x) for x in self.dnets]

    def all_ops(self):
        """every operation with every argument of the domain (forget lists non-empty)"""
        out = []
        masks = [tuple(k for k in range(self.D) if (m >> k) & 1) for m in range(2 ** self.D)]
        for s in range(self.S):
            for r in range(self.R):
                for mk in masks:
                    out.append((LEARN, s, r, mk, 0))
                out.append((FORGET_ROUTER, s, r, (), 0))
                for mk in masks[1:]:
                    out.append((FORGET_SUB, s, r, mk, 0))
            for mk in masks[1:]:
                out.append((FORGET_DNETS, s, 0, mk, 0))
            for n in range(self.S):
                out.append((RENUMBER, s, 0, (), n))
        return out

    def text(self, o):
        op, s, r, mk, n = o
        dn = [self.dnets[k] for k in mk]
        if op == LEARN:
            return "learn(%d, r%d, %r)" % (self.snets[s], self.macs[r], dn)
        if op == FORGET_ROUTER:
            return "forget(%d, r%d)" % (self.snets[s], self.macs[r])
        if op == FORGET_SUB:
            return "forget(%d, r%d, %r)" % (self.snets[s], self.macs[r], dn)
        if op == FORGET_DNETS:
            return "forget(%d, dnets=%r)" % (self.snets[s], dn)
        return "renumber(%d -> %d)" % (self.snets[s], self.snets[n])


def draw_op(d, i, dom, fix=()):
    """one operation with symbolic opcode and arguments; `fix` pins (opcode, snet, router)
    of this operation to concrete values (how an obligation is split into instances)"""
    op = fix[0] if len(fix) > 0 else d.index(5, 'op%d' % i)
    s = fix[1] if len(fix) > 1 else d.index(dom.S, 's%d' % i)
    r, n, mk = 0, 0, ()
    if op == RENUMBER:
        n = d.index(dom.S, 'n%d' % i)
    if op in (LEARN, FORGET_ROUTER, FORGET_SUB):
        r = fix[2] if len(fix) > 2 else d.index(dom.R, 'r%d' % i)
    if op in (LEARN, FORGET_SUB, FORGET_DNETS):
        mk = tuple([k for k in range(dom.D) if d.bool('d%d_%d' % (i, k))])
        if op != LEARN:
            d.assume(len(mk) > 0)
    return (op, s, r, mk, n)


# ------------------------------------------------------------------------ the real thing
class Target:
    """a fresh cache, driven through its public methods (directly, or through the
    service access point's update_/delete_router_references)"""

    def __init__(self, dom, via_nsap=False):
        self.dom = dom
        self.nsap = None
        if via_nsap:
            self.nsap = NetworkServiceAccessPoint()
            for i, s in enumerate(dom.snets):
                self.nsap.bind(Server(), s, LocalStation(100 + i))
            self.cache = self.nsap.router_info_cache
        else:
            self.cache = RouterInfoCache()

    def apply(self, o):
        """returns the exception the operation raised, or None"""
        op, s, r, mk, n = o
        dom = self.dom
        snet = dom.snets[s]
        addr = LocalStation(dom.macs[r])             # a fresh, equal address every time
        dn = [dom.dnets[k] for k in mk]
        try:
            if op == LEARN:
                if self.nsap:
                    self.nsap.update_router_references(snet, addr, dn)
                else:
                    self.cache.update_router_info(snet, addr, dn)
            elif op == FORGET_ROUTER:
                if self.nsap:
                    self.nsap.delete_router_references(snet, addr)
                else:
                    self.cache.delete_router_info(snet, addr)
            elif op == FORGET_SUB:
                if self.nsap:
                    self.nsap.delete_router_references(snet, addr, dn)
                else:
                    self.cache.delete_router_info(snet, addr, dn)
            elif op == FORGET_DNETS:
                if self.nsap:
                    self.nsap.delete_router_references(snet, dnets=dn)
                else:
                    self.cache.delete_router_info(snet, dnets=dn)
            else:
                self.cache.update_source_network(snet, dom.snets[n])
        except Exception as e:
            return e
        return None

    def observe(self):
        """public lookups only.  returns ({(s, x): router MAC or None}, [coherence problems])"""
        dom, cache = self.dom, self.cache
        obs, probs, walked = {}, [], []
        for key in dom.keys:
            s, x = key
            ri = cache.get_router_info(s, x)
            if ri is None:
                obs[key] = None
                continue
            mac = -1
            for m, a in zip(dom.macs, dom.addrs):
                if ri.address == a:
                    mac = m
            obs[key] = mac
            # "nothing else can": a lookup may only lead to a router credited with x
            if x not in ri.dnets:
                probs.append(("uncredited-lookup", dict(snet=s, dnet=x, router=mac)))
            # "every destination credited to a router can be looked up and leads to it"
            if any(w[0] == s and w[1] is ri for w in walked):
                continue
            walked.append((s, ri))
            for y in ri.dnets:
                r2 = cache.get_router_info(s, y)
                if r2 is None:
                    probs.append(("credited-unreachable", dict(snet=s, dnet=y, router=mac)))
                elif r2.address != ri.address:
                    probs.append(("credited-elsewhere", dict(snet=s, dnet=y, router=mac)))
        return obs, probs

    def representation(self):
        """SECONDARY: the two indexes the property names, when (and only when) they exist
        in the shape the anchors describe; anything else -> no opinion"""
        probs = []
        try:
            routers = getattr(self.cache, 'routers', None)
            paths = getattr(self.cache, 'path_info', None)
            if not isinstance(routers, dict) or not isinstance(paths, dict):
                return []
            # compared by value (address, membership), not by object identity, so that a
            # representation that copies records is not mistaken for an incoherent one
            for (s, x), ri in paths.items():
                listed = routers.get(s, {}).get(ri.address)
                if listed is None:
                    probs.append(("rep-path-to-unlisted-router", dict(snet=s, dnet=x)))
                elif x not in listed.dnets:
                    probs.append(("rep-path-not-credited", dict(snet=s, dnet=x)))
            for s, by_addr in routers.items():
                seen = set()
                for a, ri in by_addr.items():
                    for x in ri.dnets:
                        p = paths.get((s, x))
                        if p is None or p.address != a:
                            probs.append(("rep-credited-without-path", dict(snet=s, dnet=x)))
                        if x in seen:
                            probs.append(("rep-two-next-hops", dict(snet=s, dnet=x)))
                        seen.add(x)
        except Exception:
            return []
        return probs


def step(t, ref, o):
    """apply one operation to the real cache and to the reference and compare.
    returns [(symptom, sig)]; afterwards `ref` equals what the implementation shows"""
    dom = t.dom
    op, s, r, mk, n = o
    before = {k: ref.get(*k) for k in dom.keys}
    exc = t.apply(o)
    obs, coherence = t.observe()
    probs = []
    open_outcome = None
    if op == LEARN:
        ref.learn(dom.snets[s], dom.macs[r], [dom.dnets[k] for k in mk])
    elif op == FORGET_ROUTER:
        ref.forget_router(dom.snets[s], dom.macs[r])
    elif op == FORGET_SUB:
        ref.forget_router_dnets(dom.snets[s], dom.macs[r], [dom.dnets[k] for k in mk])
    elif op == FORGET_DNETS:
        ref.forget_dnets(dom.snets[s], [dom.dnets[k] for k in mk])
    else:
        open_outcome = ref.renumber(dom.snets[s], dom.snets[n])
    if open_outcome is not None:
        # renumbering onto a network that already has knowledge: the statement leaves the
        # combination open (a refusal that changes nothing included); coherence is not open
        moved, kept = open_outcome
        if exc is not None and obs != before:
            probs.append(("raises", dict(exc=type(exc).__name__, msg=str(exc)[:80])))
        elif not renumber_allowed(before, obs, dom.snets[s], dom.snets[n], moved, kept,
                                  dom.dnets + (FOREIGN_DNET,)):
            probs.append(("outcome", dict(before=_show(before), after=_show(obs))))
        ref.adopt(obs)
    elif exc is not None:
        # (c) no operation raises inside its domain; what it left behind must be coherent
        probs.append(("raises", dict(exc=type(exc).__name__, msg=str(exc)[:80])))
    else:
        for k in dom.keys:
            want, got = ref.get(*k), obs[k]
            if want == got:
                continue
            if got is None:
                kind = "lookup-lost"
            elif want is None:
                kind = "lookup-stale"
            else:
                kind = "lookup-wrong-router"
            probs.append((kind, dict(snet=k[0], dnet=k[1], want=want, got=got)))
    probs += coherence
    if not probs:
        # secondary: only when the public behaviour of this step gave no reason to complain
        probs += t.representation()
    if probs:
        ref.adopt(obs)
    return probs


def _show(m):
    return sorted("%d>%d:%s" % (k[0], k[1], v) for k, v in m.items() if v is not None)


class Reporter:
    """d.flag, at most once per violation kind and at most `quota` kinds per operation type
    on one path (every report is replayed twice by the runner; a quota per operation type
    keeps a finding in one operation from using up the reports of another)"""

    def __init__(self, d, quota=3):
        self.d, self.seen, self.quota = d, set(), quota
        self.used = [0] * len(OPNAME)

    def __call__(self, op, probs, seq):
        for symptom, sig in probs:
            kind = OPNAME[op] + "-" + symptom
            if kind in self.seen or self.used[op] >= self.quota:
                continue
            self.seen.add(kind)
            self.used[op] += 1
            self.d.flag(True, kind, seq=list(seq), **sig)


def run_sequences(d, dom, prefix, via_nsap, report):
    """`prefix` is a list of drawn operations.  Checks every step of the prefix, then
    EVERY operation of the domain as the next step (each on a fresh cache brought to the
    same state by the same prefix)."""
    t = Target(dom, via_nsap)
    ref = RefRoutes()
    seq = []
    for o in prefix:
        seq.append(dom.text(o))
        report(o[0], step(t, ref, o), seq)
    for o in dom.all_ops():
        t2 = Target(dom, via_nsap)
        for p in prefix:
            t2.apply(p)
        report(o[0], step(t2, ref.copy(), o), seq + [dom.text(o)])
    d.note(prefix=seq)


BOUNDS_OPS = ("all operation sequences of length <= n from the empty cache over {learn, forget router, forget "
              "some of a router's destinations, forget destinations, renumber source network} x S source "
              "networks x R router addresses x D destination networks (every subset as the list argument; "
              "forget lists non-empty); the first n-1 operations are symbolic selectors, the last operation "
              "is enumerated inside each path (every operation and argument, each on a fresh cache rebuilt "
              "by the same prefix); all lookups over the domain plus one foreign network checked after "
              "every step.  Instances: (n, S, R, D) and the pinned opcode/snet/router of the first operation")
OUTSIDE_OPS = ("longer sequences; larger domains than (S, R, D) of the instance; an empty list as the `dnets` "
               "argument of a forget (the code treats it as 'not given'); status values other than the default; "
               "update_router_status")


@meta(bounds=BOUNDS_OPS, outside=OUTSIDE_OPS, stubs=[], assumes=[])
def ric_ops(d, n, S, R, D, fix=(), via_nsap=False):
    dom = Dom(S, R, D)
    report = Reporter(d)
    prefix = [draw_op(d, i, dom, fix if i == 0 else ()) for i in range(n - 1)]
    with untraced(d):
        run_sequences(d, dom, prefix, via_nsap, report)
    d.reach()


@meta(bounds="pre-state = the cache after k symbolic learn operations (every snet, router and subset of the "
             "instance's domain); then every operation of the domain as the one step (enumerated inside each "
             "path on a fresh cache in the same state); oracle as ric_ops.  The pre-state is built through the "
             "public API, so every counterexample is a complete history",
      outside="pre-states that need forgetting or renumbering to be reached (ric_ops covers the short ones)",
      stubs=[], assumes=[])
def ric_step(d, k, S, R, D, fix=()):
    dom = Dom(S, R, D)
    report = Reporter(d)
    prefix = [draw_op(d, i, dom, (LEARN,) + tuple(fix if i == 0 else ())) for i in range(k)]
    with untraced(d):
        run_sequences(d, dom, prefix, False, report)
    d.reach()


# ------------------------------------------------------------------------ on the wire
from bacpypes.vlan import Network, Node
from bacpypes.apdu import UnconfirmedRequestPDU

NODE_MAC, SNIFF_MAC, TD_MAC = 1, 9, 5
W_ROUTERS = (2, 3)                  # two router stations on the node's LAN
W_DNETS = (11, 12, 13)              # destination networks behind them
W_NETS = (1, 2)                     # what Network-Number-Is may call the node's own LAN
F_IAM, F_SADR, F_NNI = range(3)
FRAME = ("i-am-router", "routed-traffic", "network-number-is")


class _Sink(Client):
    def __init__(self, keep=None):
        Client.__init__(self)
        self.keep = keep

    def confirmation(self, pdu):
        if self.keep is not None:
            self.keep.append(pdu)


class Lan:
    """node under test (NSAP + NSE) + two router stations + a promiscuous listener on one
    bacpypes.vlan.Network, real event loop on the virtual clock.  With `router` the node
    has a second adapter (network 1) on a second LAN where a test device sits; the LAN
    with the router stations is then its configured network 2."""

    def __init__(self, net0, router=False):
        from ..world import World       # (needs asyncore: only the wire harness pays for it)
        learned = net0 == "learned"
        if learned:
            net0 = None
        self.world = World()
        self.lan = Network(name="lan", broadcast_address=LocalBroadcast())
        self.nsap = NetworkServiceAccessPoint()
        self.nse = NetworkServiceElement()
        bind(self.nse, self.nsap)
        self.node = Node(LocalStation(NODE_MAC), self.lan)
        self.nsap.bind(self.node, 2 if router else net0, LocalStation(NODE_MAC))
        self.td = None
        if router:
            self.lan_a = Network(name="lanA", broadcast_address=LocalBroadcast())
            self.nsap.bind(Node(LocalStation(NODE_MAC), self.lan_a), 1, LocalStation(NODE_MAC))
            self.td = Node(LocalStation(TD_MAC), self.lan_a)
            bind(_Sink(), self.td)
        self.stations = {}
        for m in W_ROUTERS:
            n = Node(LocalStation(m), self.lan)
            bind(_Sink(), n)
            self.stations[m] = n
        self.heard = []
        bind(_Sink(self.heard), Node(LocalStation(SNIFF_MAC), self.lan, promiscuous=True))
        self.world.run()                  # the service element's deferred startup
        if learned:
            # pre-history: the node heard its network number (1) on the wire
            self.inject(W_ROUTERS[0], bytes(frame_network_number_is(W_NETS[0], False)), True)

    def inject(self, mac, octets, broadcast):
        dest = LocalBroadcast() if broadcast else LocalStation(NODE_MAC)
        self.stations[mac].indication(PDU(octets, destination=dest))
        self.world.run()

    def emitted(self, since):
        """frames the node under test put on the LAN after position `since`"""
        me = LocalStation(NODE_MAC)
        return [p for p in self.heard[since:] if p.pduSource == me]


def draw_frame(d, i, fix=()):
    """(type, router station, destination-net subset / revealed net index, own-net index)"""
    ft = fix[0] if len(fix) > 0 else d.index(3, 'f%d' % i)
    if ft == F_NNI:
        return (ft, W_ROUTERS[0], (), d.index(len(W_NETS), 'n%d' % i))
    r = fix[1] if len(fix) > 1 else d.index(len(W_ROUTERS), 'r%d' % i)
    if ft == F_IAM:
        mk = tuple([k for k in range(len(W_DNETS)) if d.bool('d%d_%d' % (i, k))])
        return (ft, W_ROUTERS[r], mk, 0)
    return (ft, W_ROUTERS[r], (d.index(len(W_DNETS), 'x%d' % i),), 0)


def frame_text(f):
    ft, mac, mk, n = f
    if ft == F_NNI:
        return "network-number-is(%d)" % W_NETS[n]
    return "%s(from station %d, %r)" % (FRAME[ft], mac, [W_DNETS[k] for k in mk])


@meta(bounds="one node (NSAP + NSE; one adapter with own network number unknown, configured, or learned from an "
             "earlier Network-Number-Is, or a two-adapter router whose probe packets arrive from a station on "
             "its other LAN = instance) on a "
             "bacpypes.vlan.Network with two router stations; EXACTLY n frames (instances for every n up to the "
             "tier's bound), each a symbolic choice of I-Am-Router-To-Network (either station, every subset "
             "of 3 destination networks), routed application traffic whose SADR reveals one of the 3 networks "
             "(either station; SADR station octet, and in the `sym` instances the APDU octets, symbolic), or a "
             "broadcast Network-Number-Is (2 numbers, flag symbolic in `sym` instances); afterwards one "
             "packet to a station (octet symbolic in `sym` instances) on each of the 3 networks",
      outside="more frames; more stations / networks; routers with more than two adapters; Network-Number-Is that "
              "renames the LAN to a number also used as destination; destination networks equal to the node's own",
      stubs=["virtual clock + real core.run (vf/world.py)"],
      assumes=["frames are delivered by bacpypes.vlan in the order sent, none lost"])
def ric_wire(d, n, net0=None, fix=(), sym=False, router=False):
    frames = [draw_frame(d, i, fix if i == 0 else ()) for i in range(n)]
    if sym:
        sadr = d.bytes(1, name='sadr')
        flag = d.int(0, 1, 'flag')
        apdu_tail = d.bytes(1, name='tail')
        dst = d.int(0, 255, 'station')
        return _wire(d, frames, net0, router, sadr, flag, apdu_tail, dst)
    with untraced(d):
        return _wire(d, frames, net0, router, b'\x05', 0, b'\x7e', 4)


def _wire(d, frames, net0, router, sadr, flag, tail, dst):
    lan = Lan(net0, router)
    ref = {}                                   # destination net -> router station
    seq = []
    for f in frames:
        ft, mac, mk, n = f
        seq.append(frame_text(f))
        nets = [W_DNETS[k] for k in mk]
        logged = len(d.errors_logged())
        if ft == F_IAM:
            lan.inject(mac, bytes(frame_i_am_router(nets)), True)
            for x in nets:
                ref[x] = mac                   # newest announcement wins
        elif ft == F_SADR:
            lan.inject(mac, bytes(routed_head(nets[0], 1)) + sadr + b'\x10\x08', False)
            ref[nets[0]] = mac                 # traffic from that network came through `mac`
        else:
            lan.inject(mac, bytes(frame_network_number_is(W_NETS[n], False)[:-1]) + bytes([flag]), True)
        new = d.errors_logged()[logged:]
        d.flag(len(new) > 0, "wire-frame-processing-error", seq=list(seq), errors=[list(e) for e in new])
    d.note(frames=seq)
    # traffic sent afterwards follows the current knowledge
    for k, x in enumerate(W_DNETS):
        payload = b'\x10\x08' + bytes([0xA0 + k]) + tail
        mark = len(lan.heard)
        logged = len(d.errors_logged())
        try:
            if router:
                # a station on the other LAN hands the router a packet for (x, dst)
                lan.td.indication(PDU(bytes(routed_to_head(x, 1)) + bytes([dst]) + b'\xff' + payload,
                                      destination=LocalStation(NODE_MAC)))
            else:
                apdu = UnconfirmedRequestPDU(8)
                apdu.put_data(bytes([0xA0 + k]) + tail)
                apdu.pduDestination = RemoteStation(x, dst)
                lan.nsap.indication(apdu)
            lan.world.run()
        except Exception as e:
            d.flag(True, "wire-send-raises", seq=list(seq), dnet=x, exc=type(e).__name__, msg=str(e)[:80])
            continue
        new = d.errors_logged()[logged:]
        d.flag(len(new) > 0, "wire-send-processing-error", seq=list(seq), dnet=x, errors=[list(e) for e in new])
        want = ref.get(x)
        carried, asked = [], False
        for p in lan.emitted(mark):
            h = parse_frame(p.pduData)
            if h is None:
                continue                       # not a network-layer frame: header codecs are C08's subject
            if h['msg'] is None and bytes(h['body']) == bytes(payload):
                carried.append((p, h))
            elif h['msg'] == 0 and h['body'] == [x // 256, x % 256] and p.pduDestination == LocalBroadcast():
                asked = True
        if want is None:
            # no knowledge: the packet may not be handed to anybody; the node asks who routes
            d.flag(len(carried) > 0, "wire-sent-without-route", seq=list(seq), dnet=x)
            d.flag(not asked, "wire-no-route-no-query", seq=list(seq), dnet=x)
        else:
            d.flag(len(carried) == 0, "wire-not-sent", seq=list(seq), dnet=x, want=want)
            for p, h in carried:
                if p.pduDestination != LocalStation(want):
                    d.flag(True, "wire-wrong-next-hop", seq=list(seq), dnet=x, want=want, got=str(p.pduDestination))
                elif h['dnet'] != x:
                    d.flag(True, "wire-wrong-destination-network", seq=list(seq), dnet=x, got_dnet=h['dnet'])
    d.reach()


def _parts(dom, depth):
    """pinned (opcode[, snet[, router]]) of the first operation; depth per opcode"""
    S, R, D = dom
    out = []
    for op in range(5):
        dp = depth[op]
        if dp == 0:
            out.append((op,))
        elif dp == 1 or op in (FORGET_DNETS, RENUMBER):
            out += [(op, s) for s in range(S)]
        else:
            out += [(op, s, r) for s in range(S) for r in range(R)]
    return out


def _label(n, dom, fix):
    t = "n=%d,dom=%dx%dx%d" % ((n,) + tuple(dom))
    if fix:
        t += ",first=" + OPNAME[fix[0]] + "".join("/%d" % v for v in fix[1:])
    return t


def _ops(out, n, dom, depth, budget):
    for fix in _parts(dom, depth):
        out.append(Inst(ric_ops, dict(n=n, S=dom[0], R=dom[1], D=dom[2], fix=list(fix)),
                        budget=budget, label=_label(n, dom, fix)))


def _steps(out, k, dom, budget, by_router=True):
    for s in range(dom[0]):
        for r in (range(dom[1]) if by_router else [None]):
            fix = [s] if r is None else [s, r]
            out.append(Inst(ric_step, dict(k=k, S=dom[0], R=dom[1], D=dom[2], fix=fix), budget=budget,
                            label="k=%d,dom=%dx%dx%d,first=%s" % (k, dom[0], dom[1], dom[2],
                                                                  "/".join(str(v) for v in fix))))


def _wires(out, n, net0, sym, budget, split):
    router = net0 == "router"
    base = dict(n=n, net0=2 if router else net0, sym=sym, router=router)
    tag = "n=%d,%s,%s" % (n, "router" if router else "net0=%s" % net0, "sym" if sym else "plain")
    if not split:
        out.append(Inst(ric_wire, base, budget=budget, label=tag))
        return
    for fix in [(F_IAM, 0), (F_IAM, 1), (F_SADR, 0), (F_SADR, 1), (F_NNI,)]:
        out.append(Inst(ric_wire, dict(base, fix=list(fix)), budget=budget,
                        label=tag + ",first=" + FRAME[fix[0]] + "".join("/%d" % v for v in fix[1:])))


@meta(bounds="a node with an application and TWO adapters (networks 1 and 2, bound in symbolic order - the one bound last is the "
             "'local' one); a router station on network 1 or 2 (symbolic) announces destination network 30 or 31 (symbolic) with "
             "I-Am-Router-To-Network; the application then sends a unicast to a station of that network: exactly one frame, on "
             "the network the router was heard on, addressed to that router, with the destination network in its header - and "
             "nothing on the other network",
      outside="more than two adapters; several announcements (ric_wire)",
      stubs=["bacpypes.vlan.Network (real) as the medium; deferred deliveries run by core.run_once-style draining"], assumes=[])
def app_on_two_nets(d):
    from ..world import World
    from ..ref import wire as _wire_ref
    w = World()
    lans = {1: Network(name="n1", broadcast_address=LocalBroadcast()), 2: Network(name="n2", broadcast_address=LocalBroadcast())}
    seen = {1: [], 2: []}
    for k in (1, 2):
        def tap(pdu, k=k, orig=lans[k].process_pdu):
            seen[k].append((pdu.pduSource, pdu.pduDestination, bytes(pdu.pduData)))
            return orig(pdu)
        lans[k].process_pdu = tap
    nsap = NetworkServiceAccessPoint()
    nse = NetworkServiceElement()
    nse._startup_disabled = True
    bind(nse, nsap)
    app = Client()
    app.confirmation = lambda pdu: None
    bind(app, nsap)
    order = d.pick([(1, 2), (2, 1)], 'bind_order')
    for net in order:
        nsap.bind(Node(LocalStation(9), lans[net]), net, LocalStation(9))
    heard_on = d.pick([1, 2], 'router_on_network')
    dnet = d.pick([30, 31], 'destination_network')
    router = Client()
    router.confirmation = lambda pdu: None
    bind(router, Node(LocalStation(50), lans[heard_on]))
    router.request(PDU(bytes([0x01, 0x80, 0x01, dnet >> 8, dnet & 255]), destination=LocalBroadcast()))
    w.run()
    for k in (1, 2):
        del seen[k][:]
    req = UnconfirmedRequestPDU(8)
    req.put_data(b"\x5a")
    req.pduDestination = RemoteStation(dnet, 5)
    app.request(req)
    w.run()
    other = 2 if heard_on == 1 else 1
    data_frames = {k: [(s_, dd, x) for (s_, dd, x) in seen[k] if not _wire_ref.parse_npdu(x)["net_msg"]] for k in (1, 2)}
    if len(data_frames[heard_on]) != 1 or data_frames[other]:
        raise Violation("app-frame-on-wrong-network", heard_on=heard_on, bind_order=list(order),
                        frames={str(k): len(v) for k, v in data_frames.items()})
    s_, dd, x = data_frames[heard_on][0]
    n = _wire_ref.parse_npdu(x)
    if dd != LocalStation(50) or n["dnet"] != dnet or n["dadr"] != bytes([5]):
        raise Violation("app-frame-misaddressed", to=str(dd), dnet=n["dnet"])
    d.reach()


def instances(tier):
    q = tier == "quick"
    out = []
    out.append(Inst(app_on_two_nets, {}, budget=90))
    FULL = (2, 3, 4)
    # sequences from the empty cache
    out.append(Inst(ric_ops, dict(n=2, S=2, R=3, D=4), budget=60, label="n=2,dom=2x3x4"))
    out.append(Inst(ric_ops, dict(n=2, S=2, R=2, D=2, via_nsap=True), budget=60, label="n=2,dom=2x2x2,via_nsap"))
    if q:
        _ops(out, 3, (2, 3, 3), (2, 0, 2, 1, 0), 90)
    else:
        _ops(out, 3, FULL, (2, 1, 2, 1, 1), 300)
        _ops(out, 4, (2, 3, 2), (2, 1, 2, 1, 1), 450)
        _ops(out, 5, (2, 2, 1), (2, 1, 2, 1, 1), 700)
    # one step from a learned state
    if q:
        _steps(out, 2, (2, 2, 4), 120)
    else:
        _steps(out, 2, FULL, 200)
        _steps(out, 3, (2, 2, 3), 300)
    # the same through real frames
    for net0 in (None, 1, "learned", "router"):
        for n in (1, 2):
            _wires(out, n, net0, False, 60, False)
        _wires(out, 1, net0, True, 60, False)
        if not q:
            _wires(out, 3, net0, False, 300, True)
            _wires(out, 2, net0, True, 200, True)
    return out
