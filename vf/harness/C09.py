"""C09 - BACnet/IP frames carry a correct length and round-trip all twelve functions.

Observation points (property `observe_at`): the octets that arrive at a Server bound
*below* the real `AnnexJCodec`, what arrives at a Client bound *above* it, and
`BVLPDU.encode/decode` with the twelve message classes used directly.
"""
from ..api import HarnessError, Inst, Violation, meta
from ..ref import C09_annexj as R

from bacpypes.comm import Client, Server, bind
from bacpypes.pdu import PDU, Address, pack_ip_addr, unpack_ip_addr
from bacpypes import bvll as B
from bacpypes.bvllservice import AnnexJCodec

_bad = R.selftest()
if _bad:
    raise HarnessError("Annex J reference model disagrees with the test suite's literal frames: %r" % (_bad,))

# function code -> the class Annex J names for it (looked up by name, not via the registry)
CLASSES = [getattr(B, name) for name in R.NAMES]
TABLE_FNS = (R.WRITE_BDT, R.READ_BDT_ACK, R.READ_FDT_ACK)
FIXED_FNS = (R.RESULT, R.READ_BDT, R.REGISTER_FD, R.READ_FDT, R.DELETE_FDT_ENTRY)


# ------------------------------------------------------------------ capture around the codec
class Below(Server):
    def __init__(self):
        Server.__init__(self)
        self.got = []

    def indication(self, pdu):
        self.got.append(pdu)


class Above(Client):
    def __init__(self):
        Client.__init__(self)
        self.got = []

    def confirmation(self, pdu):
        self.got.append(pdu)


def stack():
    above, codec, below = Above(), AnnexJCodec(), Below()
    bind(above, codec, below)
    return above, below


def emit(msg):
    """message -> AnnexJCodec.indication -> (octets seen below the codec, None) | (None, exc)"""
    above, below = stack()
    try:
        above.request(msg)
    except Exception as e:
        if below.got:
            raise Violation("emitted-and-raised", exc=type(e).__name__)
        return None, e
    if len(below.got) != 1:
        raise Violation("emit-count", n=len(below.got))
    return bytes(below.got[0].pduData), None


def receive(octets):
    """datagram -> AnnexJCodec.confirmation -> (message seen above the codec, None) | (None, exc)"""
    above, below = stack()
    try:
        below.response(PDU(octets))
    except Exception as e:
        if above.got:
            raise Violation("delivered-and-raised", exc=type(e).__name__)
        return None, e
    if len(above.got) != 1:
        raise Violation("deliver-count", n=len(above.got))
    return above.got[0], None


def direct_decode(octets):
    """the same through BVLPDU.decode and the registered message class"""
    try:
        b = B.BVLPDU()
        b.decode(PDU(octets))
        z = B.bvl_pdu_types[b.bvlciFunction]()
        z.decode(b)
    except Exception as e:
        return None, e
    return z, None


def direct_encode(msg):
    try:
        b = B.BVLPDU()
        msg.encode(b)
        pdu = PDU()
        b.encode(pdu)
    except Exception as e:
        return None, e
    return bytes(pdu.pduData), None


# ------------------------------------------------------------------ parameters and messages
def filler_entry(i):
    """concrete table entry i (all different): six octets, mask, ttl, remaining"""
    six = bytes([10, i % 256, 255 - i % 256, (37 * i) % 256] + R.u16(47808 + i))
    # masks: prefix masks of every length for even i, arbitrary bit patterns (not a run of leading ones) for odd i
    mask = (0xFFFFFFFF << ((i // 2) % 33)) % 4294967296 if i % 2 == 0 else (0x9E3779B1 * (i + 1)) % 4294967296
    return six, mask, 30 + 1000 * i, 65535 - 999 * i


def draw_params(d, fn, n, paylo, payhi, fill=0, sym=None, forms=False, lens=None):
    """free parameters of function fn: table of n entries (sym = None: every entry
    symbolic, else only the entries whose index is in sym, the others are concrete
    fillers), NPDU of paylo..payhi octets (fill > 0: only `fill` octets spread over the
    payload - first, last, equidistant - are free, the rest is a pattern; lens: the length
    is one of this list instead of payhi).  forms: also vary how the caller hands over a
    single address / the NPDU."""
    p = {}
    if fn == R.RESULT:
        p['code'] = d.int(0, 0xFFFF, 'code')
    elif fn in R.HAS_BDT:
        p['bdt'] = []
        for i in range(n):
            if sym is None or i in sym:
                p['bdt'].append((d.bytes(6, None, 'addr%d' % i), d.int(0, 0xFFFFFFFF, 'mask%d' % i)))
            else:
                p['bdt'].append(filler_entry(i)[:2])
    elif fn == R.REGISTER_FD:
        p['ttl'] = d.int(0, 0xFFFF, 'ttl')
    elif fn == R.READ_FDT_ACK:
        p['fdt'] = []
        for i in range(n):
            if sym is None or i in sym:
                p['fdt'].append((d.bytes(6, None, 'addr%d' % i), d.int(0, 0xFFFF, 'ttl%d' % i),
                                 d.int(0, 0xFFFF, 'remain%d' % i)))
            else:
                f = filler_entry(i)
                p['fdt'].append((f[0], f[2], f[3]))
    if fn in (R.FORWARDED_NPDU, R.DELETE_FDT_ENTRY):
        if forms:
            p['addr'], p['addr_form'] = draw_single_addr(d)
        else:
            p['addr'] = d.bytes(6, None, 'addr')
    if fn in R.HAS_NPDU:
        if fill:
            if lens:
                payhi = d.pick(lens, 'npdu_len')
            if payhi <= fill:
                p['npdu'] = d.bytes(payhi, None, 'npdu_free')
            else:
                free = d.bytes(fill, None, 'npdu_free')
                body = [(7 * i + 3) % 256 for i in range(payhi)]
                step = (payhi - 1) // (fill - 1)
                for k in range(fill - 1):
                    body[k * step] = free[k]
                body[payhi - 1] = free[fill - 1]
                p['npdu'] = bytes(body)
        else:
            p['npdu'] = d.bytes(paylo, payhi, 'npdu')
        if forms:
            # the library's own callers pass the NPDU as a PDU object (copy constructor form)
            p['from_pdu'] = d.bool('from_pdu')
    return p


def mk_addr(six, form='tuple'):
    """an Address for six B/IP octets.  'tuple': from the (IPv4 as integer, port) tuple form -
    the only constructor form that runs on symbolic IPv4 octets (Address(bytes) computes
    `ip & ~mask` with a negative constant, which makes the engine enumerate values;
    Address(text) needs the digits).  'octets' / 'text' are used with literal IPv4 octets
    and a symbolic port."""
    if form == 'octets':
        return Address(six)
    if form == 'text':
        return Address(("%d.%d.%d.%d" % (six[0], six[1], six[2], six[3]), R.n16(six, 4)))
    return Address((R.n32(six, 0), R.n16(six, 4)))


ADDR_LITERALS = [(192, 168, 0, 254), (0, 0, 0, 0), (255, 255, 255, 255)]


def draw_single_addr(d):
    """six octets + the constructor form: all octets symbolic (tuple form), or a literal
    IPv4 address with a symbolic port through the octets / dotted text forms"""
    form = d.pick(['tuple', 'octets', 'text'], 'addr_form')
    if form == 'tuple':
        return d.bytes(6, None, 'addr'), form
    ip = d.pick(ADDR_LITERALS, 'addr_ip')
    port = d.int(0, 0xFFFF, 'addr_port')
    return bytes(list(ip) + R.u16(port)), form


def build(fn, p):
    k = CLASSES[fn]
    if fn == R.RESULT:
        return k(p['code'])
    if fn in R.HAS_BDT:
        bdt = []
        for i, (six, mask) in enumerate(p['bdt']):
            a = mk_addr(six)
            a.addrMask = mask
            bdt.append(a)
        return k(bdt)
    npdu = p.get('npdu')
    if p.get('from_pdu'):
        npdu = PDU(npdu)
    if fn == R.FORWARDED_NPDU:
        return k(mk_addr(p['addr'], p.get('addr_form', 'tuple')), npdu)
    if fn == R.REGISTER_FD:
        return k(p['ttl'])
    if fn == R.READ_FDT_ACK:
        fdt = []
        for i, (six, ttl, remain) in enumerate(p['fdt']):
            e = B.FDTEntry()
            e.fdAddress = mk_addr(six)
            e.fdTTL = ttl
            e.fdRemain = remain
            fdt.append(e)
        return k(fdt)
    if fn == R.DELETE_FDT_ENTRY:
        return k(mk_addr(p['addr'], p.get('addr_form', 'tuple')))
    if fn in R.HAS_NPDU:
        return k(npdu)
    return k()


def addr_is(a, six):
    return isinstance(a, Address) and a.addrType == Address.localStationAddr \
        and a.addrAddr is not None and bytes(a.addrAddr) == bytes(six)


def check_restored(fn, p, y, via):
    """the decoded message y carries the parameters p"""
    def bad(what, **kw):
        raise Violation("param-restored", fn=fn, what=what, via=via, **kw)
    if not isinstance(y, CLASSES[fn]):
        raise Violation("wrong-class", fn=fn, got=type(y).__name__, via=via)
    if y.bvlciFunction != fn:
        bad("bvlciFunction", got=y.bvlciFunction)
    if fn == R.RESULT:
        if y.bvlciResultCode != p['code']:
            bad("result-code", got=y.bvlciResultCode, want=p['code'])
    elif fn in R.HAS_BDT:
        if len(y.bvlciBDT) != len(p['bdt']):
            bad("bdt-size", got=len(y.bvlciBDT), want=len(p['bdt']))
        for i, (six, mask) in enumerate(p['bdt']):
            e = y.bvlciBDT[i]
            if not addr_is(e, six):
                bad("bdt-address", i=i, got=getattr(e, 'addrAddr', None), want=six)
            if e.addrMask != mask:
                bad("bdt-mask", i=i, got=e.addrMask, want=mask)
    elif fn == R.REGISTER_FD:
        if y.bvlciTimeToLive != p['ttl']:
            bad("ttl", got=y.bvlciTimeToLive, want=p['ttl'])
    elif fn == R.READ_FDT_ACK:
        if len(y.bvlciFDT) != len(p['fdt']):
            bad("fdt-size", got=len(y.bvlciFDT), want=len(p['fdt']))
        for i, (six, ttl, remain) in enumerate(p['fdt']):
            e = y.bvlciFDT[i]
            if not addr_is(e.fdAddress, six):
                bad("fdt-address", i=i, got=getattr(e.fdAddress, 'addrAddr', None), want=six)
            if e.fdTTL != ttl:
                bad("fdt-ttl", i=i, got=e.fdTTL, want=ttl)
            if e.fdRemain != remain:
                bad("fdt-remaining", i=i, got=e.fdRemain, want=remain)
    if fn in (R.FORWARDED_NPDU, R.DELETE_FDT_ENTRY):
        if not addr_is(y.bvlciAddress, p['addr']):
            bad("address", got=getattr(y.bvlciAddress, 'addrAddr', None), want=p['addr'])
    if fn in R.HAS_NPDU:
        if bytes(y.pduData) != bytes(p['npdu']):
            bad("npdu", got_len=len(y.pduData), want_len=len(p['npdu']))


def check_header(fn, octets, via):
    """what the statement says of every frame the library produces"""
    if len(octets) < 4:
        raise Violation("frame-short", fn=fn, got=octets, via=via)
    if octets[0] != 0x81:
        raise Violation("type-octet", fn=fn, got=octets[0], via=via)
    if octets[1] != fn:
        raise Violation("function-octet", fn=fn, got=octets[1], via=via)
    field = octets[2] * 256 + octets[3]
    if field != len(octets):
        raise Violation("length-field", fn=fn, field=field, emitted=len(octets), via=via)


def check_body(fn, octets, p, via):
    """the octets after the header are the Annex J fields of p, in order, and nothing else.
    Compared in two pieces (fixed-layout fields, then the NPDU): one small solver query
    each; only on a mismatch the fields are walked to name the first one that differs."""
    segs = R.fields(fn, p)
    has_npdu = bool(segs) and segs[-1][0] == 'npdu'
    head = b''
    for name, seg in (segs[:-1] if has_npdu else segs):
        head = head + seg
    end = 4 + len(head)
    if has_npdu:
        ok = octets[4:end] == head and octets[end:] == segs[-1][1]
    else:
        ok = octets[4:] == head
    if ok:
        return
    off = 4
    for name, seg in segs:
        got = octets[off:] if name == 'npdu' else octets[off:off + len(seg)]
        if got != seg:
            raise Violation("body-layout", fn=fn, field=name, offset=off, got=got, want=seg, via=via)
        off += len(seg)
    raise Violation("body-layout", fn=fn, field="(trailing octets)", offset=off, got=octets[off:], want=b'', via=via)


# ------------------------------------------------------------------ harnesses
@meta(bounds="one instance per function code 0..11 and shape. Symbolic: result code, TTL, remaining time 0..65535, "
             "every octet of every six-octet B/IP address (IPv4 + port), 32-bit masks 0..2^32-1. BDT/FDT size: "
             "Q 0,1,2 (every entry symbolic) and 40 (entries 0,1,20,39 symbolic, the others distinct concrete "
             "fillers); T 0..4 and 8 (every entry symbolic), 40 (12 entries symbolic) and every size 0..40 with "
             "first and last entry symbolic. NPDU: Q 0..6 octets and T 0..16, 240..256 octets with length and "
             "every octet symbolic; Q 18 boundary lengths 7..1476 (powers of two, frame length crossing 255/256, "
             "Ethernet-sized), 1400 and 1497 with 8 symbolic octets (first, last, equidistant) in a fixed "
             "pattern without short period; T 1400 and 1497 with "
             "200 symbolic octets, and EVERY length 0..1497 with 8 symbolic octets in the pattern (all octets "
             "symbolic below 9). Table addresses are built from the (integer IPv4, port) tuple form; single "
             "addresses (Forwarded-NPDU, Delete-FDT-Entry) also from literal IPv4 octets / dotted text "
             "(192.168.0.254, 0.0.0.0, 255.255.255.255) with a symbolic port; the NPDU is handed over as octets "
             "and as a PDU object. Each message goes through AnnexJCodec.indication/confirmation and through the "
             "class encode/decode + BVLPDU.encode/decode",
      outside="tables above 40 entries; tables of 5..7, 9..39 entries with more than two symbolic entries; NPDU "
              "content other than pattern + listed symbolic octets for lengths above 16 (the codec copies the "
              "NPDU, it does not interpret it); NPDU longer than 1497; Address(bytes) and Address(text) "
              "constructor forms on symbolic IPv4 octets (engine limits, see mk_addr); parameters outside their "
              "field width (the encoder masks them)",
      stubs=["socket.inet_aton/inet_ntoa (opaque dotted quad of symbolic octets)"],
      assumes=[])
def bvll_rt(d, fn, n=0, nhi=None, sym=None, paylo=0, payhi=0, fill=0, lens=None, lenrange=None, forms=True):
    if nhi is not None:
        n = d.pick(range(n, nhi + 1), 'n')
    if sym == 'ends':
        sym = [0, n - 1]
    if lenrange:
        lens = range(lenrange[0], lenrange[1] + 1)
    p = draw_params(d, fn, n, paylo, payhi, fill, sym, forms=forms, lens=lens)

    # down through the real codec: what is emitted below it
    octets, exc = emit(build(fn, p))
    if exc is not None:
        raise Violation("encode-refused", fn=fn, exc=type(exc).__name__, via="codec")
    check_header(fn, octets, "codec")
    check_body(fn, octets, p, "codec")

    # those octets up through the real codec: what is delivered above it
    y, exc = receive(octets)
    if exc is not None:
        raise Violation("own-frame-refused", fn=fn, exc=type(exc).__name__, via="codec")
    check_restored(fn, p, y, "codec")

    # the message classes and BVLPDU directly
    o2, exc = direct_encode(build(fn, p))
    if exc is not None:
        raise Violation("encode-refused", fn=fn, exc=type(exc).__name__, via="direct")
    check_header(fn, o2, "direct")
    check_body(fn, o2, p, "direct")
    b = B.BVLPDU()
    try:
        b.decode(PDU(o2))
        z = CLASSES[fn]()
        z.decode(b)
    except Exception as e:
        raise Violation("own-frame-refused", fn=fn, exc=type(e).__name__, via="direct")
    if b.bvlciType != 0x81 or b.bvlciFunction != fn or b.bvlciLength != len(o2):
        raise Violation("header-restored", fn=fn, type=b.bvlciType, function=b.bvlciFunction,
                        length=b.bvlciLength, want_length=len(o2))
    check_restored(fn, p, z, "direct")
    d.reach()


@meta(bounds="one instance per function code; a well-formed message object (table of 0..2 entries, NPDU of 0..3 "
             "octets, parameters symbolic) is tampered with before it is sent: declared bvlciLength replaced by "
             "any 16-bit value, and/or its table / NPDU replaced after construction by one of another size "
             "(0..3 entries, 0..4 octets); sent through AnnexJCodec.indication and through the class encode + "
             "BVLPDU.encode",
      outside="other ways of corrupting a message object (wrong attribute types, tables with non-address members)",
      stubs=["socket.inet_aton/inet_ntoa (opaque dotted quad of symbolic octets)"],
      assumes=[])
def bvll_length_guard(d, fn):
    sized = fn in TABLE_FNS or fn in R.HAS_NPDU
    n = d.index(3, 'n') if fn in TABLE_FNS else 0
    x = build(fn, draw_params(d, fn, n, 0, 3))
    tamper = d.pick(['declared', 'content', 'both'] if sized else ['declared'], 'tamper')
    if tamper != 'declared':
        m = d.index(4, 'n2') if fn in TABLE_FNS else 0
        x2 = build(fn, draw_params(d, fn, m, 0, 4))
        if fn in R.HAS_BDT:
            x.bvlciBDT = x2.bvlciBDT
        elif fn == R.READ_FDT_ACK:
            x.bvlciFDT = x2.bvlciFDT
        else:
            x.pduData = x2.pduData
    if tamper != 'content':
        x.bvlciLength = d.int(0, 0xFFFF, 'declared')
    # either nothing is sent (an exception), or what is sent has a true header
    octets, exc = emit(x)
    if exc is None:
        check_header(fn, octets, "codec")
    o2, exc2 = direct_encode(x)
    if exc2 is None:
        check_header(fn, o2, "direct")
    d.note(tamper=tamper, emitted=exc is None, emitted_direct=exc2 is None)
    d.reach()


@meta(bounds="a BVLPDU with any content of 0..maxlen octets, any function octet 0..255 and any declared "
             "bvlciLength 0..65535: BVLPDU.encode emits exactly when the declared length is content + 4, and then "
             "the header is 0x81, function, that length",
      outside="content longer than maxlen", stubs=[], assumes=[])
def bvlpdu_length_guard(d, maxlen):
    data = d.bytes(0, maxlen, 'data')
    f = d.int(0, 255, 'function')
    declared = d.int(0, 0xFFFF, 'declared')
    b = B.BVLPDU(data)
    b.bvlciFunction = f
    b.bvlciLength = declared
    pdu = PDU()
    try:
        b.encode(pdu)
    except Exception as e:
        if declared == len(data) + 4:
            raise Violation("consistent-refused", declared=declared, data=data, exc=type(e).__name__)
        d.reach()
        return
    if declared != len(data) + 4:
        raise Violation("inconsistent-emitted", declared=declared, data=data, got=bytes(pdu.pduData))
    if bytes(pdu.pduData) != bytes([0x81, f] + R.u16(len(data) + 4)) + data:
        raise Violation("bvlpdu-layout", data=data, function=f, got=bytes(pdu.pduData))
    d.reach()


def draw_datagram(d, lo, hi, part):
    """any datagram of lo..hi octets.  part 0..11: at least two octets, the function octet
    is that code and concrete (the registry is a dict of classes: the engine cannot call a
    class selected by a symbolic key), everything else free.  part 12: the function octet
    is any of 12..255, or the datagram is shorter than two octets."""
    if part < 12:
        t = d.int(0, 255, 'type')
        rest = d.bytes(max(lo - 2, 0), hi - 2, 'rest')
        return bytes([t, part]) + rest
    data = d.bytes(lo, hi, 'octets')
    d.assume(len(data) < 2 or data[1] >= 12)
    return data


def reencode_rule(d, y, data, strict, fn):
    """y was delivered for datagram `data`.  strict (data is a well-formed Annex J frame):
    sending y again reproduces data.  Otherwise the statement only speaks about frames the
    library produces: if y can be sent at all, the frame has a true header."""
    o, exc = emit(y)
    if strict:
        if exc is not None:
            raise Violation("reencode-refused", data=data, exc=type(exc).__name__)
        if o != bytes(data):
            raise Violation("reencode-differs", data=data, got=o)
    elif exc is None:
        if len(o) < 4 or o[0] != 0x81 or o[2] * 256 + o[3] != len(o):
            raise Violation("reencode-bad-header", data=data, got=o)
        d.note(lenient_accept=True)


@meta(bounds="every datagram of 0..n octets, length and content symbolic, partitioned into instances by the "
             "function octet (one per code 0..11 with its own n, one for codes 12..255 and datagrams shorter "
             "than two octets); both through AnnexJCodec.confirmation and through BVLPDU.decode + the "
             "registered class",
      outside="datagrams longer than n (header disagreement on longer datagrams: `bvll_header_guard`)",
      stubs=["socket.inet_aton/inet_ntoa (opaque dotted quad of symbolic octets)"],
      assumes=[])
def bvll_decode_total(d, n, part):
    data = draw_datagram(d, 0, n, part)
    ref = R.parse(data)
    y, exc = receive(data)
    z, exc2 = direct_decode(data)
    if (exc is None) != (exc2 is None):
        raise Violation("paths-disagree", data=data, codec=type(exc).__name__, direct=type(exc2).__name__)
    d.note(ref=ref[0], accepted=exc is None)
    if ref[0] == 'header':
        # "A received frame whose type or length field disagrees with the datagram is refused"
        if exc is None:
            raise Violation("accepted-bad-" + ref[1], data=data, got=type(y).__name__)
        d.reach()
        return
    if ref[0] == 'unknown':
        # no class for this code: the statement is silent, any exception is a refusal
        if exc is None:
            reencode_rule(d, y, data, False, None)
        d.reach()
        return
    fn = ref[1]
    if ref[0] == 'body':
        # true header, but not the shape Annex J gives this function: refusing is fine;
        # when accepted nothing false may be produced from it
        if exc is None:
            if not isinstance(y, CLASSES[fn]):
                raise Violation("wrong-class", fn=fn, got=type(y).__name__, via="codec")
            reencode_rule(d, y, data, False, fn)
        d.reach()
        return
    # a well-formed frame of one of the twelve functions
    if exc is not None:
        raise Violation("wellformed-refused", fn=fn, data=data, exc=type(exc).__name__)
    check_restored(fn, ref[2], y, "codec")
    check_restored(fn, ref[2], z, "direct")
    reencode_rule(d, y, data, True, fn)
    d.reach()


@meta(bounds="every datagram of lo..hi octets (length and content symbolic; the function octet is picked from "
             "the instance's list of codes 0..11 or is any of 12..255) whose first octet is not 0x81 or whose "
             "length field differs from the number of octets received, or that is shorter than a header: must be "
             "refused by AnnexJCodec.confirmation and by BVLPDU.decode.  Q: 0..64 octets; T: 0..200 octets, and "
             "long datagrams of 576, 1404, 1476, 1501, 1507 octets whose first 16 octets are symbolic and the "
             "rest a fixed pattern",
      outside="datagrams of other lengths above hi",
      stubs=["socket.inet_aton/inet_ntoa (opaque dotted quad of symbolic octets)"], assumes=[])
def bvll_header_guard(d, lo, hi, parts, tails=None):
    part = d.pick(parts, 'part')
    data = draw_datagram(d, lo, hi, part)
    if tails:
        data = data + bytes([(7 * i + 3) % 256 for i in range(d.pick(tails, 'tail'))])
    why = R.header_fault(data)
    d.assume(why is not None)
    y, exc = receive(data)
    if exc is None:
        raise Violation("accepted-bad-" + why, data=data, got=type(y).__name__, via="codec")
    b = B.BVLPDU()
    try:
        b.decode(PDU(data))
    except Exception:
        d.reach()
        return
    raise Violation("accepted-bad-" + why, data=data, via="BVLPDU.decode")


IP_LITERALS = [("0.0.0.0", (0, 0, 0, 0)), ("255.255.255.255", (255, 255, 255, 255)),
               ("192.168.0.254", (192, 168, 0, 254)), ("10.0.0.1", (10, 0, 0, 1)),
               ("127.0.0.1", (127, 0, 0, 1)), ("1.2.3.4", (1, 2, 3, 4)), ("128.0.0.0", (128, 0, 0, 0))]


@meta(bounds="pack_ip_addr/unpack_ip_addr and the Address tuple forms: six symbolic octets (all 2^48 values) "
             "through unpack -> pack and through Address(bytes) / Address((integer, port)); dotted text on 7 "
             "literal IPv4 addresses (boundaries 0.0.0.0, 255.255.255.255, 128.0.0.0) with a symbolic port",
      outside="dotted text other than the 7 literals (text of symbolic octets is opaque in the engine)",
      stubs=["socket.inet_aton/inet_ntoa (opaque dotted quad of symbolic octets)"],
      assumes=[])
def ip_forms(d):
    six = d.bytes(6, None, 'six')
    port = R.n16(six, 4)
    t = unpack_ip_addr(six)
    if t[1] != port:
        raise Violation("unpack-port", six=six, got=t[1])
    if bytes(pack_ip_addr(t)) != six:
        raise Violation("pack-unpack", six=six, got=bytes(pack_ip_addr(t)))
    if unpack_ip_addr(bytearray(six))[1] != port:
        raise Violation("unpack-port", six=six, form="bytearray")
    for form, a in (("int-tuple", Address((R.n32(six, 0), port))), ("text-tuple", Address(t))):
        if not addr_is(a, six) or a.addrLen != 6:
            raise Violation("address-octets", six=six, form=form, got=a.addrAddr)
        if a.addrPort != port:
            raise Violation("address-port", six=six, form=form, got=a.addrPort)
    # dotted text and the octets form on literals, port symbolic
    text, octs = d.pick(IP_LITERALS, 'literal')
    p2 = d.int(0, 0xFFFF, 'port')
    want = bytes(list(octs) + R.u16(p2))
    if bytes(pack_ip_addr((text, p2))) != want:
        raise Violation("pack-literal", text=text, port=p2, got=bytes(pack_ip_addr((text, p2))))
    back = unpack_ip_addr(want)
    if back[0] != text or back[1] != p2:
        raise Violation("unpack-literal", text=text, port=p2, got=back)
    for form, a in (("text-tuple", Address((text, p2))), ("octets", Address(want))):
        if not addr_is(a, want) or a.addrLen != 6:
            raise Violation("address-literal", text=text, port=p2, form=form, got=a.addrAddr)
        if a.addrPort != p2 or a.addrTuple != (text, p2):
            raise Violation("address-literal-tuple", text=text, port=p2, form=form, got=a.addrTuple)
    d.reach()


# ------------------------------------------------------------------ instances
QUICK_LENS = [7, 16, 63, 64, 127, 128, 245, 246, 251, 252, 255, 256, 511, 512, 1020, 1024, 1472, 1476]


def instances(tier):
    q = tier == "quick"
    out = []
    b = 60 if q else 300

    def rt(fn, what, budget=b, **params):
        out.append(Inst(bvll_rt, dict(fn=fn, **params), budget=budget, path_timeout=budget,
                        label="fn=%d %s%s" % (fn, R.NAMES[fn], " " + what if what else "")))
    for fn in FIXED_FNS:
        rt(fn, "")
    for fn in TABLE_FNS:
        for n in ([0, 1, 2] if q else [0, 1, 2, 3, 4, 8]):
            rt(fn, "n=%d" % n, n=n)
        # every entry concrete (prefix masks and arbitrary bit patterns, see filler_entry): one plain run, for code the
        # engine cannot follow symbolically
        rt(fn, "n=12 (concrete)", n=12, sym=[])
        if q:
            rt(fn, "n=40 (4 symbolic)", n=40, sym=[0, 1, 20, 39])
        else:
            rt(fn, "n=40 (12 symbolic)", n=40, sym=[0, 1, 2, 3, 9, 10, 19, 20, 30, 37, 38, 39])
            for lo in (1, 11, 21, 31):
                rt(fn, "n=%d..%d (first+last symbolic)" % (lo, lo + 9), n=lo, nhi=lo + 9, sym='ends')
    for fn in R.HAS_NPDU:
        rt(fn, "npdu=0..%d" % (6 if q else 16), paylo=0, payhi=6 if q else 16)
        if q:
            # powers of two, total frame length crossing 255/256 (245/246 + 10, 251/252 + 4:
            # the first length octet comes into use), Ethernet-sized NPDUs
            rt(fn, "npdu of %d boundary lengths (8 symbolic)" % len(QUICK_LENS), lens=QUICK_LENS, fill=8,
               forms=False)
        else:
            rt(fn, "npdu=240..256", paylo=240, payhi=256, forms=False)
            # every NPDU length of the quantifier, 16 slices
            for lo in range(0, 1498, 94):
                hi = min(lo + 93, 1497)
                rt(fn, "npdu=%d..%d (8 symbolic)" % (lo, hi), lenrange=[lo, hi], fill=8, forms=False)
        for ln in (1400, 1497):
            k = 8 if q else 200
            rt(fn, "npdu=%d (%d symbolic)" % (ln, k), paylo=ln, payhi=ln, fill=k)
    for fn in range(12):
        out.append(Inst(bvll_length_guard, dict(fn=fn), budget=b, label="fn=%d %s" % (fn, R.NAMES[fn])))
    out.append(Inst(bvlpdu_length_guard, dict(maxlen=16 if q else 160), budget=b))
    n = 26 if q else 104
    for part in range(13):
        out.append(Inst(bvll_decode_total, dict(n=n, part=part), budget=b,
                        label="n=%d,fn=%s" % (n, "%d %s" % (part, R.NAMES[part]) if part < 12 else "other")))
    hi = 64 if q else 200
    for parts in ([0, 1, 2, 3], [4, 5, 6, 7], [8, 9, 10, 11], [12]):
        out.append(Inst(bvll_header_guard, dict(lo=0, hi=hi, parts=parts), budget=b,
                        label="0..%d octets,fn=%s" % (hi, ",".join(str(k) if k < 12 else "other" for k in parts))))
    if not q:
        out.append(Inst(bvll_header_guard, dict(lo=16, hi=16, parts=list(range(13)),
                                                tails=[576 - 16, 1404 - 16, 1476 - 16, 1501 - 16, 1507 - 16]),
                        budget=b, label="576/1404/1476/1501/1507 octets,fn=any"))
    out.append(Inst(ip_forms, {}, budget=b))
    return out
