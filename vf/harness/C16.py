"""C16 - COV subscribers are told of every qualifying change, and only while subscribed."""
from ..api import Inst, Violation, meta
from ..world import World
from .. import netlab as nl
from ..ref.C16_cov import CovRef, LIVE, BOUNDARY, DEAD, NONE

from bacpypes.object import (IntegerValueObject, AnalogValueObject, BinaryValueObject,
                             MultiStateValueObject, PulseConverterObject)
from bacpypes.primitivedata import Integer, Real, Unsigned
from bacpypes.basetypes import BinaryPV, StatusFlags, COVSubscription
from bacpypes.constructeddata import ListOf
from bacpypes.service.object import ReadWritePropertyServices
from bacpypes.service.cov import ChangeOfValueServices
from bacpypes.apdu import (SubscribeCOVRequest, SimpleAckPDU, ReadPropertyRequest, ReadPropertyACK)

import bacpypes.service.cov as _cov

STUBS = ["virtual clock (task._time), counting whole seconds as Python ints (World(t0=0)) as long as only whole-second "
         "timers fire", "asyncore.loop -> clock advance", "task._Trigger -> wake flag", "fresh singletons per path",
         "module-global `int` of bacpypes.service.cov -> float.__int__ (same truncation; the engine's int() would "
         "enumerate the values of a solver-backed float one by one)"]


def _int(x=0, *base):
    """int() for the module under test: the same truncation toward zero, but a solver-backed float stays
    symbolic (CrossHair's own int() concretises it, which enumerates every lifetime second by second)"""
    if not base and isinstance(x, float):
        return x.__int__()
    return int(x, *base)


_cov.int = _int

DEVICE = 20
FIRST_SUBSCRIBER = 31
LIFE_MAX = 120
DT_MAX = 130
# transaction timers (APDU timeout of every stack, application timeout of the serving side) are put far beyond
# every instant a scenario can reach: nothing is ever lost here, so they never fire, and their order relative to
# the subscription lifetimes in the task heap would only multiply paths (lifetime <, =, > 3 s)
FAR_MS = 3600000


class Device(nl.IOStack, ReadWritePropertyServices, ChangeOfValueServices):
    """the COV server: a complete stack with the library's ReadProperty and COV services"""


class Subscriber(nl.AppStack):
    """a COV client: records the notifications handed to its application, acknowledges confirmed ones"""

    def __init__(self, dev, lan):
        nl.AppStack.__init__(self, dev, lan, app_timeout=FAR_MS)
        self.notes = []         # ("C" | "U", apdu)

    def do_UnconfirmedCOVNotificationRequest(self, apdu):
        self.notes.append(("U", apdu))

    def do_ConfirmedCOVNotificationRequest(self, apdu):
        self.notes.append(("C", apdu))
        self.response(SimpleAckPDU(context=apdu))


FLAG_SETS = ([0, 0, 0, 0], [0, 1, 0, 0], [0, 0, 0, 1])

# object families: how the monitored object is built, how its present value is drawn, a value no draw can
# produce (two of them, for the closing checks) and how a notified present value is decoded
KINDS = {
    "iv": dict(oid=("integerValue", 1), datatype=Integer, incremental=True, start=10, far=(60, 110)),
    # the same with negative values (a second path through Integer.encode per notified write)
    "iv-signed": dict(oid=("integerValue", 1), datatype=Integer, incremental=True, start=0, far=(50, -50)),
    "av": dict(oid=("analogValue", 1), datatype=Real, incremental=True, start=0.0, far=(8.0, -8.0),
               inc=0.5, values=(0.0, 0.25, 0.5, 1.0)),
    "pc": dict(oid=("pulseConverter", 1), datatype=Real, incremental=True, start=0.0, far=(32.0, -32.0),
               inc=2.0, values=(0.0, 1.0, 2.0, 4.0)),
    "bv": dict(oid=("binaryValue", 1), datatype=BinaryPV, incremental=False, start="inactive",
               values=("inactive", "active")),
    "msv": dict(oid=("multiStateValue", 1), datatype=Unsigned, incremental=False, start=1, far=(5, 6)),
}


def make_object(d, kind, inc):
    k = KINDS[kind]
    common = dict(objectIdentifier=k["oid"], objectName="monitored", presentValue=k["start"], statusFlags=[0, 0, 0, 0])
    if kind in ("iv", "iv-signed"):
        if inc is None:
            inc = d.int(1, 4, 'increment')
        return IntegerValueObject(covIncrement=inc, **common), inc
    if kind == "av":
        return AnalogValueObject(covIncrement=k["inc"], **common), k["inc"]
    if kind == "pc":
        # covPeriod 0: no periodic notifications (the statement is about changes only)
        return PulseConverterObject(covIncrement=k["inc"], covPeriod=0, **common), k["inc"]
    if kind == "bv":
        return BinaryValueObject(**common), None
    return MultiStateValueObject(numberOfStates=6, **common), None


def draw_value(d, kind, name):
    if kind == "iv":
        return d.int(1, 19, name)
    if kind == "iv-signed":
        return d.int(-9, 9, name)
    if kind == "msv":
        return d.int(1, 3, name)
    return d.pick(KINDS[kind]["values"], name)


def far_value(kind, cur, n):
    """a present value that differs from `cur` by more than any increment (n = 0, 1: two different ones)"""
    if kind == "bv":
        return "inactive" if cur == "active" else "active"
    return KINDS[kind]["far"][n]


class Rig:
    def __init__(self, d, kind, slots, inc):
        self.d = d
        self.kind = kind
        self.flagged = set()
        self.w = World(t0=0)
        self.lan = nl.FaultLAN([], world=self.w)
        self.dev = Device(nl.make_device("dut", DEVICE, apduTimeout=FAR_MS), self.lan, app_timeout=FAR_MS)
        self.obj, self.inc = make_object(d, kind, inc)
        self.dev.add_object(self.obj)
        self.oid = KINDS[kind]["oid"]
        self.slots = [tuple(s) for s in slots]
        nsubs = 1 + max(j for (j, p) in self.slots)
        self.subs = [Subscriber(nl.make_device("sub%d" % j, FIRST_SUBSCRIBER + j, apduTimeout=FAR_MS), self.lan) for j in range(nsubs)]
        self.ref = CovRef(self.inc if KINDS[kind]["incremental"] else None, KINDS[kind]["start"], [0, 0, 0, 0])

    def flag(self, kind, **sig):
        """record a divergence and go on; one report per kind and path (the first occurrence)"""
        if kind not in self.flagged:
            self.flagged.add(kind)
            self.d.flag(True, kind, **sig)

    # ------------------------------------------------------------ driving the subscribers
    def mark(self):
        return [len(s.notes) for s in self.subs]

    def collect(self, marks):
        """notifications received since `marks`, per slot, in order of arrival"""
        got = {s: [] for s in self.slots}
        for j, s in enumerate(self.subs):
            for (k, apdu) in s.notes[marks[j]:]:
                slot = (j, apdu.subscriberProcessIdentifier)
                if slot not in got:
                    raise Violation("notification-for-unknown-process", subscriber=j,
                                    process=apdu.subscriberProcessIdentifier)
                got[slot].append((k, apdu))
        return got

    def subscribe_request(self, slot, confirmed, lifetime, cancel=False):
        j, proc = slot
        kw = {}
        if not cancel:
            kw["issueConfirmedNotifications"] = confirmed
            if lifetime is not None:
                kw["lifetime"] = lifetime
        req = SubscribeCOVRequest(subscriberProcessIdentifier=proc, monitoredObjectIdentifier=self.oid,
                                  destination=self.dev.address, **kw)
        n = len(self.subs[j].confirmations)
        self.subs[j].request(req)
        self.w.settle()
        return self.subs[j].confirmations[n:]

    # ------------------------------------------------------------ decoding what was observed
    def values_of(self, apdu):
        pv = flags = None
        for e in apdu.listOfValues:
            if e.propertyIdentifier == "presentValue":
                pv = e.value.cast_out(KINDS[self.kind]["datatype"])
            elif e.propertyIdentifier == "statusFlags":
                flags = list(e.value.cast_out(StatusFlags))
        return pv, flags

    def slot_of(self, mac, proc):
        mac = bytes(mac)
        for (j, p) in self.slots:
            if p == proc and mac == bytes(self.subs[j].address.addrAddr):
                return (j, p)
        return None

    def entries(self, covs):
        out = []
        for c in covs:
            addr = c.recipient.recipient.address
            if addr is None:
                raise Violation("listing-recipient-not-an-address")
            out.append((bytes(addr.macAddress), addr.networkNumber, c.recipient.processIdentifier,
                        tuple(c.monitoredPropertyReference.objectIdentifier), c.issueConfirmedNotifications,
                        c.timeRemaining))
        return out

    def listing_object_level(self):
        try:
            return self.entries(self.dev.localDevice.ReadProperty("activeCovSubscriptions"))
        except Violation:
            raise
        except Exception as e:
            raise Violation("active-subscriptions-unreadable", exc=type(e).__name__)

    def listing_over_the_wire(self):
        reader = self.subs[0]
        n = len(reader.confirmations)
        reader.request(ReadPropertyRequest(objectIdentifier=("device", DEVICE), propertyIdentifier="activeCovSubscriptions",
                                           destination=self.dev.address))
        self.w.settle()
        confs = reader.confirmations[n:]
        if len(confs) != 1 or not isinstance(confs[0], ReadPropertyACK):
            self.flag("active-subscriptions-unreadable-over-the-wire",
                        got=[nl.outcome_kind(c) for c in confs], logged=[e[1] for e in self.d.errors_logged()])
            return None
        return self.entries(confs[0].propertyValue.cast_out(ListOf(COVSubscription)))

    # ------------------------------------------------------------ oracles
    @staticmethod
    def retimed(rec):
        """the record stems from a renewal that switched between a finite and an indefinite lifetime (only used
        to name a wrong time-remaining precisely)"""
        return rec.renewed and rec.prev_indefinite != (rec.expiry is None)

    def check_note(self, slot, k, apdu, where):
        """what every notification to a live subscription must carry (values are checked by the caller)"""
        d, ref = self.d, self.ref
        rec = ref.subs[slot]
        if tuple(apdu.monitoredObjectIdentifier) != self.oid or tuple(apdu.initiatingDeviceIdentifier) != ("device", DEVICE):
            self.flag("notification-identifiers", where=where, object=tuple(apdu.monitoredObjectIdentifier),
                   device=tuple(apdu.initiatingDeviceIdentifier))
        if (k == "C") != rec.confirmed:
            flipped = rec.renewed and rec.prev_confirmed != rec.confirmed
            self.flag("renewal-confirmed-flag-not-applied" if flipped else "notification-kind",
                   where=where, requested_confirmed=rec.confirmed, got=k)
        if ref.status(slot) == LIVE:
            want = ref.remaining(slot)
            got = apdu.timeRemaining
            if got != want:
                self.flag("renewal-lifetime-not-applied" if self.retimed(rec) else "notified-time-remaining",
                          where=where, got=got, want=want, was_indefinite=rec.prev_indefinite)

    def check_subscribe_round(self, target, got, where):
        """after a (re-)subscription: exactly one notification, to the subscriber, with the current values"""
        d, ref = self.d, self.ref
        for slot in self.slots:
            n = len(got[slot])
            if slot != target:
                if n:
                    self.flag("unsolicited-notification", where=where, slot=slot, n=n, status=ref.status(slot))
                continue
            if n == 0:
                self.flag("initial-notification-missing", where=where, slot=slot, renewal=ref.subs[slot].renewed,
                       logged=[e[1] for e in d.errors_logged()])
                continue
            if n > 1:
                self.flag("initial-notification-duplicated", where=where, slot=slot, n=n)
            k, apdu = got[slot][-1]
            self.check_note(slot, k, apdu, where)
            pv, flags = self.values_of(apdu)
            if pv is None or pv != ref.pv:
                self.flag("notified-value", where=where, got=pv, current=ref.pv)
            if flags != ref.flags:
                self.flag("notified-status-flags", where=where, got=flags, current=ref.flags)
            ref.reported({slot: pv})

    def check_change_round(self, got, where):
        """after the loop ran over the pending writes (none: time passed / a cancellation was served)"""
        d, ref = self.d, self.ref
        told = {}
        burst = len(ref.pending) > 1
        for slot in self.slots:
            st = ref.status(slot)
            lo, hi = ref.expectation(slot)
            n = len(got[slot])
            if n < lo:
                rec = ref.subs[slot]
                self.flag("qualifying-change-not-notified", where=where, slot=slot, n=n, renewed=rec.renewed,
                       logged=[e[1] for e in d.errors_logged()])
            if n > hi:
                if st in (NONE, DEAD):
                    why = ref.gone.get(slot, "expired" if st == DEAD else "never-subscribed")
                    self.flag("notification-after-" + why, where=where, slot=slot, n=n)
                elif not ref.pending:
                    self.flag("unsolicited-notification", where=where, slot=slot, n=n, status=st)
                elif hi == 0:
                    self.flag("non-qualifying-change-notified", where=where, slot=slot, n=n)
                else:
                    self.flag("too-many-notifications", where=where, slot=slot, n=n, most=hi)
            if not n or st in (NONE, DEAD):
                continue
            last_pv = None
            for idx, (k, apdu) in enumerate(got[slot]):
                self.check_note(slot, k, apdu, where)
                pv, flags = self.values_of(apdu)
                final = idx == n - 1
                if pv is None or flags is None:
                    self.flag("notification-lacks-value-or-flags", where=where)
                    continue
                if not burst:
                    if pv != ref.pv:
                        self.flag("notified-value", where=where, got=pv, current=ref.pv)
                    if flags != ref.flags:
                        self.flag("notified-status-flags", where=where, got=flags, current=ref.flags)
                else:
                    # a value the object had in this instant; the last notification leaves nothing unreported
                    if not any(pv == c.pv for c in ref.pending):
                        self.flag("notified-value", where=where, got=pv, burst=[c.pv for c in ref.pending])
                    if final:
                        if not ref.within(ref.pv, pv):
                            self.flag("burst-final-value-not-reported", where=where, got=pv, current=ref.pv)
                        if flags != ref.flags:
                            self.flag("notified-status-flags", where=where, got=flags, current=ref.flags)
                last_pv = pv
            if last_pv is not None:
                told[slot] = last_pv
        if told:
            ref.reported(told)
        ref.clear()

    def check_listing(self, entries, where):
        d, ref = self.d, self.ref
        ref.sweep()
        seen = set()
        for (mac, net, proc, oid, conf, rem) in entries:
            slot = self.slot_of(mac, proc)
            if slot is None or net != 0:
                self.flag("listing-unknown-recipient", where=where, mac=mac, net=net, process=proc)
                continue
            if slot in seen:
                self.flag("subscription-listed-twice", where=where, slot=slot)
                continue
            seen.add(slot)
            st = ref.status(slot)
            if st == NONE:
                self.flag("listing-shows-%s-subscription" % ref.gone.get(slot, "unknown"), where=where, slot=slot)
                continue
            if st != LIVE:
                continue        # the expiry second itself: listed or not
            rec = ref.subs[slot]
            if oid != self.oid:
                self.flag("listing-monitored-object", where=where, got=oid)
            if bool(conf) != rec.confirmed:
                flipped = rec.renewed and rec.prev_confirmed != rec.confirmed
                self.flag("renewal-confirmed-flag-not-applied" if flipped else "listing-confirmed-flag",
                       where=where, requested_confirmed=rec.confirmed, listed=conf)
            want = ref.remaining(slot)
            if rem != want:
                self.flag("renewal-lifetime-not-applied" if self.retimed(rec) else "listing-time-remaining",
                          where=where, listed=rem, want=want, negative=rem < 0, was_indefinite=rec.prev_indefinite)
        for slot in self.slots:
            if ref.status(slot) == LIVE and slot not in seen:
                self.flag("live-subscription-not-listed", where=where, slot=slot)

    # ------------------------------------------------------------ steps
    def write(self, what, i, part=""):
        """one local write: present value ('W') or status flags ('F')"""
        d, ref = self.d, self.ref
        if what == "W":
            v = draw_value(d, self.kind, 'value%d%s' % (i, part))
            self.obj.presentValue = v
            ref.write(pv=v)
        else:
            f = d.pick(FLAG_SETS[:self.nflags], 'flags%d%s' % (i, part))
            self.obj.statusFlags = list(f)
            ref.write(flags=f)

    def step(self, i, spec):
        d, ref, w = self.d, self.ref, self.w
        op = d.pick(list(spec), 'op%d' % i)
        where = "%d:%s" % (i, op)
        marks = self.mark()
        if op in ("S", "s"):
            slot = d.pick(self.slots, 'slot%d' % i)
            if op == "s":
                # the plain subscription of value-centred timelines: unconfirmed, indefinite
                confirmed, lifetime = False, 0
            else:
                confirmed = True if d.bool('confirmed%d' % i) else False
                lifetime = None
                if not self.absent or d.bool('has_lifetime%d' % i):
                    lifetime = d.int(0, LIFE_MAX, 'lifetime%d' % i)
            confs = self.subscribe_request(slot, confirmed, lifetime)
            if len(confs) != 1 or not isinstance(confs[0], SimpleAckPDU):
                kind = "subscribe-without-lifetime-fails" if lifetime is None else "subscribe-not-acknowledged"
                raise Violation(kind, where=where, got=[nl.outcome_kind(c) for c in confs],
                                logged=[e[1] for e in d.errors_logged()])
            ref.subscribe(slot, confirmed, lifetime)
            self.check_subscribe_round(slot, self.collect(marks), where)
        elif op == "C":
            slot = d.pick(self.slots, 'slot%d' % i)
            existed = ref.status(slot) in (LIVE, BOUNDARY)
            confs = self.subscribe_request(slot, None, None, cancel=True)
            if existed and (len(confs) != 1 or not isinstance(confs[0], SimpleAckPDU)):
                raise Violation("cancellation-not-acknowledged", where=where, got=[nl.outcome_kind(c) for c in confs])
            if len(confs) != 1:
                raise Violation("cancellation-not-answered", where=where, n=len(confs))
            ref.cancel(slot)
            self.check_change_round(self.collect(marks), where)
        elif op == "A":
            dt = d.int(0, DT_MAX, 'seconds%d' % i)
            w.run(duration=dt)
            ref.advance(dt)
            self.check_change_round(self.collect(marks), where)
        elif op == "B":
            first = d.pick(["W", "F"], 'burst%da' % i)
            self.write(first, i, "a")
            second = d.pick(["W", "F"], 'burst%db' % i)
            self.write(second, i, "b")
            w.settle()
            self.check_change_round(self.collect(marks), where)
        else:
            self.write(op, i)
            w.settle()
            self.check_change_round(self.collect(marks), where)
        self.check_listing(self.listing_object_level(), where)

    def closing(self, wire):
        """a change nobody can miss: exactly the live subscriptions hear of it; then every finite lifetime runs
        out and the same is asked again"""
        d, ref, w = self.d, self.ref, self.w
        for n in (0, 1):
            marks = self.mark()
            v = far_value(self.kind, ref.pv, n)
            self.obj.presentValue = v
            ref.write(pv=v)
            w.settle()
            where = "closing-%d" % n
            self.check_change_round(self.collect(marks), where)
            self.check_listing(self.listing_object_level(), where)
            if wire:
                entries = self.listing_over_the_wire()
                if entries is not None:
                    self.check_listing(entries, where + "-wire")
            if n == 0:
                marks = self.mark()
                w.run(duration=LIFE_MAX + 1)
                ref.advance(LIFE_MAX + 1)
                self.check_change_round(self.collect(marks), "closing-wait")


@meta(bounds="one COV server stack (ReadProperty + ChangeOfValue services) with ONE monitored object of the instance's "
             "family: integer value (COV increment symbolic 1..4 unless fixed by the instance, present values symbolic "
             "1..19, start 10 - in the `iv-signed` instances -9..9, start 0: exact integer arithmetic), analog value "
             "(increment 0.5, values from {0, 0.25, 0.5, 1}), pulse converter (increment 2, values from {0, 1, 2, 4}, "
             "covPeriod 0), binary value (both states), multi-state value (states symbolic 1..3); every object starts "
             "with status flags 0000; subscription slots (subscriber station, process id) as listed by the instance "
             "(1..2 stations quick, 3 thorough; two stations sharing a process id, one station with two); a timeline "
             "whose length and per-step opcode alphabet is the instance's `plan` (quick <= 3 steps, thorough <= 5): "
             "S = SubscribeCOV from a symbolic slot, confirmed flag symbolic, lifetime symbolic 0..120 s (absent as "
             "well in the `absent` instances) - on a live slot this is a renewal; s = the same with unconfirmed / "
             "indefinite fixed (value-centred timelines); C = cancellation from a symbolic slot; W = local write of a "
             "symbolic present value; F = local write of status flags (symbolic choice of 2..3 vectors); B = two "
             "writes (each W or F, symbolic) in one instant without the loop in between; A = advance the clock by a "
             "symbolic whole number of seconds 0..130 and run the loop (the lifetime is a one-shot timer, so the "
             "solver partitions (lifetime, seconds) into before / at / after expiry by itself: no bucketing needed).  "
             "After every step the loop runs for the current instant and activeCovSubscriptions is read at object "
             "level; every timeline closes with: a far jump of the present value, 121 s of waiting (every finite "
             "lifetime over), a second far jump, the list read again (over the wire too in the `wire` instances)",
      outside="timelines longer than the plan; opcode combinations not listed by the instances; general binary32 "
              "values (analog values are small dyadic rationals so that real arithmetic equals binary32/64 "
              "arithmetic); sub-second instants; more than one monitored object at a time; SubscribeCOVProperty; "
              "periodic pulse-converter notifications (covPeriod > 0); subscribers that do not acknowledge; writes to "
              "covIncrement while subscribed",
      stubs=STUBS,
      assumes=["analog / pulse-converter values and increments are dyadic rationals exactly representable in binary32: "
               "the real-arithmetic float model of the engine coincides with IEEE arithmetic on them",
               "the expiry second itself is latitude: a subscription whose lifetime ends at second E must be served "
               "before E, must not be served after E, either at E",
               "'last reported value' with several subscribers: the value last sent to anybody for the object or last "
               "sent to this subscriber; a change that qualifies under exactly one reading may or may not be notified",
               "several changes in one instant may be coalesced: at least one notification if any change qualifies, at "
               "most one per qualifying change, the last one leaving no qualifying difference to the final value",
               "a SubscribeCOV with 'issue confirmed notifications' but no lifetime asks for an indefinite subscription "
               "(13.14.1.5: zero = indefinite; the parameter is OPTIONAL in the ASN.1)"])
def cov_scn(d, kind, plan, slots, inc=None, absent=False, wire=False, nflags=2):
    rig = Rig(d, kind, slots, inc)
    rig.absent = absent
    rig.nflags = nflags
    for i, spec in enumerate(plan):
        rig.step(i, spec)
    rig.closing(wire)
    d.note(now=rig.ref.now, live=[s for s in rig.slots if rig.ref.status(s) == LIVE])
    d.reach()


TWO = [[0, 7], [1, 7]]                      # two stations, same process id
THREE = [[0, 7], [1, 7], [2, 7]]
FOUR = [[0, 7], [1, 7], [2, 7], [0, 8]]     # three stations, one of them with two processes


def instances(tier):
    q = tier == "quick"
    out = []

    def add(kind, plan, slots, budget, note=None, **kw):
        label = "%s,%s,%dslots" % (kind, "-".join(plan), len(slots))
        if note:
            label += "," + note
        for k, v in sorted(kw.items()):
            label += ",%s=%s" % (k, v)
        out.append(Inst(cov_scn, dict(kind=kind, plan=list(plan), slots=slots, **kw), budget=budget,
                        path_timeout=120, label=label))

    ONE = [[0, 7]]
    if q:
        # values and criteria, one subscriber
        add("iv", ["S", "WF", "WF"], ONE, 200)
        add("iv", ["s", "W", "B"], ONE, 200)
        add("iv", ["s", "B", "W"], ONE, 200)
        add("iv", ["WF", "s", "WF"], ONE, 100)         # the object moved before anybody subscribed
        add("iv", ["s", "W", "s", "W"], ONE, 250)       # drift below the increment, renewal (reports the value), next step
        for kind in ("av", "pc", "bv", "msv"):
            add(kind, ["s", "WF", "WF"], ONE, 100)
            add(kind, ["s", "B"], ONE, 100)
        # subscribe / renew / cancel / expiry, one subscriber
        add("iv", ["S", "SCA", "A"], ONE, 250)
        add("iv", ["S", "A", "SCW"], ONE, 250)
        add("iv", ["C", "S", "CA"], ONE, 100)           # cancelling what does not exist
        # two stations
        add("bv", ["s", "S", "CAW"], TWO, 250)
        add("bv", ["s", "S"], TWO, 100, wire=True)
        add("bv", ["S", "s", "W"], TWO, 250)             # a timed subscription BEFORE an indefinite one, then a change
        add("bv", ["s", "S", "CAW"], [[0, 7], [0, 8]], 250, note="two-processes")   # one station with two subscriber processes
        # SubscribeCOV without the optional lifetime
        add("iv", ["S", "S"], ONE, 150, absent=True)
        return out
    # ---- thorough
    # values and criteria, one subscriber
    add("iv", ["S", "WF", "WF", "WF"], ONE, 1200)
    add("iv", ["s", "B", "WFB"], ONE, 1500)
    add("iv", ["s", "WF", "B", "WF"], ONE, 1500)
    add("iv-signed", ["s", "W", "W", "W"], ONE, 600)
    add("iv", ["s", "F", "F", "W"], ONE, 300, nflags=3)
    add("iv", ["WF", "s", "WF", "WF"], ONE, 600)
    for kind in ("av", "pc"):
        add(kind, ["s", "WF", "WF", "WF"], ONE, 600)
        add(kind, ["s", "B", "WF"], ONE, 600)
        add(kind, ["s", "WF", "B"], ONE, 600)
    for kind in ("bv", "msv"):
        add(kind, ["s", "WFB", "WFB"], ONE, 900)
    # subscribe / renew / cancel / expiry, one subscriber: every 4-step history, split by the second step
    for second in "SCAW":
        add("bv", ["S", second, "SCAW", "SCAW"], ONE, 2400)
    add("iv", ["S", "A", "S", "A"], ONE, 900)
    add("iv", ["S", "A", "S", "A", "W"], ONE, 1800)
    add("iv", ["C", "S", "CA", "SW"], ONE, 600)
    # two stations sharing a process id
    add("bv", ["s", "S", "SC", "CAW"], TWO, 2400)
    add("bv", ["S", "S", "A"], TWO, 1200, wire=True)
    add("iv", ["s", "W", "s", "W"], TWO, 600)            # whose "last reported value"?
    add("iv", ["s", "s", "W", "W"], TWO, 600)
    add("bv", ["S", "s", "W", "AW"], TWO, 1200)
    add("iv", ["S", "S", "W", "W"], TWO, 1800)
    # three stations; one station with two processes; both
    add("bv", ["s", "s", "S", "C"], THREE, 1200)
    add("bv", ["s", "S", "CAW"], [[0, 7], [0, 8]], 600)
    add("bv", ["s", "s", "s", "CW"], FOUR, 1200)
    # SubscribeCOV without the optional lifetime
    add("iv", ["S", "S", "A"], ONE, 600, absent=True)
    return out
