"""C15 - property reads and writes over the wire are consistent, typed, all-or-nothing."""
from ..api import Inst, Violation, meta
from ..world import World
from .. import netlab as nl
from ..ref import wire
from ..ref import C15_ref as R

from bacpypes.primitivedata import (Atomic, Null, Boolean, Unsigned, Integer, Real, Double, OctetString,
                                    CharacterString, BitString, Enumerated, Date, Time, ObjectIdentifier)
from bacpypes.basetypes import Polarity, EngineeringUnits
from bacpypes.constructeddata import Any, AnyAtomic, Array, ArrayOf, List, ListOf, Sequence, Choice
from bacpypes.errors import ExecutionError, RejectException
from bacpypes import object as bobj
from bacpypes.object import (register_object_type, Object, Property, ReadableProperty, WritableProperty,
                             OptionalProperty)
from bacpypes.service.object import ReadWritePropertyServices, ReadWritePropertyMultipleServices
from bacpypes.local.object import CurrentPropertyListMixIn
from bacpypes.apdu import (ReadPropertyRequest, WritePropertyRequest, ReadPropertyMultipleRequest,
                           ReadAccessSpecification, PropertyReference)

STUBS = ["virtual clock (task._time)", "asyncore.loop -> clock advance", "task._Trigger -> wake flag",
         "fresh singletons per path"]

VENDOR = 999
T_SCALARS, T_ARRAY, T_LIST, T_LISTED = 300, 301, 302, 303      # proprietary object types

ArrayOfUnsigned = ArrayOf(Unsigned)
ArrayOfCharacterString = ArrayOf(CharacterString)
ListOfUnsigned = ListOf(Unsigned)


# the objects of the device under test (registered ONCE, at import)
@register_object_type(vendor_id=VENDOR)
class C15Scalars(Object):
    objectType = T_SCALARS
    properties = [
        WritableProperty('presentValue', Unsigned),
        WritableProperty('description', CharacterString),
        WritableProperty('polarity', Polarity),
        WritableProperty('outOfService', Boolean),
        WritableProperty('covIncrement', Real),
        ReadableProperty('units', EngineeringUnits),            # read-only
        OptionalProperty('profileName', CharacterString),       # optional, present, read-only
        OptionalProperty('deviceType', CharacterString),        # optional, absent
    ]


@register_object_type(vendor_id=VENDOR)
class C15Arrays(Object):
    objectType = T_ARRAY
    properties = [
        WritableProperty('controlGroups', ArrayOfUnsigned),
        WritableProperty('stateText', ArrayOfCharacterString),
        ReadableProperty('alarmValues', ArrayOfUnsigned),       # read-only array
    ]


@register_object_type(vendor_id=VENDOR)
class C15Lists(Object):
    objectType = T_LIST
    properties = [
        WritableProperty('memberOf', ListOfUnsigned),
    ]


@register_object_type(vendor_id=VENDOR)
class C15Listed(CurrentPropertyListMixIn, Object):
    """an object whose Property_List is computed from the properties it currently has"""
    objectType = T_LISTED
    properties = [
        WritableProperty('presentValue', Unsigned),
        OptionalProperty('description', CharacterString),
        OptionalProperty('deviceType', CharacterString),
        OptionalProperty('profileName', CharacterString),
    ]


class Device(nl.AppStack, ReadWritePropertyServices, ReadWritePropertyMultipleServices):
    pass


ENUM_NUMBERS = {'polarity': {'normal': 0, 'reverse': 1}, 'units': {'degreesCelsius': 62}}
BASE = [R.PropSpec('objectIdentifier', 'oid'), R.PropSpec('objectName', 's'), R.PropSpec('objectType', 'e')]
SCHEMA = {
    'S': (T_SCALARS, BASE + [
        R.PropSpec('presentValue', 'u', writable=True), R.PropSpec('description', 's', writable=True),
        R.PropSpec('polarity', 'e', writable=True), R.PropSpec('outOfService', 'b', writable=True),
        R.PropSpec('covIncrement', 'r', writable=True), R.PropSpec('units', 'e'),
        R.PropSpec('profileName', 's', optional=True), R.PropSpec('deviceType', 's', optional=True)]),
    'A': (T_ARRAY, BASE + [
        R.PropSpec('controlGroups', 'au', writable=True), R.PropSpec('stateText', 'as', writable=True),
        R.PropSpec('alarmValues', 'au')]),
    'L': (T_LIST, BASE + [R.PropSpec('memberOf', 'lu', writable=True)]),
}
UNKNOWN_OBJECT = 'X'            # (T_SCALARS, 2): same type, an instance the device does not hold
OBJ_ID = {'S': (T_SCALARS, 1), 'A': (T_ARRAY, 1), 'L': (T_LIST, 1), 'X': (T_SCALARS, 2), 'P': (T_LISTED, 1)}
PROPRIETARY = 600               # a property number nobody declares

STRINGS = ['', 'a', 'Zq']
REALS = [0.0, 1.5, -2.25]
HUGE = 2 ** 32 - 1


def make_world(init):
    w = World()
    lan = nl.FaultLAN([], world=w)
    dev = Device(nl.make_device("dut", 20), lan)
    s = C15Scalars(objectIdentifier=OBJ_ID['S'], objectName='s', presentValue=init['presentValue'],
                   description='ab', polarity=1, outOfService=False, covIncrement=1.5,
                   units='degreesCelsius', profileName='p')
    a = C15Arrays(objectIdentifier=OBJ_ID['A'], objectName='a',
                  controlGroups=ArrayOfUnsigned(list(init['controlGroups'])),
                  stateText=ArrayOfCharacterString(['x', 'yz']),
                  alarmValues=ArrayOfUnsigned([3, 4]))
    l = C15Lists(objectIdentifier=OBJ_ID['L'], objectName='l', memberOf=list(init['memberOf']))
    for o in (s, a, l):
        dev.add_object(o)
    client = nl.AppStack(nl.make_device("cli", 10), lan)
    store = R.Store({
        'S': R.ObjModel(T_SCALARS, 1, SCHEMA['S'][1], dict(
            objectIdentifier=OBJ_ID['S'], objectName='s', objectType=T_SCALARS, presentValue=init['presentValue'],
            description='ab', polarity=1, outOfService=False, covIncrement=1.5, units=62, profileName='p')),
        'A': R.ObjModel(T_ARRAY, 1, SCHEMA['A'][1], dict(
            objectIdentifier=OBJ_ID['A'], objectName='a', objectType=T_ARRAY,
            controlGroups=list(init['controlGroups']), stateText=['x', 'yz'], alarmValues=[3, 4])),
        'L': R.ObjModel(T_LIST, 1, SCHEMA['L'][1], dict(
            objectIdentifier=OBJ_ID['L'], objectName='l', objectType=T_LIST, memberOf=list(init['memberOf']))),
    })
    return w, lan, dev, client, {'S': s, 'A': a, 'L': l}, store


# ---------------------------------------------------------------- object-level snapshots
SKIP_DEVICE_PROPS = ('localDate', 'localTime')      # the clock, not the store


def norm(v):
    """deep, comparable picture of a stored value"""
    if isinstance(v, Array):
        return ('A', [norm(x) for x in v.value[1:]], v.value[0])
    if isinstance(v, List):
        return ('L', [norm(x) for x in v.value])
    if isinstance(v, list):
        return ('L', [norm(x) for x in v])
    if isinstance(v, tuple):
        return ('T', [norm(x) for x in v])
    if isinstance(v, (Sequence, Choice)):
        return ('S', type(v).__name__, sorted((k, repr(norm(x))) for k, x in vars(v).items()))
    if isinstance(v, Atomic):
        return ('V', type(v).__name__, norm(v.value))
    return v


def snapshot(dev):
    """every readable value of every object of the device, through ReadProperty at object level:
    [(label, value picture)] in a fixed order (tuple-keyed dictionaries are slow under the engine)"""
    out = []
    for obj in dev.iter_objects():
        oid = obj.objectIdentifier
        is_dev = oid[0] == 'device'
        for pid in obj._properties:
            if is_dev and pid in SKIP_DEVICE_PROPS:
                continue
            try:
                v = obj.ReadProperty(pid)
                v = v if v is None or isinstance(v, (int, float, str)) else norm(v)
            except Exception as e:
                v = ('raises', type(e).__name__)
            out.append(((oid, pid), v))
    return out


def same(a, b):
    """deep equality that never leaves the decision to identity"""
    if a is b:
        return True
    if isinstance(a, (list, tuple)) and isinstance(b, (list, tuple)):
        if len(a) != len(b):
            return False
        for x, y in zip(a, b):
            if not same(x, y):
                return False
        return True
    if isinstance(a, (list, tuple)) or isinstance(b, (list, tuple)):
        return False
    if a is None or b is None:
        return False
    return bool(a == b)


def changed_keys(before, after, ignore=()):
    """labels whose value differs between two pictures (lists of (label, value) or str-keyed dicts)"""
    if isinstance(before, dict):
        out = []
        for k in before:
            if k in ignore:
                continue
            if k not in after or not same(before[k], after[k]):
                out.append(k)
        for k in after:
            if k not in before and k not in ignore:
                out.append(k)
        return out
    if len(before) != len(after):
        return ['(the set of properties)']
    out = []
    for (k, x), (k2, y) in zip(before, after):
        if x is y:
            continue
        if k != k2:
            return ['(the set of properties)']
        if not same(x, y):
            skip = False
            for g in ignore:
                if g == k:
                    skip = True
            if not skip:
                out.append(k)
    return out


def lib_content(spec, v):
    """stored library value -> model content (None = cannot be read as that kind)"""
    k = spec.kind
    if v is None:
        return None
    if k in ('au', 'as'):
        if isinstance(v, Array):
            if v.value[0] != len(v.value) - 1:
                return None
            return list(v.value[1:])
        return list(v) if isinstance(v, list) else None
    if k == 'lu':
        if isinstance(v, List):
            return list(v.value)
        return list(v) if isinstance(v, list) else None
    if k == 'e':
        if isinstance(v, str):
            return ENUM_NUMBERS.get(spec.name, {}).get(v)
        return v
    if k == 'oid':
        return tuple(v) if isinstance(v, tuple) else None
    if isinstance(v, (list, tuple, Array, List)):
        return None
    return v


def store_differs(store, objs):
    """declared properties whose stored value is not what the model holds"""
    out = []
    for okey, om in store.objs.items():
        obj = objs[okey]
        for name in om.order:
            spec = om.specs[name]
            got = lib_content(spec, obj.ReadProperty(name))
            want = om.values.get(name)
            if isinstance(want, tuple):
                want = list(want)
            if isinstance(got, tuple):
                got = list(got)
            if not same(got, want):
                out.append(okey + '.' + name)
    return out


# ---------------------------------------------------------------- talking over the LAN
def exchange(w, lan, dev, client, req):
    """send one request through the client stack; what the device put on the LAN in reply"""
    req.pduDestination = dev.address
    n0 = len(lan.frames)
    nc = len(client.confirmations)
    client.request(req)
    w.run()
    frames = lan.frames[n0:]
    if len(frames) < 1:
        raise Violation("request-not-sent")
    n, a = wire.parse_frame(frames[0][3])
    invoke = a["invoke"]
    replies = []
    for (i, src, dst, data) in frames[1:]:
        if str(src) == str(dev.address):
            n2, a2 = wire.parse_frame(data)
            if a2 is not None:
                replies.append(a2)
    if len(replies) != 1:
        return ('silence' if not replies else 'several-replies', len(replies))
    r = replies[0]
    if r["invoke"] != invoke:
        return ('wrong-invoke', r["invoke"])
    if len(client.confirmations) != nc + 1:
        return ('client-not-told', len(client.confirmations) - nc)
    t = r["type"]
    if t == 2:
        return ('simple-ack', r["service"])
    if t == 3:
        return ('complex-ack', r["service"], R.octets(r["payload"]))
    if t == 5:
        try:
            cls, code = R.parse_error(R.octets(r["payload"]))
        except ValueError:
            return ('malformed-error', R.octets(r["payload"]))
        return ('error', cls, code)
    if t == 6:
        return ('reject', r["reason"])
    if t == 7:
        return ('abort', r["reason"])
    return ('other', t)


def _name(table, v):
    for k, name in table.items():
        if v == k:
            return name
    return v


def show(out):
    """an outcome for signatures / notes (no text formatting of possibly symbolic numbers)"""
    if out[0] == 'error':
        return ['error', _name(R.ERROR_CLASS_NAME, out[1]), _name(R.ERROR_CODE_NAME, out[2])]
    if out[0] == 'complex-ack':
        return ['complex-ack', out[1]]
    return list(out)


def brief(out):
    return list(out[:3]) if out[0] != 'complex-ack' else ['complex-ack']


def show_exp(exp):
    return [R.ERROR_CLASS_NAME[exp[1]]] + [R.ERROR_CODE_NAME[c] for c in exp[2]]


def matches_error(out, exp):
    """out = ('error', cls, code) from the wire; exp = ('error', class, (codes))"""
    if out[0] != 'error' or out[1] != exp[1]:
        return False
    for c in exp[2]:
        if out[2] == c:
            return True
    return False


def names_datatype_problem(out, arity_ok):
    if out[0] == 'reject':
        for r in (R.DT_REJECTS if arity_ok else R.DT_REJECTS_ARITY):
            if out[1] == r:
                return True
        return False
    if out[0] == 'error':
        for c in (R.DT_ERROR_CODES if arity_ok else R.DT_ERROR_CODES_ARITY):
            if out[2] == c:
                return True
    return False


def tname(okey, pname):
    return "%s.%s" % (okey, pname)


def check_read(d, out, exp, okey, pname, idx, via):
    """one ReadProperty answer against the model; returns True when it is as the model says"""
    otype, inst = OBJ_ID[okey]
    if exp[0] == 'value':
        pid = R.PROP[pname] if isinstance(pname, str) else pname
        want = R.read_ack_payload(otype, inst, pid, idx, exp[1])
        if out[0] != 'complex-ack' or out[1] != R.READ_PROPERTY:
            d.flag(True, "read-of-present-property-fails", target=tname(okey, pname), index=idx, got=show(out), via=via)
            return False
        if not R.eq_octets(out[2], want):
            d.flag(True, "read-returns-other-value", target=tname(okey, pname), index=idx, got=out[2], want=want, via=via)
            return False
        return True
    if not matches_error(out, exp):
        d.flag(True, "read-error-mismatch", target=tname(okey, pname), index=idx, got=show(out),
               want=show_exp(exp), via=via)
        return False
    return True


def rp(w, lan, dev, client, okey, pname, idx):
    req = ReadPropertyRequest(objectIdentifier=OBJ_ID[okey], propertyIdentifier=pname)
    if idx is not None:
        req.propertyArrayIndex = idx
    return exchange(w, lan, dev, client, req)


def rpm(w, lan, dev, client, specs):
    """specs = [(okey, [(pname, idx)])]"""
    ras = []
    for okey, refs in specs:
        prs = []
        for pname, idx in refs:
            pr = PropertyReference(propertyIdentifier=pname)
            if idx is not None:
                pr.propertyArrayIndex = idx
            prs.append(pr)
        ras.append(ReadAccessSpecification(objectIdentifier=OBJ_ID[okey], listOfPropertyReferences=prs))
    return exchange(w, lan, dev, client, ReadPropertyMultipleRequest(listOfReadAccessSpecs=ras))


SELECTORS = ('all', 'required', 'optional')


def expected_rpm(store, specs):
    """[(objid octets, [(pid, idx, 'value', octets) | (pid, idx, 'error', class, codes)])] from the model:
    for every reference what ReadProperty answers; a selector stands for the properties it names"""
    out = []
    for okey, refs in specs:
        otype, inst = OBJ_ID[okey]
        res = []
        for pname, idx in refs:
            if pname in SELECTORS:
                if okey not in store.objs:
                    res.append((R.PROP[pname], idx, R.E_UNKNOWN_OBJECT))
                    continue
                for name in store.selector(okey, pname):
                    res.append((R.PROP[name], idx, store.read(okey, name, idx)))
            else:
                pid = R.PROP[pname] if isinstance(pname, str) else pname
                res.append((pid, idx, store.read(okey, pname, idx)))
        out.append((R.objid_octets(otype, inst), res))
    return out


def check_rpm(d, out, store, specs, via, skip=()):
    """a ReadPropertyMultiple answer against what ReadProperty gives per the model (any order within an object)"""
    if out[0] != 'complex-ack' or out[1] != R.READ_PROPERTY_MULTIPLE:
        d.flag(True, "rpm-not-answered-with-ack", got=show(out), via=via)
        return
    try:
        got = R.parse_rpm_ack(out[2])
    except (ValueError, IndexError):
        d.flag(True, "rpm-ack-malformed", payload=out[2], via=via)
        return
    exp = expected_rpm(store, specs)
    if len(got) != len(exp):
        d.flag(True, "rpm-object-count", got=len(got), want=len(exp), via=via)
        return
    for (goid, gres), (eoid, eres), (okey, refs) in zip(got, exp, specs):
        if not R.eq_octets(goid, eoid):
            d.flag(True, "rpm-object-identifier", got=goid, want=eoid, via=via)
            continue
        if len(gres) != len(eres):
            d.flag(True, "rpm-result-count", object=okey, refs=[r[0] for r in refs], got=[g[0] for g in gres],
                   want=[e[0] for e in eres], via=via)
            continue
        used = [False] * len(gres)
        for (pid, idx, e) in eres:
            hit = None
            for k, g in enumerate(gres):
                if not used[k] and g[0] == pid and same(g[1], idx):
                    hit = k
                    break
            if hit is None:
                d.flag(True, "rpm-property-missing", object=okey, property=pid, index=idx, got=[g[0] for g in gres], via=via)
                continue
            used[hit] = True
            g = gres[hit]
            if (okey, pid) in skip:
                continue
            if e[0] == 'value':
                if g[2] != 'value':
                    d.flag(True, "rpm-differs-from-read-property", object=okey, property=pid, index=idx,
                           rpm=show(('error', g[3][0], g[3][1])), read_property="value", via=via)
                elif not R.eq_octets(g[3], e[1]):
                    d.flag(True, "rpm-differs-from-read-property", object=okey, property=pid, index=idx,
                           rpm=g[3], read_property=list(e[1]), via=via)
            else:
                if g[2] != 'error':
                    d.flag(True, "rpm-differs-from-read-property", object=okey, property=pid, index=idx,
                           rpm="value", read_property="error", via=via)
                elif not matches_error(('error', g[3][0], g[3][1]), e):
                    d.flag(True, "rpm-embeds-other-error", object=okey, property=pid, index=idx,
                           rpm=show(('error', g[3][0], g[3][1])), read_property=show_exp(e),
                           via=via)


# ---------------------------------------------------------------- drawing requests
CORE = {'S': ['presentValue', 'units'], 'A': ['controlGroups'], 'L': ['memberOf']}


def targets(focus, level):
    """(object key, property) pairs a request may name.
    level -1: the focus object's main properties only; 0: a few properties, an undeclared property, an unknown
    object; 1: every declared property as well; 2: also a proprietary property number and the value-less propertyList"""
    if level == -2:
        return [(focus, 'objectIdentifier')]
    if level < 0:
        return [(focus, n) for n in CORE[focus]]
    names = [s.name for s in SCHEMA[focus][1] if s.name not in ('objectIdentifier', 'objectType', 'objectName')]
    if focus == 'S' and level == 0:
        names = ['presentValue', 'description', 'units', 'deviceType']
    if focus == 'A' and level == 0:
        names = ['controlGroups', 'stateText']
    out = [(focus, n) for n in names]
    out.append((focus, 'objectName'))
    out.append((focus, 'vendorName'))           # a standard property the object does not have
    out.append((UNKNOWN_OBJECT, 'presentValue'))
    if level >= 2:
        out.append((focus, PROPRIETARY))
        out.append((focus, 'propertyList'))     # declared by the base class, no value
    return out


def spec_of(okey, pname):
    if okey not in SCHEMA:
        return None
    for s in SCHEMA[okey][1]:
        if s.name == pname:
            return s
    return None


def draw_index(d, i, spec, level, reading=False):
    """-> (class, index or None); classes: none / zero / elem (1..5, symbolic) / huge"""
    if spec is not None and spec.is_array:
        classes = ['none', 'zero', 'elem', 'huge']
    elif level < 0 and reading:
        classes = ['none']
    elif level >= 1:
        classes = ['none', 'small', 'huge']
    else:
        classes = ['none', 'small']
    c = d.pick(classes, 'index_class%d' % i)
    if c == 'none':
        return c, None
    if c == 'zero':
        return c, 0
    if c == 'elem':
        return c, d.int(1, 5, 'index%d' % i)
    if c == 'small':
        return c, d.int(0, 5, 'index%d' % i)
    return c, HUGE      # concrete: a symbolic 4-octet index through two codecs costs 15 s of solver time per path


def draw_scalar(d, i, kind, vhi, tag=''):
    """a value of model kind u/s/e/b/r: (library atomic, model content)"""
    nm = 'value%d%s' % (i, tag)
    if kind == 'u':
        v = d.int(0, vhi, nm)
        return Unsigned(v), v
    if kind == 's':
        v = d.pick(STRINGS, nm)
        return CharacterString(v), v
    if kind == 'e':
        v = d.int(0, 1, nm)         # the two values BACnetPolarity defines (it is not extensible)
        return Enumerated(v), v
    if kind == 'b':
        v = d.bool(nm)
        return Boolean(v), v
    if kind == 'r':
        v = d.pick(REALS, nm)
        return Real(v), v
    if kind == 'oid':
        # the object's own identifier, another instance, another object type: the property is read-only anyway
        v = d.pick([(T_SCALARS, 1), (T_SCALARS, 77), ('analogValue', 1)], nm)
        return ObjectIdentifier(v), v
    raise AssertionError(kind)


WRONG_FOR = {       # datatypes a property of this kind must refuse
    'u': [lambda: CharacterString('7'), lambda: Integer(7), lambda: Enumerated(7), lambda: Real(7.0)],
    's': [lambda: Unsigned(7), lambda: OctetString(b'ab')],
    'e': [lambda: Unsigned(1), lambda: CharacterString('normal')],
    'b': [lambda: Unsigned(1), lambda: Enumerated(1)],
    'r': [lambda: Double(1.5), lambda: Unsigned(1)],
    'oid': [lambda: Unsigned(1)],
}


def draw_value(d, i, spec, icls, kind, vhi, nwrong):
    """the value parameter of a WriteProperty
    -> (Any, fits, arity_ok, model content or None, what)"""
    if spec is None:
        a, c = draw_scalar(d, i, 'u', vhi)
        return Any(a), True, True, None, 'unsigned'
    whole = icls == 'none' or not spec.is_array
    if not whole:
        ek = 'u' if icls == 'zero' else spec.elem_kind
    if kind == 'null':
        return Any(Null()), False, True, None, 'null'
    if whole and (spec.is_array or spec.is_list):
        ek = spec.elem_kind
        if kind == 'wrong':
            pos = d.index(2, 'wrong_position%d' % i)
            items = []
            for k in range(2):
                if k == pos:
                    items.append(WRONG_FOR[ek][0]())
                else:
                    items.append(draw_scalar(d, i, ek, vhi, '_%d' % k)[0])
            return Any(*items), False, True, None, 'sequence with an element of another type'
        n = 0 if kind == 'empty' else d.index(3, 'length%d' % i)
        items, content = [], []
        for k in range(n):
            a, c = draw_scalar(d, i, ek, vhi, '_%d' % k)
            items.append(a)
            content.append(c)
        return Any(*items), True, True, content, 'sequence of %d' % n
    if whole:
        ek = spec.kind
    if kind == 'wrong':
        mk = d.pick(WRONG_FOR[ek][:nwrong], 'wrong_type%d' % i)
        return Any(mk()), False, True, None, 'other type'
    if kind == 'empty':
        return Any(), False, False, None, 'no value'
    if kind == 'multi':
        a1, c1 = draw_scalar(d, i, ek, vhi, '_0')
        a2, c2 = draw_scalar(d, i, ek, vhi, '_1')
        return Any(a1, a2), False, False, None, 'two values'
    if icls == 'zero':
        n = d.index(4, 'new_length%d' % i)          # concrete: the library allocates that many elements
        return Any(Unsigned(n)), True, True, n, 'length %d' % n
    a, c = draw_scalar(d, i, ek, vhi)
    return Any(a), True, True, c, 'value'


# ---------------------------------------------------------------- the steps
class Diverged(Exception):
    """the device left the model after a flagged violation: nothing further can be compared on this path"""


def step_read(d, i, env, focus, level):
    w, lan, dev, client, objs, store = env
    okey, pname = d.pick(targets(focus, level), 'target%d' % i)
    icls, idx = draw_index(d, i, spec_of(okey, pname), level, reading=True)
    before = snapshot(dev)
    out = rp(w, lan, dev, client, okey, pname, idx)
    check_read(d, out, store.read(okey, pname, idx), okey, pname, idx, 'ReadProperty')
    ch = changed_keys(before, snapshot(dev))
    if ch:
        d.flag(True, "read-changed-state", changed=[str(k) for k in ch])
        raise Diverged()
    d.note(**{'step%d' % i: ['read', tname(okey, pname), idx, brief(out)]})


def step_write(d, i, env, focus, level, kinds, vhi, nwrong, follow, prio_mode):
    w, lan, dev, client, objs, store = env
    okey, pname = d.pick(targets(focus, level), 'target%d' % i)
    spec = spec_of(okey, pname)
    icls, idx = draw_index(d, i, spec, level)
    if spec is None or (icls != 'none' and not spec.is_array):
        kind = 'right'      # refused whatever the value is
    else:
        kind = d.pick(kinds, 'value_kind%d' % i)
    value, fits, arity_ok, content, what = draw_value(d, i, spec, icls, kind, vhi, nwrong)
    if prio_mode == 'both':
        prio = d.int(0, 16, 'priority%d' % i)
    elif prio_mode == 'sym':
        prio = d.int(1, 16, 'priority%d' % i)
    else:
        prio = 0
    req = WritePropertyRequest(objectIdentifier=OBJ_ID[okey], propertyIdentifier=pname, propertyValue=value)
    if idx is not None:
        req.propertyArrayIndex = idx
    if prio != 0:
        req.priority = prio
    before = snapshot(dev)
    out = exchange(w, lan, dev, client, req)
    after = snapshot(dev)
    causes = store.write_causes(okey, pname, idx, fits, arity_ok)
    d.note(**{'step%d' % i: ['write', tname(okey, pname), idx, kind, what, prio, brief(out)]})

    def mksig():
        return dict(target=tname(okey, pname), index=idx, value=what, value_kind=kind, got=show(out))
    if causes:
        names = [c[0] for c in causes]
        if out[0] == 'simple-ack':
            d.flag(True, "refusable-write-acknowledged", causes=names, changed=[str(k) for k in changed_keys(before, after)], **mksig())
            raise Diverged()
        ok = False
        for cname, exp in causes:
            if exp[0] == 'datatype':
                if names_datatype_problem(out, exp[1]):
                    ok = True
            elif matches_error(out, exp):
                ok = True
        if not ok:
            if out[0] in ('error', 'reject', 'abort'):
                d.flag(True, "write-refused-with-other-error", causes=names, **mksig())
            else:
                d.flag(True, "write-not-answered", causes=names, **mksig())
        ch = changed_keys(before, after)
        if ch:
            d.flag(True, "refused-write-changed-state", causes=names, changed=[str(k) for k in ch], **mksig())
            raise Diverged()
        return
    # nothing speaks against the write: it is acknowledged and takes effect
    if out[0] != 'simple-ack' or out[1] != R.WRITE_PROPERTY:
        d.flag(True, "valid-write-refused", **mksig())
        ch = changed_keys(before, after)
        if ch:
            d.flag(True, "refused-write-changed-state", causes=[], changed=[str(k) for k in ch], **mksig())
            raise Diverged()
        return
    if icls == 'zero':
        # what new elements hold after growing is the device's choice: learn it, then hold it to that
        cur = lib_content(spec, objs[okey].ReadProperty(pname))
        old = store.objs[okey].values[pname]
        if cur is None or len(cur) != content:
            d.flag(True, "array-length-write-not-applied", want=content, length=None if cur is None else len(cur), **mksig())
            raise Diverged()
        store.objs[okey].values[pname] = list(old[:content]) + list(cur[len(old):])
    else:
        store.apply_write(okey, pname, idx, content, None)
    oid = objs[okey].objectIdentifier
    ch = changed_keys(before, after, ignore=((oid, pname),))
    if ch:
        d.flag(True, "write-changed-other-properties", changed=[str(k) for k in ch], **mksig())
        raise Diverged()
    diff = store_differs(store, objs)
    if diff:
        d.flag(True, "acknowledged-write-not-stored", differs=diff, **mksig())
        raise Diverged()
    # read back over the wire: the same property (and element), and through ReadPropertyMultiple
    bad = ()
    if follow >= 1:
        out2 = rp(w, lan, dev, client, okey, pname, idx)
        if not check_read(d, out2, store.read(okey, pname, idx), okey, pname, idx, 'read-back'):
            bad = ((okey, R.PROP[pname]),)
    if follow >= 2:
        refs = [(pname, idx)]
        if idx is not None:
            refs.append((pname, None))
        if spec.is_array and idx != 0:
            refs.append((pname, 0))
        specs = [(okey, refs)]
        check_rpm(d, rpm(w, lan, dev, client, specs), store, specs, 'read-back', skip=bad)


def step_rpm(d, i, env, focus, level, nrefs):
    w, lan, dev, client, objs, store = env
    tg = targets(focus, level)
    if level >= 0:
        choices = [(focus, s) for s in SELECTORS] + tg + [(UNKNOWN_OBJECT, 'all')]
    else:
        choices = [(focus, 'all')] + tg
    refs_by_obj = {}
    order = []
    for k in range(nrefs):
        okey, pname = d.pick(choices, 'ref%d_%d' % (i, k))
        if pname in SELECTORS:
            idx = None
        else:
            icls, idx = draw_index(d, i * 10 + k, spec_of(okey, pname), level, reading=True)
        if okey not in refs_by_obj:
            refs_by_obj[okey] = []
            order.append(okey)
        refs_by_obj[okey].append((pname, idx))
    specs = [(okey, refs_by_obj[okey]) for okey in order]
    # one more object in the same request (concrete: costs no paths)
    other = 'L' if focus != 'L' else 'A'
    specs.append((other, [('objectName', None), ('optional', None)]))
    before = snapshot(dev)
    out = rpm(w, lan, dev, client, specs)
    check_rpm(d, out, store, specs, 'ReadPropertyMultiple')
    ch = changed_keys(before, snapshot(dev))
    if ch:
        d.flag(True, "read-changed-state", changed=[str(k) for k in ch])
        raise Diverged()
    d.note(**{'step%d' % i: ['rpm', specs, brief(out)]})


@meta(bounds="a device stack (ReadProperty/WriteProperty and ReadPropertyMultiple services) holding three vendor-999 objects: "
             "S scalars (writable Unsigned, CharacterString, Enumerated, Boolean, Real; a read-only, an optional present and "
             "an optional absent property), A arrays (writable ArrayOf Unsigned and ArrayOf CharacterString of 2 elements, a "
             "read-only array), L lists (writable ListOf Unsigned) - and its device object; a client stack issues len(ops) "
             "requests (quick: 1-2, thorough: 1-3; the instance label spells the sequence), each with the opcode symbolic in "
             "the step's set (R ReadProperty, W WriteProperty, M ReadPropertyMultiple with nrefs references, each a property "
             "or one of all/required/optional, plus a second object in the same request); target symbolic over `level`: -1 "
             "the focus object's main properties, 0 a few properties + an undeclared property + an unknown object, 1 every "
             "declared property, 2 also a proprietary property number and the value-less Property_List; array index none / 0 "
             "/ 1..5 symbolic (n <= 4, so n+1 is inside) / 2^32-1, on non-arrays none / 0..5 symbolic / 2^32-1; written value "
             "per `kinds`: right datatype (Unsigned 0..vhi symbolic, strings and reals from 3 values, enumerated 0..1, "
             "boolean; whole arrays / lists of 0..2 elements; new array length 0..3), wrong = another primitive datatype "
             "(nwrong alternatives) or a sequence holding an element of another datatype at a symbolic position, null, "
             "multi = two values where one is expected, empty = none; priority none / 1..16 symbolic (`prio`); the initial "
             "Unsigned contents of the focus object symbolic.  After every request the answer on the LAN is compared with a "
             "dictionary model, every property of every object (object-level ReadProperty) with the picture before, and - "
             "follow >= 1 - an acknowledged write is read back by ReadProperty (and ReadPropertyMultiple, follow = 2)",
      outside="longer sequences; targets outside `level` in the multi-request instances; other objects than these; segmented "
              "answers; WritePropertyMultiple (the library has no handler); constructed property values over the wire "
              "(object level: prop_obj); a symbolic 4-octet array index (one concrete huge index instead: two codecs make "
              "the solver spend 15 s per path on it); new array lengths above 3 (the library allocates what is asked for)",
      stubs=STUBS)
def rw_wire(d, focus, ops, kinds=('right',), level=1, vhi=255, nwrong=1, follow=2, nrefs=1, prio='both'):
    init = dict(presentValue=7, controlGroups=[10, 20], memberOf=[5, 6])
    if focus == 'S':
        init['presentValue'] = d.int(0, vhi, 'initial_value')
    elif focus == 'A':
        init['controlGroups'] = [d.int(0, vhi, 'initial_0'), d.int(0, vhi, 'initial_1')]
    else:
        init['memberOf'] = [d.int(0, vhi, 'initial_0'), d.int(0, vhi, 'initial_1')]
    env = make_world(init)
    w, lan, dev, client, objs, store = env
    diff = store_differs(store, objs)
    if diff:
        raise Violation("initial-values-not-stored", differs=diff)
    try:
        for i, allowed in enumerate(ops):
            op = d.pick(list(allowed), 'opcode%d' % i)
            if op == 'R':
                step_read(d, i, env, focus, level)
            elif op == 'W':
                step_write(d, i, env, focus, level, list(kinds), vhi, nwrong, follow, prio)
            else:
                step_rpm(d, i, env, focus, level, nrefs)
    except Diverged:
        pass
    d.reach()


# ================================================================ Property_List (local/object.py)
def enum_numbers(value_octets):
    """a sequence of application enumerated tags -> their numbers (None when it is something else)"""
    try:
        toks = R.tokenize(value_octets)
    except (ValueError, IndexError):
        return None
    out = []
    for t in toks:
        if t.cls != 0 or t.num != 9:
            return None
        v = 0
        for k in range(t.start, t.end):
            v = v * 256 + value_octets[k]
        out.append(v)
    return out


def value_of_read_ack(out, otype, inst, pid, idx):
    """the value octets of a ReadProperty-ACK for exactly that property (None: it is not one)"""
    if out[0] != 'complex-ack' or out[1] != R.READ_PROPERTY:
        return None
    head = R.read_ack_payload(otype, inst, pid, idx, [])
    pre, post = head[:-1], head[-1:]
    got = out[2]
    if len(got) < len(head) or not R.eq_octets(got[:len(pre)], pre) or not R.eq_octets(got[len(got) - 1:], post):
        return None
    return got[len(pre):len(got) - 1]


@meta(bounds="a device holding one object whose Property_List is computed (CurrentPropertyListMixIn): one required and three "
             "optional properties, presence of each optional one symbolic; one request: ReadProperty / ReadPropertyMultiple "
             "of Property_List with index none / 0 / 1..5 symbolic / 2^32-1, ReadPropertyMultiple 'all' / 'required', or a "
             "WriteProperty to it",
      outside="properties appearing or disappearing between requests",
      stubs=STUBS)
def plist_wire(d, ops):
    w = World()
    lan = nl.FaultLAN([], world=w)
    dev = Device(nl.make_device("dut", 20), lan)
    kw = dict(objectIdentifier=(T_LISTED, 1), objectName='pl', presentValue=3)
    present = ['presentValue']
    for name in ('description', 'deviceType', 'profileName'):
        if d.bool('has_' + name):
            kw[name] = 'v'
            present.append(name)
    obj = C15Listed(**kw)
    dev.add_object(obj)
    client = nl.AppStack(nl.make_device("cli", 10), lan)
    want = sorted(R.PROP[n] for n in present)       # Object_Name, Object_Type, Object_Identifier, Property_List excluded (12.1.1.4.1)
    n = len(want)
    pid = R.PROP['propertyList']
    op = d.pick(list(ops), 'opcode')

    def whole():
        v = value_of_read_ack(rp(w, lan, dev, client, 'P', 'propertyList', None), T_LISTED, 1, pid, None)
        return None if v is None else enum_numbers(v)

    if op == 'W':
        before = snapshot(dev)
        req = WritePropertyRequest(objectIdentifier=(T_LISTED, 1), propertyIdentifier='propertyList',
                                   propertyValue=Any(Enumerated(85)))
        out = exchange(w, lan, dev, client, req)
        if not matches_error(out, R.E_READ_ONLY):
            d.flag(True, "property-list-write-not-denied", got=show(out))
        if changed_keys(before, snapshot(dev)):
            d.flag(True, "refused-write-changed-state", target='P.propertyList')
        d.reach()
        return
    if op == 'S':
        sel = d.pick(['all', 'required', 'optional'], 'selector')
        out = rpm(w, lan, dev, client, [('P', [(sel, None)])])
        if out[0] != 'complex-ack':
            d.flag(True, "rpm-not-answered-with-ack", got=show(out), via='Property_List')
        else:
            try:
                got = R.parse_rpm_ack(out[2])
                pids = sorted(g[0] for g in got[0][1])
            except (ValueError, IndexError):
                pids = None
            req_ids = [R.PROP['objectIdentifier'], R.PROP['objectName'], R.PROP['objectType'], R.PROP['presentValue']]
            opt_ids = [x for x in want if x != R.PROP['presentValue']]
            exp = sorted(req_ids + opt_ids if sel == 'all' else (req_ids if sel == 'required' else opt_ids))
            if pids is None or not same(pids, exp):
                d.flag(True, "rpm-selector-result", selector=sel, got=pids, want=exp)     # Property_List itself is not returned (15.7.3.1.2)
        d.reach()
        return
    icls = d.pick(['none', 'zero', 'elem', 'huge'], 'index_class')
    idx = None if icls == 'none' else 0 if icls == 'zero' else d.int(1, 5, 'index') if icls == 'elem' else HUGE
    if op == 'R':
        out = rp(w, lan, dev, client, 'P', 'propertyList', idx)
        val = value_of_read_ack(out, T_LISTED, 1, pid, idx)
        err = out if out[0] == 'error' else None
    else:
        out = rpm(w, lan, dev, client, [('P', [('propertyList', idx)])])
        val = err = None
        if out[0] == 'complex-ack':
            try:
                got = R.parse_rpm_ack(out[2])
                g = got[0][1][0]
                if len(got) == 1 and len(got[0][1]) == 1 and g[0] == pid and same(g[1], idx):
                    if g[2] == 'value':
                        val = g[3]
                    else:
                        err = ('error', g[3][0], g[3][1])
            except (ValueError, IndexError):
                pass
    sig = dict(present=present, index=idx, via=op)
    if idx is None:
        nums = None if val is None else enum_numbers(val)
        if nums is None or not same(sorted(nums), want):
            d.flag(True, "property-list-content", got=nums, want=want, **sig)
    elif icls == 'zero':
        if val is None or not R.eq_octets(val, R.app_unsigned(n)):
            d.flag(True, "array-index-0-not-length", got=val, length=n, **sig)
    elif icls == 'elem' and idx <= n:
        all_ = whole()
        nums = None if val is None else enum_numbers(val)
        if all_ is None or nums is None or len(nums) != 1 or len(all_) != n:
            d.flag(True, "array-element-read-fails", got=show(out), **sig)
        else:
            for k in range(n):
                if idx == k + 1 and nums[0] != all_[k]:
                    d.flag(True, "array-element-read-differs", got=nums[0], want=all_[k], **sig)
    else:
        if err is None or not matches_error(err, R.E_BAD_INDEX):
            d.flag(True, "array-bad-index-not-refused", got=show(out) if val is None else val, length=n, **sig)
    d.reach()


# ================================================================ object level, every registered type
FAMILY = (ExecutionError, RejectException)
P_STRINGS = ['', 'kW']
P_REALS = [0.0, -12.5]


def std_types():
    """the registered standard object types (vendor 0), by name"""
    return sorted((str(t) for (t, v) in bobj.registered_object_types if v == 0))


def std_class(otype):
    for (t, v), cls in bobj.registered_object_types.items():
        if v == 0 and str(t) == otype:
            return cls
    raise KeyError(otype)


def gen_kind(dt):
    """which generator serves a datatype (None = none: the property is skipped and counted)"""
    if issubclass(dt, AnyAtomic):
        return 'anyatomic'
    for k, c in (('bool', Boolean), ('unsigned', Unsigned), ('integer', Integer), ('real', Real), ('double', Double),
                 ('octets', OctetString), ('string', CharacterString), ('bits', BitString), ('enum', Enumerated),
                 ('date', Date), ('time', Time), ('objid', ObjectIdentifier)):
        if issubclass(dt, c):
            return k
    if issubclass(dt, (Sequence, Choice)):
        return 'constructed'
    return None


def prop_kind(dt):
    """-> (shape, element generator kind) with shape scalar / array / list; None = skipped"""
    if issubclass(dt, Array):
        k = gen_kind(dt.subtype)
        return ('array', k) if k else None
    if issubclass(dt, List):
        k = gen_kind(dt.subtype)
        return ('list', k) if k else None
    k = gen_kind(dt)
    return ('scalar', k) if k else None


class _Other(Sequence):
    """a constructed value no property takes"""
    sequenceElements = []


def gen_right(d, dt, k, nm, sym=True):
    """a python value of datatype dt as the application hands it to WriteProperty"""
    if k == 'bool':
        return d.bool(nm) if sym else True
    if k == 'unsigned':
        lo = dt._low_limit
        hi = dt._high_limit if dt._high_limit is not None else 2 ** 32 - 1
        return d.int(lo, hi, nm) if sym else lo + 1
    if k == 'integer':
        return d.int(-2 ** 31, 2 ** 31 - 1, nm) if sym else -3
    if k == 'real' or k == 'double':
        return d.pick(P_REALS, nm) if sym else 2.5
    if k == 'octets':
        return d.bytes(0, 2, nm) if sym else b'\x01'
    if k == 'string':
        return d.pick(P_STRINGS, nm) if sym else 'n'
    if k == 'bits':
        n = dt.bitLen if dt.bitLen else 3
        # is_valid forks on every symbolic bit: one symbolic bit, the others concrete
        return ([d.int(0, 1, nm + '_0')] + [(j % 2) for j in range(1, n)]) if sym else [1] * n
    if k == 'enum':
        # defined values only, by name and by number (an implementation may refuse undefined ones)
        names = sorted(dt.enumerations)
        choices = [0]
        if names:
            choices = [names[0], dt.enumerations[names[-1]]]
        return d.pick(choices, nm) if sym else choices[0]
    if k == 'date':         # (year - 1900, month, day, day of week unspecified)
        return (d.int(0, 254, nm + '_y'), d.int(1, 12, nm + '_m'), d.int(1, 28, nm + '_d'), 255) if sym else (124, 2, 3, 255)
    if k == 'time':
        return (d.int(0, 23, nm + '_h'), d.int(0, 59, nm + '_m'), d.int(0, 59, nm + '_s'), d.int(0, 99, nm + '_c')) if sym \
            else (1, 2, 3, 4)
    if k == 'objid':
        return ('analogValue', d.int(0, 4194302, nm)) if sym else ('analogValue', 9)
    if k == 'anyatomic':
        return d.pick([Real(1.5), Unsigned(3), CharacterString('x')], nm) if sym else Unsigned(4)
    if k == 'constructed':
        return dt()
    raise AssertionError(k)


def gen_wrong(k):
    """a value of a clearly different datatype"""
    if k in ('bool', 'real', 'double', 'date', 'time', 'objid', 'bits'):
        return 'x'
    if k in ('unsigned', 'integer', 'enum'):
        return 1.5
    if k in ('octets', 'string'):
        return 5
    if k == 'anyatomic':
        return 5
    if k == 'constructed':
        return _Other()
    raise AssertionError(k)


def veq(a, b):
    """written value == value read"""
    if isinstance(a, (Sequence, Choice, Atomic)) or isinstance(b, (Sequence, Choice, Atomic)):
        return a is b
    if isinstance(a, (list, tuple)) or isinstance(b, (list, tuple)):
        if not isinstance(a, (list, tuple)) or not isinstance(b, (list, tuple)) or len(a) != len(b):
            return False
        for x, y in zip(a, b):
            if not veq(x, y):
                return False
        return True
    if isinstance(a, (bytes, bytearray)) and isinstance(b, (bytes, bytearray)):
        return bytes(a) == bytes(b)
    if type(a) is float or type(b) is float or isinstance(a, str) or isinstance(b, str):
        return type(a) is type(b) and a == b
    return bool(a == b)


def elements_of(v):
    """stored array / list value -> python list of its elements, None when it is not one"""
    if isinstance(v, Array):
        if not isinstance(v.value, list) or len(v.value) < 1 or v.value[0] != len(v.value) - 1:
            return None
        return list(v.value[1:])
    if isinstance(v, List):
        return list(v.value) if isinstance(v.value, list) else None
    if isinstance(v, list):
        return list(v)
    return None


def values_picture(obj):
    """deep picture of the whole _values dictionary (containers by content, leaves as they are)"""
    out = {}
    for k, v in obj._values.items():
        out[k] = v if v is None or isinstance(v, (int, float, str)) else norm(v)
    return out


def classify(e):
    """exception of a refused write -> ('error', class, code) / ('reject', reason) / ('other', type name)"""
    if isinstance(e, ExecutionError):
        return ('error', e.errorClass, e.errorCode)
    if isinstance(e, RejectException):
        return ('reject', e.rejectReason)
    return ('other', type(e).__name__)


def refusal_matches(c, cause):
    if cause == 'read-only':
        return c == ('error', 'property', 'writeAccessDenied')
    if cause == 'not-an-array':
        return c in (('error', 'property', 'propertyIsNotAnArray'), ('error', 'property', 'invalidArrayIndex'))
    if cause == 'bad-array-index':
        return c == ('error', 'property', 'invalidArrayIndex')
    if cause == 'wrong-datatype':
        return c in (('reject', 'invalidParameterDatatype'), ('reject', 'invalidTag'),
                     ('error', 'property', 'invalidDataType'), ('error', 'property', 'datatypeNotSupported'),
                     ('error', 'services', 'invalidParameterDatatype'))
    if cause == 'fixed-length':
        return c[0] in ('error', 'reject')
    raise AssertionError(cause)


def check_array_reads(d, obj, pid, want, sig):
    """index 0 <-> length, 1..n <-> elements, anything else <-> invalid-array-index"""
    n = len(want)
    try:
        got = obj.ReadProperty(pid, 0)
    except Exception as e:
        d.flag(True, "array-index-0-not-length", raised=type(e).__name__, **sig)
        return
    if not veq(got, n):
        d.flag(True, "array-index-0-not-length", got=got, length=n, **sig)
    for k in range(n):
        try:
            got = obj.ReadProperty(pid, k + 1)
        except Exception as e:
            d.flag(True, "array-element-read-fails", element=k + 1, length=n, raised=type(e).__name__, **sig)
            continue
        if not veq(got, want[k]):
            d.flag(True, "array-element-read-differs", element=k + 1, length=n, got=got, want=want[k], **sig)
    for bad in (n + 1, HUGE):
        try:
            got = obj.ReadProperty(pid, bad)
        except ExecutionError as e:
            if (e.errorClass, e.errorCode) != ('property', 'invalidArrayIndex'):
                d.flag(True, "array-bad-index-other-error", index=bad, length=n, got=[e.errorClass, e.errorCode], **sig)
            continue
        except Exception as e:
            d.flag(True, "array-bad-index-other-error", index=bad, length=n, got=type(e).__name__, **sig)
            continue
        d.flag(True, "array-bad-index-answered", index=bad, length=n, got=got, **sig)
    whole = elements_of(obj.ReadProperty(pid))
    if whole is None or not veq(whole, want):
        d.flag(True, "array-whole-read-differs", length=n, **sig)


@meta(bounds="one default-constructed object of a registered standard type (the instance's `otypes`); property symbolic over "
             "every property of the type whose datatype has a generator (Boolean, Unsigned*, Integer, Real, Double, "
             "OctetString, CharacterString, BitString*, Enumerated*, Date, Time, ObjectIdentifier, any-atomic, constructed "
             "types by their default instance; ArrayOf / ListOf of those), others skipped and counted in the notes; the "
             "property as declared (read-only ones: the write is refused) and - symbolic selector - as a writable property "
             "of the same datatype added with Object.add_property; arrays start with 2 elements (fixed-length ones with "
             "their length), lists with 2; ONE WriteProperty(direct=False): value of the datatype (contents symbolic: "
             "integers over the datatype's whole range, octet strings 0..2 octets, one bit of a bit string, every valid date "
             "up to day 28 and every time of day; strings, reals, defined enumeration values from 2 representatives), of another datatype, a sequence holding one element of "
             "another datatype (position symbolic); array index none / 0 (new length 0..3) / 1..n+1 symbolic / 2^32-1; "
             "priority none or 1..16 symbolic; then reads of the property, and for arrays of every index class",
      outside="objectIdentifier (prop_oid); a value that is not a sequence at all written to a whole array (prop_array_scalar); "
              "constructed values other than default instances; more than one write; commandable local objects (C17)",
      stubs=[])
def prop_obj(d, otypes, variant="both", scalar_to_array=False, only=None):
    otype = d.pick(otypes, 'object_type')
    cls = std_class(otype)
    pids, skipped = [], []
    for pid in sorted(cls._properties):
        if pid == 'objectIdentifier' and only is None:
            continue
        if only is not None and pid not in only:
            continue
        if prop_kind(cls._properties[pid].datatype) is None:
            skipped.append(pid)
        else:
            pids.append(pid)
    d.note(object_type=otype, properties=len(pids), skipped_no_generator=skipped)
    if not pids:
        d.reach()
        return
    pid = d.pick(pids, 'property')
    prop = cls._properties[pid]
    dt = prop.datatype
    shape, k = prop_kind(dt)
    if scalar_to_array and shape != 'array':
        d.reach()
        return
    obj = cls()
    sig = dict(object_type=otype, property=pid, datatype=dt.__name__)

    # ---- read-only as declared: refused, nothing changes
    declared_writable = bool(prop.mutable)
    if variant == "declared":
        as_declared = True
    elif variant == "writable" or declared_writable:
        as_declared = declared_writable
    else:
        as_declared = d.bool('as_declared')
    if as_declared and not declared_writable:
        edt = dt.subtype if shape != 'scalar' else dt
        v = gen_right(d, edt, k, 'value', sym=False)
        if shape != 'scalar':
            v = [v]
        before = values_picture(obj)
        try:
            obj.WriteProperty(pid, v)
        except Exception as e:
            c = classify(e)
            if not refusal_matches(c, 'read-only'):
                d.flag(True, "read-only-write-refused-with-other-error", got=list(c), **sig)
        else:
            d.flag(True, "read-only-property-written", **sig)
        if changed_keys(before, values_picture(obj)):
            d.flag(True, "refused-write-changed-state", causes=['read-only'], **sig)
        d.reach()
        return
    if not declared_writable:
        # the same datatype as a writable property (what an application does to make it writable)
        obj.add_property(Property(pid, dt, default=prop.default, optional=prop.optional, mutable=True))

    # ---- initial contents of arrays and lists
    model = None
    fixed = None
    if shape == 'array':
        fixed = dt.fixed_length
        n0 = fixed if fixed is not None else 2
        model = [gen_right(d, dt.subtype, k, 'initial_%d' % j, sym=(j == 0 and k in ('unsigned', 'integer', 'bool')))
                 for j in range(n0)]
        obj._values[pid] = dt(list(model))
    elif shape == 'list':
        model = [gen_right(d, dt.subtype, k, 'initial_%d' % j, sym=False) for j in range(2)]
        obj._values[pid] = list(model)

    # ---- the write
    if scalar_to_array:
        icls = 'none'
    elif shape == 'array':
        icls = d.pick(['none', 'zero', 'elem', 'huge'], 'index_class')
    else:
        icls = d.pick(['none', 'small'], 'index_class')
    n = len(model) if shape == 'array' else 0
    if icls == 'none':
        idx = None
    elif icls == 'zero':
        idx = 0
    elif icls == 'elem':
        idx = d.int(1, n + 1, 'index')
    elif icls == 'small':
        idx = d.int(0, 3, 'index')
    else:
        idx = HUGE
    causes = []
    if idx is not None and shape != 'array':
        causes.append('not-an-array')
        causes.append('wrong-datatype')     # index 0 asks for a length, the others for an element: the value is neither
    elif icls == 'huge':
        causes.append('bad-array-index')
    whole = idx is None
    written = None
    if scalar_to_array:
        vk = 'scalar-for-array'
        value = d.pick([gen_wrong(k), ()], 'scalar_value')      # () is what a Null arrives as
        causes.append('wrong-datatype')
    elif shape != 'scalar' and whole:
        vk = d.pick(['right', 'wrong-element'], 'value_kind')
        if vk == 'right':
            ln = fixed if fixed is not None else d.index(3, 'length')
            value = [gen_right(d, dt.subtype, k, 'value_%d' % j, sym=(j == 0)) for j in range(ln)]
            written = list(value)
        else:
            ln = fixed if fixed is not None else 2
            pos = d.index(ln, 'wrong_position')
            value = [gen_wrong(k) if j == pos else gen_right(d, dt.subtype, k, 'value_%d' % j, sym=False) for j in range(ln)]
            causes.append('wrong-datatype')
    elif icls == 'zero':
        vk = d.pick(['right', 'wrong'], 'value_kind')
        if vk == 'right':
            value = d.index(4, 'new_length')        # concrete: the library allocates that many elements
            if fixed is not None and value != fixed:
                causes.append('fixed-length')
        else:
            value = 'x'
            causes.append('wrong-datatype')
    else:
        edt = dt.subtype if shape == 'array' else dt
        ek = k
        if shape == 'list':         # an index on a list: refused whatever the value
            vk = 'right'
            value = list(model)
        elif idx is not None and shape == 'scalar':
            vk = 'right'
            value = gen_right(d, edt, ek, 'value', sym=False)
        else:
            vk = d.pick(['right', 'wrong'], 'value_kind')
            if vk == 'right':
                value = gen_right(d, edt, ek, 'value')
                written = value
            else:
                value = gen_wrong(ek)
                causes.append('wrong-datatype')
    if vk == 'right' and idx is None:
        prio = d.int(0, 16, 'priority')
        priority = None if prio == 0 else prio
    else:
        priority = d.int(1, 16, 'priority')
    before = values_picture(obj)
    refused = None
    try:
        obj.WriteProperty(pid, value, arrayIndex=idx, priority=priority)
    except Exception as e:
        refused = e
    after = values_picture(obj)
    sig.update(index_class=icls, value_kind=vk)
    d.note(index_class=icls, value_kind=vk, refused=None if refused is None else list(classify(refused)))

    if refused is not None:
        c = classify(refused)
        # element index n+1 (symbolic 1..n+1) is a bad index as well
        bad_elem = icls == 'elem' and idx == n + 1
        all_causes = causes + (['bad-array-index'] if bad_elem else [])
        if not all_causes:
            d.flag(True, "valid-write-refused", got=list(c), **sig)
        elif c[0] == 'other':
            d.flag(True, "refusal-outside-documented-family", got=list(c), causes=all_causes, **sig)
        else:
            ok = False
            for cause in all_causes:
                if refusal_matches(c, cause):
                    ok = True
            if not ok:
                d.flag(True, "write-refused-with-other-error", got=list(c), causes=all_causes, **sig)
        if changed_keys(before, after):
            d.flag(True, "refused-write-changed-state", causes=all_causes, got=list(c), **sig)
        elif shape == 'array':
            check_array_reads(d, obj, pid, model, sig)
        d.reach()
        return

    # ---- accepted
    bad_elem = icls == 'elem' and idx == n + 1
    if bad_elem:
        causes = causes + ['bad-array-index']
    hard = [c for c in causes if c != 'fixed-length']
    if hard:
        d.flag(True, "refusable-write-accepted", causes=hard, **sig)
        d.reach()
        return
    if changed_keys(before, after, ignore=(pid,)):
        d.flag(True, "write-changed-other-properties", **sig)
    if shape == 'scalar':
        try:
            got = obj.ReadProperty(pid)
        except Exception as e:
            d.flag(True, "read-after-accepted-write-fails", raised=type(e).__name__, **sig)
        else:
            if not veq(got, written):
                d.flag(True, "read-after-write-differs", got=got, want=written, **sig)
        d.reach()
        return
    if shape == 'list':
        got = elements_of(obj.ReadProperty(pid))
        if got is None or not veq(got, written):
            d.flag(True, "read-after-write-differs", **sig)
        d.reach()
        return
    # arrays
    if whole:
        model = written
    elif icls == 'zero':
        if 'fixed-length' in causes:
            pass                # accepted although the length is fixed: must then have had no effect or the asked one
        cur = elements_of(obj.ReadProperty(pid))
        if cur is None or (len(cur) != value and not (fixed is not None and len(cur) == fixed)):
            d.flag(True, "array-length-write-not-applied", want=value, got=None if cur is None else len(cur), **sig)
            d.reach()
            return
        keep = min(len(model), len(cur))
        if not veq(cur[:keep], model[:keep]):
            d.flag(True, "array-length-write-changed-elements", **sig)
        model = list(model[:keep]) + list(cur[keep:])       # what new elements hold is the library's choice
    else:
        model = list(model)
        for j in range(len(model)):
            if idx == j + 1:
                model[j] = written
    check_array_reads(d, obj, pid, model, sig)
    d.reach()


QUICK_TYPES = ['analogValue', 'binaryOutput', 'multiStateValue', 'channel', 'loadControl', 'schedule',
               'notificationClass', 'device']


# CPU-second caps per instance: about four times what an idle core needs (measured), so that a loaded machine
# does not turn an obligation inconclusive
QUICK_CAPS = {"S: write": 300, "A: write": 300, "A: write, rpm": 400, "A: write, read": 250, "S: write, read|rpm": 250}
THOROUGH_CAPS = {
    "S: rpm x2": 2600, "A: rpm x2": 4500, "L: rpm x2": 2000, "S: write": 400, "A: write": 1000, "L: write": 400,
    "S: write, read": 700, "S: write, rpm": 1600, "S: write, write": 300, "S: read|rpm, any": 350,
    "A: write, read": 1600, "A: write, rpm": 3000, "A: write, write": 1100, "A: read|rpm, any": 1200,
    "L: write, read": 250, "L: write, rpm": 600, "L: write, write": 300, "L: read|rpm, any": 200,
    "S: write, write, read": 300, "S: write, read, write|rpm": 500, "A: write, write, read": 2400,
    "A: write, read, write|rpm": 4000, "L: write, write, read": 200, "L: write, read, write|rpm": 250,
}


def _wire(out, label, tier, **params):
    caps, default = (QUICK_CAPS, 150) if tier == "quick" else (THOROUGH_CAPS, 200)
    out.append(Inst(rw_wire, params, budget=caps.get(label, default), path_timeout=120, label=label))


def instances(tier):
    q = tier == "quick"
    out = []
    RW = ['right', 'wrong']
    RWN = ['right', 'wrong', 'null']
    if q:
        B = tier
        # ---- one request, every target / index class / value kind
        for f in ('S', 'A', 'L'):
            _wire(out, "%s: read" % f, B, focus=f, ops=['R'], level=1)
            _wire(out, "%s: rpm" % f, B, focus=f, ops=['M'], level=1, nrefs=1)
        _wire(out, "S: write", B, focus='S', ops=['W'], level=1, kinds=RWN, prio='both')
        _wire(out, "A: write", B, focus='A', ops=['W'], level=1, kinds=RW, prio='sym')
        _wire(out, "L: write", B, focus='L', ops=['W'], level=1, kinds=RWN, prio='sym')
        _wire(out, "A: write null", B, focus='A', ops=['W'], level=0, kinds=['null'], prio='none')
        _wire(out, "S: write wrong arity", B, focus='S', ops=['W'], level=0, kinds=['multi', 'empty'], prio='none')
        _wire(out, "S: write objectIdentifier", B, focus='S', ops=['W'], level=-2, kinds=RW, prio='none')
        # ---- two requests: a write (every index class, values of the right datatype), then a read of any kind
        _wire(out, "A: write, read", B, focus='A', ops=['W', 'R'], level=-1, kinds=['right'], prio='none', follow=0)
        _wire(out, "A: write, rpm", B, focus='A', ops=['W', 'M'], level=-1, kinds=['right'], prio='none', follow=0)
        _wire(out, "S: write, read|rpm", B, focus='S', ops=['W', 'RM'], level=-1, kinds=['right'], prio='none', follow=0)
        _wire(out, "L: write, read|rpm", B, focus='L', ops=['W', 'RM'], level=-1, kinds=['right'], prio='none', follow=0)
        # ---- two references in one ReadPropertyMultiple
        _wire(out, "S: rpm x2", B, focus='S', ops=['M'], level=-1, nrefs=2)
        _wire(out, "L: rpm x2", B, focus='L', ops=['M'], level=-1, nrefs=2)
        out.append(Inst(plist_wire, dict(ops='RMSW'), budget=200))
    else:
        B = tier
        big = dict(vhi=70000, nwrong=4)
        for f in ('S', 'A', 'L'):
            _wire(out, "%s: read" % f, B, focus=f, ops=['R'], level=2, **big)
            _wire(out, "%s: rpm x2" % f, B, focus=f, ops=['M'], level=0, nrefs=2, **big)
            _wire(out, "%s: rpm" % f, B, focus=f, ops=['M'], level=2, nrefs=1, **big)
            _wire(out, "%s: write" % f, B, focus=f, ops=['W'], level=2, kinds=RWN if f != 'A' else RW, prio='both', **big)
        _wire(out, "A: write null", B, focus='A', ops=['W'], level=1, kinds=['null'], prio='both')
        _wire(out, "S: write wrong arity", B, focus='S', ops=['W'], level=1, kinds=['multi', 'empty'], prio='none')
        _wire(out, "A: write wrong arity", B, focus='A', ops=['W'], level=0, kinds=['multi', 'empty'], prio='none')
        _wire(out, "S: write objectIdentifier", B, focus='S', ops=['W'], level=-2, kinds=RW, prio='both')
        # ---- two requests
        for f in ('S', 'A', 'L'):
            _wire(out, "%s: write, read" % f, B, focus=f, ops=['W', 'R'], level=0, kinds=['right'], prio='none', follow=0)
            _wire(out, "%s: write, rpm" % f, B, focus=f, ops=['W', 'M'], level=0, kinds=['right'], prio='none', follow=0)
            _wire(out, "%s: write, write" % f, B, focus=f, ops=['W', 'W'], level=-1, kinds=RW, prio='none', follow=1)
            _wire(out, "%s: read|rpm, any" % f, B, focus=f, ops=['RM', 'RWM'], level=-1, kinds=RW, prio='none', follow=1)
        # ---- three requests
        for f in ('S', 'A', 'L'):
            _wire(out, "%s: write, write, read" % f, B, focus=f, ops=['W', 'W', 'R'], level=-1, kinds=['right'], prio='none', follow=0)
            _wire(out, "%s: write, read, write|rpm" % f, B, focus=f, ops=['W', 'R', 'WM'], level=-1, kinds=['right'],
                  prio='none', follow=0)
        out.append(Inst(plist_wire, dict(ops='RMSW'), budget=300))
    # ---- object level
    types = QUICK_TYPES if q else std_types()
    for t in types:
        out.append(Inst(prop_obj, dict(otypes=[t]), budget=120, label=t))
    out.append(Inst(prop_obj, dict(otypes=types, scalar_to_array=True, variant="writable"), budget=100 if q else 300,
                    label="array-takes-non-sequence"))
    out.append(Inst(prop_obj, dict(otypes=types, only=['objectIdentifier'], variant="declared"), budget=60,
                    label="objectIdentifier"))
    return out


# ------------------------------------------------------------------ priorities 1..16 over the wire
# the statement's "priorities 1..16": a commandable object's presentValue written at two priorities and the priority
# array (the library's own default array, built by ArrayOf.fix_length) read back element by element - the harness is
# C17's wire-level command harness, here with the default array
from .C17 import prio_wire                                                    # noqa: E402

_c15_instances = instances


def instances(tier):
    out = _c15_instances(tier)
    q = tier == "quick"
    out.append(Inst(prio_wire, dict(cls='AnalogValueCmdObject', n=2, full=not q, own_array=False), budget=300 if q else 900,
                    path_timeout=120, label="AnalogValueCmdObject,default-array"))
    return out
