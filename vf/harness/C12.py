"""C12 - what is sent respects what the peer said it can accept."""
from ..api import Inst, Violation, meta
from ..world import World
from .. import netlab as nl
from ..ref import wire

from bacpypes.apdu import ConfirmedPrivateTransferACK, AbortPDU
from bacpypes.pdu import Address
from bacpypes.service.device import WhoIsIAmServices

SEG = ["noSegmentation", "segmentedTransmit", "segmentedReceive", "segmentedBoth"]
CAN_RX = ("segmentedReceive", "segmentedBoth")
CAN_TX = ("segmentedTransmit", "segmentedBoth")


class LearningStack(nl.AppStack, WhoIsIAmServices):
    """an application that records what peers announce in their I-Am, the way
    DeviceInfoCache.iam_device_info documents"""

    def do_IAmRequest(self, apdu):
        self.deviceInfoCache.iam_device_info(apdu)


@meta(bounds="two complete stacks, loss-free LAN; own/peer max APDU, segmentation support, max-segments-accepted and "
             "whether the client learned the server's I-Am (once, or twice with an earlier more capable announcement) fixed per instance; proposed window of each side symbolic "
             "over 1..127; request and response payload length symbolic inside the instance's window, every octet symbolic",
      outside="capability combinations not instantiated (see instance list), payload lengths outside the windows, lossy media",
      stubs=["virtual clock (task._time)", "asyncore.loop -> clock advance", "task._Trigger -> wake flag", "fresh singletons per path"],
      assumes=["the requesting application feeds I-Am announcements into DeviceInfoCache.iam_device_info (bacpypes leaves this to the application)"])
def limits_scn(d, Sc, Ss, segc, segs, msc, known, req, resp, wmax=127, first_iam=None, client_iam=None, peer_asks_first=False):
    w = World()
    lan = nl.FaultLAN([], world=w)
    cdev = nl.make_device("c", 10, maxApduLengthAccepted=Sc, segmentationSupported=SEG[segc], maxSegmentsAccepted=msc)
    sdev = nl.make_device("s", 20, maxApduLengthAccepted=Ss, segmentationSupported=SEG[segs], maxSegmentsAccepted=64)
    wc = d.int(1, wmax, 'client_window')
    ws = d.int(1, wmax, 'server_window')
    client = LearningStack(cdev, lan, window=wc)
    server = LearningStack(sdev, lan, window=ws)
    if known:
        if first_iam is not None:
            # an earlier announcement of the same device from the same address with other (larger) capabilities:
            # what counts is what the peer announced last
            real = (sdev.maxApduLengthAccepted, sdev.segmentationSupported)
            sdev.maxApduLengthAccepted, sdev.segmentationSupported = first_iam[0], SEG[first_iam[1]]
            server.i_am(address=client.address)
            w.run()
            sdev.maxApduLengthAccepted, sdev.segmentationSupported = real
        server.i_am(address=client.address)
        w.run()
        if client.deviceInfoCache.get_device_info(server.address) is None:
            raise Violation("i-am-not-learned")
    if client_iam is not None:
        # the CLIENT announced itself to the server earlier with another segmentation capability (same max APDU) than it
        # has now: for a response what counts is what the request being answered says
        real = cdev.segmentationSupported
        cdev.segmentationSupported = SEG[client_iam]
        client.i_am(address=server.address)
        w.run()
        cdev.segmentationSupported = real
        if server.deviceInfoCache.get_device_info(client.address) is None:
            raise Violation("i-am-not-learned", who="server")
    if peer_asks_first:
        # the peer first asks US something (a small confirmed request, answered at once): whatever that request says
        # about the peer's ability to take segmented RESPONSES must not be taken for more than that
        server.request(nl.private_transfer(client.address, b"?"))
        w.run()
        if len(server.confirmations) != 1 or not isinstance(server.confirmations[0], ConfirmedPrivateTransferACK):
            raise Violation("peer-request-not-answered", n=len(server.confirmations))
    n0 = len(lan.frames)
    reqp = d.bytes(req[0], req[1], 'req_payload')
    respp = d.bytes(resp[0], resp[1], 'resp_payload')
    server.pt_result = respp
    apdu = nl.private_transfer(server.address, reqp)
    client.request(apdu)
    w.run()

    # ---- read every frame of the transaction with the independent decoder
    req_sa = None
    req_maxsegs = None
    req_maxresp = None
    resp_segs = set()
    req_segs = set()
    prop = {}     # proposed window per (sender, type)
    granted = {}  # window of the receiver's latest segment-ack per (sender, type)
    for (i, src, dst, data) in lan.frames[n0:]:
        n, a = wire.parse_frame(data)
        if a is None:
            continue
        alen = len(n["payload"])
        from_client = str(src) == str(client.address)
        if a["type"] == 0:
            req_sa, req_maxsegs, req_maxresp = a["sa"], wire.MAX_SEGS_BY_CODE[a["maxsegs"]], wire.MAX_APDU_BY_CODE.get(a["maxresp"])
        # 1. no APDU longer than what the receiver announced
        if from_client:
            if known and alen > Ss:
                d.flag(True, "apdu-exceeds-peer-max", direction="request", length=alen, limit=Ss, excess=alen - Ss,
                       segmented=a["seg"], apdu=wire.APDU_NAMES[a["type"]])
        else:
            limit = max(req_maxresp or 0, Sc)     # announced in the request header or in the client's I-Am
            if req_maxresp is not None and alen > req_maxresp and alen > 0:
                lim = req_maxresp
                d.flag(True, "apdu-exceeds-peer-max", direction="response", length=alen, limit=lim, excess=alen - lim,
                       segmented=a["seg"], apdu=wire.APDU_NAMES[a["type"]])
        # 2. segmentation only where allowed
        if a["type"] == 3 and a["seg"]:
            resp_segs.add(a["seq"])
            if not req_sa:
                d.flag(True, "segmented-response-not-accepted", index=i)
        if a["type"] == 0 and a["seg"]:
            req_segs.add(a["seq"])
            if known and SEG[segs] not in CAN_RX:
                d.flag(True, "segmented-request-to-peer-without-segmented-receive", index=i)
        # 3. windows
        if a["type"] in (0, 3) and a["seg"]:
            key = (from_client, a["type"])
            if a["seq"] == 0 and key not in prop:
                prop[key] = a["win"]
            if not (1 <= a["win"] <= 127):
                d.flag(True, "window-out-of-range", win=a["win"], apdu=wire.APDU_NAMES[a["type"]])
        if a["type"] in (0, 3) and a["seg"] and a["seq"] >= 1:
            # a segment after the first states the window in force: never more than the receiver granted in its acks
            g = granted.get((from_client, a["type"]))
            if g is not None and a["win"] > g:
                d.flag(True, "segment-window-exceeds-grant", win=a["win"], granted=g, seq=a["seq"], apdu=wire.APDU_NAMES[a["type"]])
        if a["type"] == 4:
            granted[(not from_client, 0 if a["srv"] else 3)] = a["win"]
            if not (1 <= a["win"] <= 127):
                d.flag(True, "window-out-of-range", win=a["win"], apdu="segment-ack")
            # the ack answers segments sent by the other side: never more than that side proposed
            key = (not from_client, 0 if a["srv"] else 3)
            if key in prop and a["win"] > prop[key]:
                d.flag(True, "window-exceeds-proposal", win=a["win"], proposed=prop[key])
    if req_maxsegs is not None and len(resp_segs) > req_maxsegs:
        d.flag(True, "response-exceeds-max-segments", segments=len(resp_segs), limit=req_maxsegs)

    # ---- outcome: ack, or an abort telling the requester why
    if len(client.confirmations) != 1:
        raise Violation("outcome-count", n=len(client.confirmations))
    out = client.confirmations[0]
    if isinstance(out, ConfirmedPrivateTransferACK):
        got = nl.payload_of(out, 'resultBlock')
        if got is None or bytes(got) != bytes(respp):
            raise Violation("ack-payload")
    elif isinstance(out, AbortPDU):
        d.note(abort_reason=out.apduAbortRejectReason)
    else:
        raise Violation("outcome-kind", got=nl.outcome_kind(out))
    # the outcome the limits dictate (reference arithmetic on the clause 20.1 header sizes): an ack when the
    # exchange fits what each side announced, otherwise an abort telling the requester
    want = expected_outcome(len(reqp), len(respp), Sc, Ss, segc, segs, msc, known)
    if nl.outcome_kind(out) != want:
        raise Violation("outcome-vs-limits", got=nl.outcome_kind(out), want=want, req=len(reqp), resp=len(respp),
                        reason=getattr(out, "apduAbortRejectReason", None))
    if want == "abort" and ABORT_SIDE["who"] == "server":
        # it is the SERVER that cannot answer within the limits: the requester is told so by an abort on the wire, at
        # once - not left to find out by its own no-response timeout
        told = [a for (i, src, dst, data) in lan.frames[n0:] for a in [wire.parse_frame(data)[1]]
                if a is not None and a["type"] == 7 and str(src) == str(server.address)]
        if not told or not getattr(out, "apduSrv", False):
            d.flag(True, "requester-not-told-by-the-server", aborts_on_wire=len(told), reason=getattr(out, "apduAbortRejectReason", None),
                   outcome_from_server=bool(getattr(out, "apduSrv", False)))
    d.note(frames=len(lan.frames) - n0, req_segments=len(req_segs), resp_segments=len(resp_segs),
           outcome=nl.outcome_kind(out))
    d.reach()


@meta(bounds="one client stack (max APDU 50, proposes window wmax) sending a private transfer of nseg segments to a bare station "
             "that plays the server: after every burst it sends a SegmentAck for a symbolic segment of the burst (the rest "
             "counts as not received) granting a symbolic window 1..wmax - a peer may grant a different window with every "
             "ack; after each ack the client continues right behind the acknowledged segment, has at most the granted "
             "number of segments outstanding, numbers them consecutively and proposes a window in 1..127 in each; at the "
             "end the station answers and the client completes",
      outside="more than nseg segments; lost frames (C05); an ack that acknowledges MORE segments of the burst than the window it "
              "grants at the same time (observed on the unchanged tree: the client stores the new window before it tests the "
              "acknowledged number against it, takes the ack for a duplicate and stalls until the segment timer - no "
              "statement of the twenty covers it, see DESIGN 12.5)",
      assumes=["the acknowledged segment lies within the first `granted` segments of the burst (see 'outside')"],
      stubs=["virtual clock (task._time)", "asyncore.loop -> clock advance", "task._Trigger -> wake flag", "fresh singletons per path"])
def window_follow(d, nseg, wmax):
    w = World()
    lan = nl.FaultLAN([], world=w)
    cdev = nl.make_device("c", 10, maxApduLengthAccepted=50, segmentationSupported="segmentedBoth", maxSegmentsAccepted=64)
    client = nl.AppStack(cdev, lan, window=min(wmax, 127))
    peer = nl.RawPeer(20, lan)
    # 44 octets of service data per segment; the private-transfer body is 9 + n octets for 5 <= n <= 253
    n = 44 * (nseg - 1) + 20 - 9
    client.request(nl.private_transfer(Address(20), bytes(n)))
    w.run(until=w.clock)
    seen = 0            # frames of the client already looked at
    expect = 0          # sequence number the next burst has to start with
    granted = 1         # before the first ack only the first segment may go out
    acks = 0
    inv = None
    while True:
        frames = [wire.parse_frame(data)[1] for (src, data) in peer.received[seen:]]
        seen = len(peer.received)
        segs = [a for a in frames if a is not None and a["type"] == 0]
        if len(segs) > granted:
            raise Violation("more-segments-outstanding-than-granted", sent=len(segs), granted=granted, after_ack=acks)
        if not segs:
            raise Violation("no-segment-after-ack", after_ack=acks, granted=granted)
        for k, a in enumerate(segs):
            if not a["seg"] or a["seq"] != (expect + k) % 256:
                raise Violation("segment-sequence", got=a["seq"], want=(expect + k) % 256, after_ack=acks)
            if not (1 <= a["win"] <= 127):
                raise Violation("window-out-of-range", win=a["win"])
            if a["mor"] != (expect + k < nseg - 1):
                raise Violation("more-follows", seq=a["seq"], mor=a["mor"], nseg=nseg)
        inv = segs[0]["invoke"]
        if acks > 4 * nseg:
            raise Violation("no-progress")
        # acknowledge one segment of the burst, granting a window of the station's choice
        upto = d.int(0, len(segs) - 1, 'acked_of_burst%d' % acks)
        granted = d.int(1, wmax, 'granted%d' % acks)
        d.assume(upto < granted)
        acks += 1
        last = expect + upto
        peer.send(Address(10), nl.frame(bytes([0x41, inv, last % 256, granted]), False))
        w.run(until=w.clock)
        expect = last + 1
        if expect == nseg:
            break
    peer.send(Address(10), nl.frame(bytes([0x20, inv, 18]), False))
    w.run()
    if len(client.confirmations) != 1 or nl.outcome_kind(client.confirmations[0]) != "ack":
        raise Violation("outcome", got=[nl.outcome_kind(c) for c in client.confirmations])
    d.reach()


def iam_octets(instance, max_apdu, seg):
    """I-Am of device `instance`: object identifier, max APDU accepted, segmentation supported, vendor 15"""
    return bytes([0x10, 0x00, 0xC4, 0x02, 0x00, (instance >> 8) & 255, instance & 255,
                  0x22, max_apdu >> 8, max_apdu & 255, 0x91, seg, 0x21, 0x0F])


@meta(bounds="one client stack (max APDU 1024, segmentedBoth) that learns peers from their I-Am, and bare stations at addresses A "
             "and B: a history of three announcements - a small device (50 octets, no segmentation) and a large one (1024, "
             "segmentedBoth), each from A or B, the same device possibly twice from different addresses (it moved), order and "
             "addresses symbolic; then a 60-octet request to A and one to B: what goes to an address respects what the device "
             "that announced itself from that address LAST said (frames within its size, segments only if it takes them), or "
             "the application is told with an abort",
      outside="more than three announcements; more than two devices",
      stubs=["virtual clock (task._time)", "asyncore.loop -> clock advance", "task._Trigger -> wake flag", "fresh singletons per path"])
def cache_moves(d):
    w = World()
    lan = nl.FaultLAN([], world=w)
    cdev = nl.make_device("c", 10, maxApduLengthAccepted=1024, segmentationSupported="segmentedBoth", numberOfApduRetries=0)
    client = LearningStack(cdev, lan)
    A, B = nl.RawPeer(31, lan), nl.RawPeer(32, lan)
    caps = {1: (50, 3), 2: (1024, 0)}          # device instance -> (max APDU, segmentation code: 3 none, 0 both)
    at = {}                                     # address -> device instance that announced itself from there last
    where = {}                                  # device instance -> its current address
    for k in range(3):
        inst = d.pick([1, 2], 'device%d' % k)
        peer = d.pick([A, B], 'from%d' % k)
        peer.send(client.address, nl.frame(iam_octets(inst, *caps[inst]), False))
        w.run()
        if inst in where and where[inst] is not peer:
            at.pop(where[inst], None)           # it moved: its old address no longer speaks for it
        where[inst] = peer
        for other, p_ in list(where.items()):
            if other != inst and p_ is peer:
                del where[other]                # another device now answers at this address
        at[peer] = inst
    for peer in (A, B):
        n0 = len(peer.received)
        c0 = len(client.confirmations)
        client.request(nl.private_transfer(peer.address, bytes(60)))
        w.run()
        frames = [wire.parse_frame(data) for (src, data) in peer.received[n0:]]
        inst = at.get(peer)
        if inst is None:
            continue                            # nobody announced itself from there (last): the client assumes its own limits
        size, seg = caps[inst]
        for (n, a) in frames:
            if a is None:
                continue
            if len(n["payload"]) > size:
                raise Violation("apdu-exceeds-announced-max", to=str(peer.address), length=len(n["payload"]), limit=size,
                                device=inst)
            if a["type"] == 0 and a["seg"] and seg == 3:
                raise Violation("segmented-request-to-peer-without-segmented-receive", to=str(peer.address), device=inst)
        if seg == 3:
            # 60 octets do not fit 50 and may not be segmented: the application is told at once
            outs = client.confirmations[c0:]
            if len(outs) != 1 or nl.outcome_kind(outs[0]) != "abort" or any(a is not None and a["type"] == 0 for (n, a) in frames):
                raise Violation("unsendable-request-not-aborted", to=str(peer.address), outcomes=[nl.outcome_kind(o) for o in outs],
                                frames=len(frames))
    d.reach()


@meta(bounds="one client stack (max APDU 1024, segmentedBoth, three retries) that learns peers from their I-Am, and a bare station "
             "that never answers requests: it is known as a 1024-octet device (or not known at all, symbolic) when a 60-octet "
             "request goes out in one APDU; one second later it announces itself as a 50-octet device that takes segments or "
             "does not (symbolic); every frame the client sends it from then on - the retries at 3, 6 and 9 s - respects the "
             "new announcement: at most 50 octets of APDU, segments only if it takes them; or the application is told with an abort",
      outside="announcements between later retries",
      stubs=["virtual clock (task._time)", "asyncore.loop -> clock advance", "task._Trigger -> wake flag", "fresh singletons per path"])
def announce_during_retry(d):
    w = World()
    lan = nl.FaultLAN([], world=w)
    cdev = nl.make_device("c", 10, maxApduLengthAccepted=1024, segmentationSupported="segmentedBoth", numberOfApduRetries=3)
    client = LearningStack(cdev, lan)
    B = nl.RawPeer(31, lan)
    if d.bool('known_before'):
        B.send(client.address, nl.frame(iam_octets(1, 1024, 0), False))
        w.run(until=w.clock)
    client.request(nl.private_transfer(B.address, bytes(60)))
    w.run(until=w.clock + 1.0)
    first = [wire.parse_frame(data) for (src, data) in B.received]
    if len([1 for (n, a) in first if a is not None and a["type"] == 0]) != 1:
        raise Violation("first-attempt", frames=len(first))
    takes_segments = d.bool('now_takes_segments')
    B.send(client.address, nl.frame(iam_octets(1, 50, 0 if takes_segments else 3), False))
    n0 = len(B.received)
    w.run(until=w.clock + 30.0)
    for (src, data) in B.received[n0:]:
        n, a = wire.parse_frame(data)
        if a is None or a["type"] != 0:
            continue
        if len(n["payload"]) > 50:
            raise Violation("apdu-exceeds-announced-max", length=len(n["payload"]), limit=50, takes_segments=bool(takes_segments))
        if a["seg"] and not takes_segments:
            raise Violation("segmented-request-to-peer-without-segmented-receive", takes_segments=False)
    if len(client.confirmations) != 1 or nl.outcome_kind(client.confirmations[0]) != "abort":
        raise Violation("outcome", got=[nl.outcome_kind(c) for c in client.confirmations])
    d.reach()


def body_len(n):
    """octets of a ConfirmedPrivateTransfer request/ack body carrying an n-octet string: [0] vendor 999 (3),
    [1] service 1 (2), opening tag (1), octet-string tag with its length escape, the octets, closing tag (1)"""
    return 3 + 2 + 1 + (1 if n <= 4 else 2 if n <= 253 else 4) + n + 1


ABORT_SIDE = {"who": None}       # who has to tell the requester (set by expected_outcome): "client" = locally, "server" = on the wire


def expected_outcome(req_len, resp_len, Sc, Ss, segc, segs, msc, known):
    rb, sb = body_len(req_len), body_len(resp_len)
    ABORT_SIDE["who"] = None
    limit = Ss if known else Sc             # an unknown peer is assumed to accept what we accept
    if 4 + rb > limit:                      # request must be segmented (6-octet header per segment)
        ABORT_SIDE["who"] = "client"
        if SEG[segc] not in CAN_TX:
            return "abort"
        if known and SEG[segs] not in CAN_RX:
            return "abort"
        if not known and SEG[segs] not in CAN_RX:
            ABORT_SIDE["who"] = "either"    # the server refuses the first segment itself
            return "abort"
    if 3 + sb > Sc:                         # response must be segmented (5-octet header per segment)
        ABORT_SIDE["who"] = "server"
        if SEG[segs] not in CAN_TX or SEG[segc] not in CAN_RX:
            return "abort"
        n = -(-sb // (Sc - 5))
        limit_segs = msc if msc <= 64 else None
        if limit_segs is not None and n > limit_segs:
            return "abort"
    ABORT_SIDE["who"] = None
    return "ack"


def label(p):
    return "Sc%d,Ss%d,seg%d/%d,ms%s,%s,req%s,resp%s%s" % (p["Sc"], p["Ss"], p["segc"], p["segs"], p["msc"],
                                                         "known" if p["known"] else "unknown",
                                                         "-".join(map(str, p["req"])), "-".join(map(str, p["resp"])),
                                                         (",re-announced" if p.get("first_iam") else "")
                                                         + (",client-announced-seg%d" % p["client_iam"] if p.get("client_iam") is not None else "")
                                                         + (",peer-asks-first" if p.get("peer_asks_first") else ""))


def instances(tier):
    q = tier == "quick"
    out = []
    if q:
        cfgs = [
            # around the unsegmented/segmented boundary of a 50-octet peer, both directions
            dict(Sc=50, Ss=50, segc=3, segs=3, msc=16, known=True, req=(36, 40), resp=(2, 2)),
            dict(Sc=50, Ss=50, segc=3, segs=3, msc=16, known=True, req=(2, 2), resp=(36, 40)),
            # unequal sizes: what the OTHER side announced is what counts
            dict(Sc=128, Ss=50, segc=3, segs=3, msc=16, known=True, req=(60, 60), resp=(60, 60)),
            dict(Sc=50, Ss=128, segc=3, segs=3, msc=16, known=True, req=(60, 60), resp=(60, 60)),
            dict(Sc=128, Ss=50, segc=3, segs=3, msc=16, known=False, req=(60, 60), resp=(2, 2)),
            # max segments accepted 2: a 3-segment response must become an abort
            dict(Sc=50, Ss=50, segc=3, segs=3, msc=2, known=True, req=(2, 2), resp=(100, 100)),
            dict(Sc=50, Ss=50, segc=3, segs=3, msc=4, known=True, req=(2, 2), resp=(100, 100)),
            # segmentation support mismatches
            dict(Sc=50, Ss=50, segc=3, segs=1, msc=16, known=True, req=(60, 60), resp=(2, 2)),   # server cannot receive
            dict(Sc=50, Ss=50, segc=1, segs=3, msc=16, known=True, req=(2, 2), resp=(60, 60)),   # client cannot receive
            dict(Sc=50, Ss=50, segc=2, segs=3, msc=16, known=True, req=(60, 60), resp=(2, 2)),   # client cannot transmit
            dict(Sc=50, Ss=50, segc=3, segs=2, msc=16, known=True, req=(2, 2), resp=(60, 60)),   # server cannot transmit
        ]
        # every pair of segmentation capabilities (0 both, 1 transmit, 2 receive, 3 none), both directions segmented
        for segc in range(4):
            for segs in range(4):
                c = dict(Sc=50, Ss=50, segc=segc, segs=segs, msc=16, known=True, req=(60, 60), resp=(60, 60))
                if c not in cfgs:
                    cfgs.append(c)
        # the receiver's size boundary for unequal sizes
        for Sc, Ss in ((50, 128), (128, 50), (128, 206), (206, 128), (128, 128)):
            cfgs.append(dict(Sc=Sc, Ss=Ss, segc=3, segs=3, msc=16, known=True, req=(Ss - 14, Ss - 10), resp=(2, 2)))
            cfgs.append(dict(Sc=Sc, Ss=Ss, segc=3, segs=3, msc=16, known=True, req=(2, 2), resp=(Sc - 14, Sc - 10)))
        cfgs.append(dict(Sc=50, Ss=128, segc=3, segs=3, msc=16, known=False, req=(114, 118), resp=(2, 2)))
        # the server announced itself twice: first as a larger / more capable device, then as what it is
        cfgs.append(dict(Sc=128, Ss=50, segc=3, segs=3, msc=16, known=True, req=(60, 60), resp=(2, 2), first_iam=(128, 3)))
        cfgs.append(dict(Sc=50, Ss=50, segc=3, segs=1, msc=16, known=True, req=(60, 60), resp=(2, 2), first_iam=(50, 3)))
        # the client once announced itself as able to take segments and no longer is: the request's SA bit decides
        cfgs.append(dict(Sc=50, Ss=50, segc=0, segs=3, msc=16, known=True, req=(2, 2), resp=(60, 60), client_iam=3))
        cfgs.append(dict(Sc=50, Ss=50, segc=1, segs=3, msc=16, known=True, req=(2, 2), resp=(60, 60), client_iam=3))
        # a peer that cannot receive segments asks us something first; then we have a long request for it
        cfgs.append(dict(Sc=50, Ss=50, segc=3, segs=0, msc=16, known=True, req=(60, 60), resp=(2, 2), peer_asks_first=True))
        cfgs.append(dict(Sc=50, Ss=50, segc=3, segs=1, msc=16, known=True, req=(60, 60), resp=(2, 2), peer_asks_first=True))
        for c in cfgs:
            out.append(Inst(limits_scn, dict(c, wmax=127), budget=80, path_timeout=60, label=label(c)))
        out.append(Inst(window_follow, dict(nseg=5, wmax=3), budget=150, path_timeout=60))
        out.append(Inst(cache_moves, {}, budget=150, path_timeout=60))
        out.append(Inst(announce_during_retry, {}, budget=120, path_timeout=60))
        # the IOCB interface: an application whose request cannot be sent is told so (C04's harness)
        from .C04 import iocb_sync_abort
        out.append(Inst(iocb_sync_abort, {}, budget=120))
        # windows under loss (C05's scenario and wire oracle: never more segments outstanding than the window in force), the two
        # sides proposing different windows
        from .C05 import seg_payload, label as _l5
        for c in (dict(S=50, wc=1, ws=4, req=(2, 2), resp=(150, 150), nf=1, kinds=[nl.DROP], horizon=10),
                  dict(S=50, wc=4, ws=1, req=(150, 150), resp=(2, 2), nf=1, kinds=[nl.DROP], horizon=10)):
            out.append(Inst(seg_payload, c, budget=150, path_timeout=60, label=_l5(c)))
    else:
        sizes = [50, 128, 206, 480]
        for Sc in sizes:
            for Ss in sizes:
                lo_c, lo_s = Ss - 14, Sc - 14   # boundary of the receiver's size, minus private-transfer framing
                for known in (True, False):
                    c = dict(Sc=Sc, Ss=Ss, segc=3, segs=3, msc=16, known=known, req=(lo_c, lo_c + 4), resp=(2, 2))
                    out.append(Inst(limits_scn, dict(c, wmax=127), budget=400, path_timeout=90, label=label(c)))
                    c = dict(Sc=Sc, Ss=Ss, segc=3, segs=3, msc=16, known=known, req=(2, 2), resp=(lo_s, lo_s + 4))
                    out.append(Inst(limits_scn, dict(c, wmax=127), budget=400, path_timeout=90, label=label(c)))
        for segc in range(4):
            for segs in range(4):
                for known in (True, False):
                    c = dict(Sc=50, Ss=50, segc=segc, segs=segs, msc=16, known=known, req=(60, 60), resp=(60, 60))
                    out.append(Inst(limits_scn, dict(c, wmax=127), budget=300, path_timeout=90, label=label(c)))
        for msc in (2, 4, 8, 16, 32, 64, 65):
            for n in (msc, msc + 1):
                if n > 20:
                    continue
                ln = 50 * (n - 1) + 20
                c = dict(Sc=50, Ss=50, segc=3, segs=3, msc=msc, known=True, req=(2, 2), resp=(ln, ln))
                out.append(Inst(limits_scn, dict(c, wmax=8), budget=600, path_timeout=120, label=label(c)))
        for (Sc, Ss, segs, first) in ((128, 50, 3, (128, 3)), (480, 128, 3, (480, 3)), (50, 50, 1, (50, 3)), (50, 50, 0, (50, 3)),
                                      (128, 50, 0, (480, 3))):
            c = dict(Sc=Sc, Ss=Ss, segc=3, segs=segs, msc=16, known=True, req=(Ss + 10, Ss + 12), resp=(2, 2), first_iam=first)
            out.append(Inst(limits_scn, dict(c, wmax=127), budget=400, path_timeout=90, label=label(c)))
        for segc in (0, 1):
            for ci in (2, 3):
                c = dict(Sc=50, Ss=50, segc=segc, segs=3, msc=16, known=True, req=(2, 2), resp=(60, 60), client_iam=ci)
                out.append(Inst(limits_scn, dict(c, wmax=127), budget=400, path_timeout=90, label=label(c)))
        for segs in (0, 1, 2, 3):
            for known in (True, False):
                c = dict(Sc=50, Ss=50, segc=3, segs=segs, msc=16, known=known, req=(60, 60), resp=(2, 2), peer_asks_first=True)
                out.append(Inst(limits_scn, dict(c, wmax=127), budget=400, path_timeout=90, label=label(c)))
        out.append(Inst(window_follow, dict(nseg=6, wmax=4), budget=900, path_timeout=90))
        out.append(Inst(cache_moves, {}, budget=600, path_timeout=60))
        out.append(Inst(announce_during_retry, {}, budget=600, path_timeout=60))
        from .C04 import iocb_sync_abort
        out.append(Inst(iocb_sync_abort, {}, budget=600))
        from .C05 import seg_payload, label as _l5
        for (wc, ws) in ((1, 4), (4, 1), (2, 8), (8, 2)):
            for (req, resp) in (((2, 2), (150, 150)), ((150, 150), (2, 2))):
                c = dict(S=50, wc=wc, ws=ws, req=req, resp=resp, nf=1, kinds=[nl.DROP, nl.DUP], horizon=14)
                out.append(Inst(seg_payload, c, budget=600, path_timeout=90, label=_l5(c)))
        out.append(Inst(window_follow, dict(nseg=7, wmax=2), budget=900, path_timeout=90))
        out.append(Inst(window_follow, dict(nseg=5, wmax=127), budget=900, path_timeout=90))
        for Sx in (1024, 1476):
            c = dict(Sc=Sx, Ss=Sx, segc=3, segs=3, msc=16, known=True, req=(Sx - 14, Sx - 10), resp=(2, 2))
            out.append(Inst(limits_scn, dict(c, wmax=127), budget=2400, path_timeout=600, label=label(c)))
    return out
