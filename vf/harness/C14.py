"""C14 - Scheduled work runs once, in order, never early; failures stay isolated.

Real code driven: bacpypes.task (TaskManager, OneShotTask, RecurringTask) and
bacpypes.core (run, run_once, deferred) on the virtual clock of vf.world.
"""
from ..api import Inst, Violation, meta
from ..world import World
from ..ref.C14_sched import RefScheduler, judge, NEVER, SUSPENDED, PENDING

import bacpypes.core as core
import bacpypes.task as taskmod
from bacpypes.task import FunctionTask, OneShotTask, RecurringTask, TaskManager

STUBS = ["bacpypes.task._time -> harness clock (processing takes zero time)",
         "bacpypes.task._Trigger -> flag object: set() makes the next (stubbed) asyncore.loop return at "
         "once, which is what the byte written to the trigger pipe does to select()",
         "asyncore.loop(timeout) -> advances the harness clock by exactly `timeout`",
         "TaskManager singleton / core.deferredFns reset per path"]
EXACT = ("all instants are small integers or multiples of 1/8 s, so the real-arithmetic float model "
         "the engine pins coincides with binary64 arithmetic")


# ------------------------------------------------------------------ the loop, written out
def _drive(w, until, max_loops):
    """the event loop written out over the public TaskManager API, the way core.run uses
    it: poll, process, sleep what the manager asks for (cut short when something was
    scheduled meanwhile - the trigger -, capped at `until`)"""
    tm = w.tm
    for _ in range(max_loops):
        task, delta = tm.get_next_task()
        if task is not None:
            try:
                tm.process_task(task)
            except Exception:           # core.run logs and goes on
                pass
        if tm.trigger.woken:
            tm.trigger.woken = False
            continue
        if delta is None:
            if task is not None:
                continue
            if w.clock < until:
                w.clock = until
            return
        t = w.clock + delta
        if t > until:
            w.clock = until
            return
        w.clock = t


# ------------------------------------------------------------------ sched_ops
class _Probe(OneShotTask):
    def __init__(self, log, w):
        OneShotTask.__init__(self)
        self.log = log
        self.w = w
        self.label = None

    def process_task(self):
        self.log.append((self.label, self.w.tm.get_time()))


# label i is the probe with the RANK[i]-th smallest id(): pairs (0,1), (2,3) are installed
# against the id() order, (1,2), (0,2) with it (only matters to code that wrongly falls
# back on _Task.__lt__)
RANK = (2, 0, 3, 1)
OPS = ("at", "after", "suspend", "resume", "advance")
TMAX = 8


def _probes(n, log, w):
    objs = sorted([_Probe(log, w) for _ in range(4)], key=id)
    tasks = [objs[RANK[i]] for i in range(n)]
    for i, t in enumerate(tasks):
        t.label = i
    return tasks


def _advance(w, ref, log, drive, until, limit):
    start = w.clock
    del log[:]
    if drive == "loop":
        w.run(until=until, max_loops=limit)
    else:
        _drive(w, until, limit)
    v = judge(ref, list(log), start, until)
    del log[:]
    if v is not None:
        raise Violation(v[0], drive=drive, **v[1])


@meta(bounds="operation sequences of every length len(pre)..nops over {install at absolute t, install after "
             "delta, suspend, resume, advance the clock by delta and run the loop} on up to ntasks one-shot "
             "tasks, opcode and task symbolic at every step after the concrete prefix `pre` (the instances "
             "of a tier enumerate all prefixes, and one instance holds the sequences shorter than the prefix); "
             "every instant t / delta a symbolic integer 0..8 (all orderings and collisions, past instants "
             "included); after the sequence the loop runs on until everything pending has fired.  "
             "'Re-install' is install-at / install-after applied to a task that is pending (all such "
             "sequences are in the space).  drive=loop: the real core.run; drive=direct: the real "
             "TaskManager.get_next_task/process_task polled the way core.run does.  Tasks are interchangeable, "
             "so a step may address the tasks used so far or the next unused one (symmetry reduction).  "
             "resume is applied to tasks suspended while pending (re-installs at the remembered time, as a new "
             "installation) and to never-installed tasks (refusal by exception or no effect both accepted); "
             "resume of a pending or fired task is left out (the statement does not say what it means).  "
             "suspend may raise (accepted); what counts is that the task does not fire afterwards.",
      outside="sequences longer than nops, more than ntasks tasks, non-integer instants, real time, threads",
      stubs=STUBS, assumes=[EXACT])
def sched_ops(d, ntasks, nops, drive, pre, short=False):
    w = World()
    log = []
    tasks = _probes(ntasks, log, w)
    ref = RefScheduler(ntasks)
    limit = 4 * ntasks + 8
    used = 0
    trace = []
    if short:
        # the sequences that are shorter than the prefixes of the sibling instances
        pre = []
        n = d.int(0, nops, 'len')
    else:
        n = d.int(len(pre), nops, 'len')
    for k in range(nops):
        if k >= n:
            break
        op = pre[k] if k < len(pre) else d.pick(OPS, 'op%d' % k)
        if op == "advance":
            dl = d.int(0, TMAX, 'adv%d' % k)
            trace.append((op, dl))
            _advance(w, ref, log, drive, w.clock + dl, limit)
            continue
        lbl = d.index(min(used + 1, ntasks), 'task%d' % k)
        if lbl == used:
            used += 1
        task = tasks[lbl]
        if op == "at":
            t = d.int(0, TMAX, 'at%d' % k)
            trace.append((op, lbl, t))
            task.install_task(when=t)
            ref.install(lbl, t)
        elif op == "after":
            dl = d.int(0, TMAX, 'dl%d' % k)
            trace.append((op, lbl, dl))
            task.install_task(delta=dl)
            ref.install(lbl, w.clock + dl)
        elif op == "suspend":
            trace.append((op, lbl))
            try:
                task.suspend_task()
            except Exception:
                pass
            ref.suspend(lbl)
        else:
            st = ref.state[lbl]
            # resume_task is "just re-install it": on a suspended task it brings it back, on a task that is still
            # pending it is a re-installation for the same time (moved behind its equals, never duplicated)
            d.assume(st == SUSPENDED or st == NEVER or st == PENDING)
            trace.append((op, lbl))
            if st == NEVER:
                try:
                    task.resume_task()
                except Exception:
                    pass
            else:
                task.resume_task()
                ref.install(lbl, ref.due[lbl])
        if log:
            raise Violation("fired-outside-loop", op=op, task=log[0][0])
    d.note(ops=trace)
    # let the loop run on: whatever is still pending fires, in order, each once
    _advance(w, ref, log, drive, w.clock + TMAX + 1, limit)
    if ref.pending:
        raise Violation("missed", task=ref.pending[0][2], drive=drive)
    d.reach()


# ------------------------------------------------------------------ before_manager
@meta(bounds="operation sequences of every length 0..nops over {install at absolute t, suspend} (opcode, task and "
             "the integer instant t in 0..8 symbolic; same symmetry reduction as sched_ops) on up to ntasks one-shot "
             "tasks, performed while no TaskManager exists yet (module import time: task.py keeps such tasks in "
             "a list and hands them to the manager when it is created); then the TaskManager is created and the "
             "loop (polled directly) runs until everything pending has fired; same reference scheduler and oracle "
             "as sched_ops.  suspend may raise (it does for a task that is not in the list); what counts is that "
             "a suspended task does not fire and a re-installed one fires once, at its new time.",
      outside="install after delta / resume before the manager exists (both are refused by exception), recurring "
              "tasks before the manager exists, sequences longer than nops",
      stubs=STUBS, assumes=[EXACT])
def before_manager(d, ntasks, nops):
    w = World()
    # forget the manager World has just made: the operations below come before there is one
    taskmod._task_manager = None
    TaskManager._singleton_instance = None
    log = []
    tasks = _probes(ntasks, log, w)
    ref = RefScheduler(ntasks)
    used = 0
    trace = []
    n = d.int(0, nops, 'len')
    for k in range(nops):
        if k >= n:
            break
        op = d.pick(("at", "suspend"), 'op%d' % k)
        lbl = d.index(min(used + 1, ntasks), 'task%d' % k)
        if lbl == used:
            used += 1
        if op == "at":
            t = d.int(0, TMAX, 'at%d' % k)
            trace.append((op, lbl, t))
            tasks[lbl].install_task(when=t)
            ref.install(lbl, t)
        else:
            trace.append((op, lbl))
            try:
                tasks[lbl].suspend_task()
            except Exception:
                pass
            ref.suspend(lbl)
    d.note(ops=trace)
    w.tm = TaskManager()
    if log:
        raise Violation("fired-outside-loop", task=log[0][0])
    start = w.clock
    _drive(w, start + TMAX + 1, 4 * ntasks + 8)
    v = judge(ref, list(log), start, start + TMAX + 1)
    if v is not None:
        raise Violation(v[0], phase="before-manager", **v[1])
    d.reach()


# ------------------------------------------------------------------ recurring
TOL = 1.0e-6      # the jitter task.py itself adds; the suite's almost_equal uses the same


class _Tick(RecurringTask):
    def __init__(self, log, w):
        RecurringTask.__init__(self)
        self.log = log
        self.w = w

    def process_task(self):
        self.log.append(self.w.tm.get_time())


@meta(bounds="interval = 125 ms * m and offset = 125 ms * k, m in mlo..mhi (chosen per path, so that the solver "
             "sees linear arithmetic), 0 <= k < m (wide instances: k < 3m); installed at the instant j/8 s (j in 0..jmax); the real core.run "
             "then runs for h/8 s of virtual time, sleeping from firing to firing, h in 0..min(hmax, fmax*m) (at "
             "most fmax+1 firings); k, j, h symbolic integers; drive=direct polls get_next_task/process_task "
             "instead.  Oracle in integer eighths of a second: firing i happens at the i-th slot k + q*m that is "
             "strictly later than j, and the slot after the last firing lies beyond the horizon (none skipped, "
             "none duplicated, none early).  Fire times are compared with a tolerance of 1e-6 s (the jitter "
             "RecurringTask.install_task adds itself, and what the suite's almost_equal allows) because under "
             "plain binary64 replay the formula lands within an ulp of the slot; under the solver (real "
             "arithmetic) the firing is exactly on the slot.",
      outside="(reinstall=True: the task carried another symbolic offset from an earlier installation) "
              "intervals/offsets that are not multiples of 125 ms (non-representable binary fractions: smtk lemma), "
              "intervals above mhi/8 s, more than fmax+1 firings, installation within 1e-6 s before a slot, "
              "negative offsets, several recurring tasks at once",
      stubs=STUBS, assumes=[EXACT])
def recurring(d, mlo, mhi, jmax, hmax, fmax, drive="loop", reinstall=False, wide=False):
    w = World()
    log = []
    m = d.pick(range(mlo, mhi + 1), 'interval/125ms')
    # wide: offsets up to three intervals (an offset is a phase: the slots are offset + q * interval for every integer q)
    k = d.int(0, 3 * m - 1 if wide else m - 1, 'offset/125ms')
    j = d.int(0, jmax, 'install/125ms')
    h = d.int(0, min(hmax, fmax * m), 'horizon/125ms')
    w.clock = j / 8.0
    tick = _Tick(log, w)
    if reinstall:
        # the same task was installed before with another (symbolic) offset: re-installing moves it, and the
        # offset given now - zero included - governs
        k0 = d.int(0, m - 1, 'earlier_offset/125ms')
        tick.install_task(interval=125 * m, offset=125 * k0)
    tick.install_task(interval=125 * m, offset=125 * k)
    if log:
        raise Violation("fired-outside-loop", at=log[0])
    end = j + h
    limit = 3 * (fmax + 2) + 8
    if drive == "loop":
        w.run(until=end / 8.0, max_loops=limit)
    else:
        _drive(w, end / 8.0, limit)
    # reference, in eighths of a second: least slot strictly after the installation
    first = k + ((j - k) // m + 1) * m
    n = len(log)
    d.note(m=m, k=k, j=j, h=h, fired=list(log))
    for i in range(n):
        slot = first + i * m
        clk = log[i]
        lo = slot / 8.0 - TOL
        hi = slot / 8.0 + TOL
        if clk < lo:
            raise Violation("recurring-early-or-duplicate", i=i, at=clk, slot=slot / 8.0, m=m, k=k, j=j)
        if clk > hi:
            raise Violation("recurring-late-or-skipped", i=i, at=clk, slot=slot / 8.0, m=m, k=k, j=j)
    nxt = first + n * m
    if nxt <= end:
        raise Violation("recurring-missed", slot=nxt / 8.0, fired=n, m=m, k=k, j=j, h=h)
    d.reach()


# ------------------------------------------------------------------ deferred
class _Boom(Exception):
    pass


class _Due(OneShotTask):
    def __init__(self, body):
        OneShotTask.__init__(self)
        self.body = body

    def process_task(self):
        self.body()


@meta(bounds="a batch of nmin <= n <= nmax functions handed to core.deferred (n symbolic) and T <= tmax one-shot tasks due "
             "at the same instant (T symbolic), each function and each task with a symbolic `raises` flag and a "
             "symbolic `defers a further function` flag (the further function is handed to the queue before the "
             "exception is raised; further functions themselves neither raise nor defer): every subset of "
             "raisers, every subset of deferrers.  loop=run: the real core.run on the virtual clock, until it is "
             "idle.  loop=run_once: the real core.run_once; when nothing raised, one call has to do everything; "
             "when something raised it is called again (as tests/time_machine.py does) until nothing is left or "
             "2*nmax+tmax+2 calls were made, then once more (no second call of anything).  Oracle: the sequence of "
             "deferred calls equals the sequence of submissions (exactly once, FIFO); every task fired exactly "
             "once, in installation order.",
      outside="batches larger than nmax, more than tmax simultaneous tasks, further functions that raise or defer "
              "again, KeyboardInterrupt, threads",
      stubs=STUBS, assumes=[])
def deferred(d, loop, nmin, nmax, tmax, lead=None):
    w = World()
    submitted, called, fired, raised = [], [], [], []

    def submit(name, fn):
        submitted.append(name)
        core.deferred(fn)

    def member(name, raises, defers, record):
        def child():
            called.append(name + "'")

        def body():
            record.append(name)
            if defers:
                submit(name + "'", child)
            if raises:
                raised.append(name)
                raise _Boom(name)
        return body

    n = d.int(nmin, nmax, 'n')
    nt = d.int(0, tmax, 'tasks')
    fns = []
    for i in range(nmax):
        if i >= n:
            break
        if i == 0 and lead is not None:
            fns.append(("f0", lead[0], lead[1]))        # instance split: the flags of f0 are fixed
        else:
            fns.append(("f%d" % i, d.bool('raises%d' % i), d.bool('defers%d' % i)))
    tks = []
    for j in range(tmax):
        if j >= nt:
            break
        tks.append(("t%d" % j, d.bool('traises%d' % j), d.bool('tdefers%d' % j)))
    for name, r, f in fns:
        submit(name, member(name, r, f, called))
    for j, (name, r, f) in enumerate(tks):
        body = member(name, r, f, fired)
        # odd ones through the library's own wrapper (a OneShotDeleteTask)
        (FunctionTask(body) if j % 2 else _Due(body)).install_task(when=0)
    want_tasks = [name for name, _, _ in tks]

    def pending():
        return len(called) < len(submitted) or len(fired) < len(want_tasks)

    passes = 0
    if loop == "run":
        w.run(until=w.clock, max_loops=8 * (nmax + tmax) + 16)
    else:
        core.run_once()
        passes = 1
        if not raised and pending():
            # nothing raised, so nothing excuses work that is left behind by the pass
            raise Violation("left-after-one-pass", loop=loop, submitted=list(submitted),
                            called=list(called), tasks=want_tasks, fired=list(fired))
        while pending() and passes < 2 * nmax + tmax + 2:
            core.run_once()
            passes += 1
        core.run_once()
    d.note(submitted=list(submitted), called=list(called), fired=list(fired), raised=list(raised), passes=passes)
    # deferred calls: exactly once, in submission order
    for name in called:
        if called.count(name) > 1:
            raise Violation("deferred-called-twice", loop=loop, fn=name, called=list(called))
    if called != submitted[:len(called)] and sorted(called) == sorted(submitted):
        raise Violation("deferred-order", loop=loop, submitted=list(submitted), called=list(called))
    lost = [x for x in submitted if x not in called]
    if lost:
        before = [x for x in raised if x in submitted and submitted.index(x) < submitted.index(lost[0])]
        if before:
            # the defect this kind names: the functions queued behind a raising one are discarded
            raise Violation("deferred-batch-dropped", loop=loop, raiser=before[-1], ndropped=len(lost),
                            dropped=lost, submitted=list(submitted), called=list(called))
        raise Violation("deferred-not-called", loop=loop, lost=lost, submitted=list(submitted),
                        called=list(called), raised=list(raised))
    if called != submitted:
        raise Violation("deferred-order", loop=loop, submitted=list(submitted), called=list(called))
    # tasks due at that instant: each once, in installation order, whoever raised
    for name in fired:
        if fired.count(name) > 1:
            raise Violation("task-fired-twice", loop=loop, task=name, fired=list(fired))
    if fired != want_tasks:
        kind = "task-order" if sorted(fired) == sorted(want_tasks) else "due-task-not-run"
        raise Violation(kind, loop=loop, tasks=want_tasks, fired=list(fired), raised=list(raised))
    d.reach()


@meta(bounds="k calls handed to core.deferred with arguments: each call symbolically one of {plain function, the same bound "
             "method of one object} with a positional argument from {1, 2, [1]} (the list built afresh each time: equal, not "
             "identical) and an optional keyword argument - so equal (function, arguments) pairs are handed in repeatedly; "
             "loop = the real core.run on the virtual clock or core.run_once.  Oracle: the calls made, with the arguments "
             "received, equal the submissions in order - each submission is called exactly once, repeated or not",
      outside="more than k submissions; functions that raise (see `deferred`)",
      stubs=STUBS, assumes=[])
def deferred_repeat(d, loop, k):
    w = World()
    log = []

    def plain(*a, **kw):
        log.append(("plain", a, tuple(sorted(kw.items()))))

    class _Obj(object):
        def meth(self, *a, **kw):
            log.append(("meth", a, tuple(sorted(kw.items()))))
    o = _Obj()
    want = []
    for i in range(k):
        which = d.pick(["plain", "meth"], 'callable%d' % i)
        arg = d.pick([1, 2, "list"], 'arg%d' % i)
        a = ([1],) if arg == "list" else (arg,)
        kw = {"x": 7} if d.bool('keyword%d' % i) else {}
        core.deferred(plain if which == "plain" else o.meth, *a, **kw)
        want.append((which, a, tuple(sorted(kw.items()))))
    if loop == "run":
        w.run(until=w.clock, max_loops=4 * k + 8)
    else:
        core.run_once()
    if log != want:
        kind = "deferred-repeat-dropped" if len(log) < len(want) else "deferred-repeat-calls"
        raise Violation(kind, loop=loop, submitted=[(x[0], repr(x[1])) for x in want], called=[(x[0], repr(x[1])) for x in log])
    core.run_once()
    if log != want:
        raise Violation("deferred-called-again", loop=loop)
    d.reach()


# ------------------------------------------------------------------ installation just before a slot; times less than 1 ms apart
@meta(bounds="a recurring task of interval 125 ms * m (m in 1..4, offset 0) installed - or, reinstall=True, installed again - "
             "shortly BEFORE a slot: at slot - delta with delta from {100 ms, 10 ms, 0.5 ms, 50 us, 10 us} (chosen per path), slot "
             "index symbolic; it must fire at that very slot (the first one strictly after the installation) and at the "
             "next one",
      outside="installation closer than 10 us before a slot (RecurringTask.install_task itself skips a slot less than 1 us "
              "ahead; between 1 and 10 us plain binary64 arithmetic decides)",
      stubs=STUBS, assumes=["concrete deltas: the instants are not on the 1/8 s grid, plain float arithmetic on concrete values"])
def recurring_near_slot(d, reinstall=False):
    w = World()
    log = []
    m = d.pick([1, 2, 3, 4], 'interval/125ms')
    q = d.pick([1, 2, 5], 'slot_index')
    delta = d.pick([0.1, 0.01, 0.0005, 0.00005, 0.00001], 'ahead_of_slot')
    slot = q * m / 8.0
    tick = _Tick(log, w)
    if reinstall:
        w.clock = slot - m / 8.0 / 2
        tick.install_task(interval=125 * m)
    w.clock = slot - delta
    tick.install_task(interval=125 * m)
    w.run(until=slot + m / 8.0 + 0.01, max_loops=40)
    want = [slot, slot + m / 8.0]
    if len(log) != 2 or abs(log[0] - want[0]) > TOL or abs(log[1] - want[1]) > TOL:
        raise Violation("recurring-near-slot", installed_ahead=delta, interval=m / 8.0, fired=list(log), want=want,
                        reinstall=reinstall)
    d.reach()


@meta(bounds="two or three one-shot tasks whose due times lie 0, 0.4 or 0.8 ms apart (symbolic choice per task, around a base "
             "instant), installed in symbolic order; the real core.run on the virtual clock: every task fires exactly once, "
             "the scheduler's clock at that moment is not before the task's due time, and the firing order follows the "
             "due times (installation order among equals)",
      outside="more than three tasks; gaps other than multiples of 0.4 ms",
      stubs=STUBS, assumes=["concrete sub-millisecond offsets (plain float arithmetic on concrete values)"])
def sched_close(d, n):
    w = World()
    log = []
    base = 2.0
    tasks = []
    for i in range(n):
        off = d.pick([0.0, 0.0004, 0.0008], 'offset%d' % i)
        t = _Probe(log, w)
        t.label = i
        t.install_task(when=base + off)
        tasks.append((i, base + off))
    w.run(until=base + 1.0, max_loops=40)
    if sorted(x[0] for x in log) != list(range(n)):
        raise Violation("close-times-fired", fired=[x[0] for x in log], n=n)
    for (i, at) in log:
        due = tasks[i][1]
        if at < due - 1e-9:
            raise Violation("fired-early", task=i, due=due, clock=at, early_by=due - at)
    order = [x[0] for x in log]
    want = [i for (i, due) in sorted(tasks, key=lambda x: (x[1], x[0]))]
    if order != want:
        raise Violation("close-times-order", fired=order, want=want, due=[x[1] for x in tasks])
    d.reach()


class _Callable(object):
    def __init__(self, body):
        self.body = body

    def __call__(self, *a):
        return self.body(*a)


@meta(bounds="a batch of three deferred calls, each symbolically a plain function, a lambda, a bound method, a functools.partial "
             "or an instance with __call__, each with a symbolic `raises` flag; loop = core.run on the virtual clock or "
             "core.run_once (called again after an exception, as tests/time_machine.py does): every member is called exactly "
             "once, in submission order, whatever kind of callable raised",
      outside="batches longer than three; callables that defer further work (see `deferred`)",
      stubs=STUBS, assumes=[])
def deferred_kinds(d, loop):
    import functools
    w = World()
    called = []

    def body(i, raises):
        called.append(i)
        if raises:
            raise _Boom(i)

    class _O(object):
        def meth(self, i, raises):
            return body(i, raises)
    o = _O()
    kinds = []
    for i in range(3):
        kind = d.pick(["function", "lambda", "method", "partial", "instance"], 'kind%d' % i)
        raises = d.bool('raises%d' % i)
        kinds.append((kind, bool(raises)))
        if kind == "function":
            def fn(i=i, raises=raises):
                return body(i, raises)
            core.deferred(fn)
        elif kind == "lambda":
            core.deferred(lambda i=i, raises=raises: body(i, raises))
        elif kind == "method":
            core.deferred(o.meth, i, raises)
        elif kind == "partial":
            core.deferred(functools.partial(body, i, raises))
        else:
            core.deferred(_Callable(body), i, raises)
    if loop == "run":
        w.run(until=w.clock, max_loops=24)
    else:
        for _ in range(8):
            core.run_once()
    if called != [0, 1, 2]:
        raise Violation("deferred-kinds", loop=loop, kinds=kinds, called=list(called))
    d.reach()


class _Rearm(OneShotTask):
    """a one-shot task that installs itself again from inside its own callback, once"""

    def __init__(self, log, w, gap):
        OneShotTask.__init__(self)
        self.log, self.w, self.gap, self.rearmed = log, w, gap, False

    def process_task(self):
        self.log.append(self.w.tm.get_time())
        if not self.rearmed:
            self.rearmed = True
            self.install_task(when=self.w.tm.get_time() + self.gap)


@meta(bounds="a one-shot task due at 1 s whose callback installs it again `gap` seconds later (gap symbolic 1..4); after the first "
             "firing, at a symbolic instant before the second is due, the application does one of: nothing / installs it for "
             "another (symbolic) time / cancels it with the library's own idiom `if task.isScheduled: task.suspend_task()` / "
             "calls suspend_task outright; the firings afterwards are exactly what that leaves: the re-armed time, the new "
             "time only (moved, not duplicated), or none",
      outside="tasks that re-arm themselves more than once; recurring tasks (they re-install themselves by design: `recurring`)",
      stubs=STUBS, assumes=[EXACT])
def self_rearm(d):
    w = World()
    log = []
    gap = d.int(1, 4, 'gap')
    t = _Rearm(log, w, gap)
    t.install_task(when=1.0)
    w.run(until=1.0, max_loops=20)
    if log != [1.0]:
        raise Violation("rearm-first-firing", fired=list(log))
    op = d.pick(["none", "reinstall", "guarded-suspend", "suspend"], 'op')
    want = [1.0]
    if op == "none":
        want.append(1.0 + gap)
    elif op == "reinstall":
        x = d.int(2, 7, 'new_time')
        t.install_task(when=float(x))
        want.append(float(x))
    elif op == "guarded-suspend":
        if t.isScheduled:
            t.suspend_task()
    else:
        t.suspend_task()
    w.run(until=9.0, max_loops=40)
    if log != want:
        raise Violation("rearm-firings", op=op, gap=gap, fired=list(log), want=want)
    d.reach()


@meta(bounds="a batch of three deferred functions one of which (symbolic position) calls core.stop(), handed to the queue before the "
             "real core.run is started on the virtual clock: every function of the batch is called exactly once, in order, the "
             "loop ends; a function deferred BY one of them (symbolic) is not lost either - it is called by this run or by the "
             "next one",
      outside="stop() from a task or a signal handler",
      stubs=STUBS, assumes=[])
def deferred_stop(d):
    w = World()
    called = []
    at = d.index(3, 'stopper')
    child_of = d.pick([None, 0, 1, 2], 'defers_a_child')

    def member(i):
        def body():
            called.append(i)
            if child_of == i:
                core.deferred(called.append, "child")
            if i == at:
                core.stop()
        return body
    for i in range(3):
        core.deferred(member(i))
    w.run(until=w.clock, max_loops=12)
    if [x for x in called if x != "child"] != [0, 1, 2]:
        raise Violation("deferred-lost-after-stop", stopper=at, called=list(called))
    w.run(until=w.clock, max_loops=12)
    want = [0, 1, 2] + (["child"] if child_of is not None else [])
    if sorted(map(str, called)) != sorted(map(str, want)):
        raise Violation("deferred-child-lost-after-stop", stopper=at, child_of=child_of, called=list(called))
    d.reach()


def _prefixes(k):
    out = [[]]
    for _ in range(k):
        out = [p + [o] for p in out for o in OPS]
    return out


# opcode shapes beyond the exhaustive length (tasks and instants stay symbolic); True = also in quick
SHAPES = [
    (["at", "at", "at", "suspend"], True),              # removal from a schedule of three keeps the order
    (["at", "at", "at", "at"], True),                   # four-way collisions, re-installs among three pending
    (["at", "suspend", "resume", "advance"], True),     # resume after suspend, then time moves
    (["at", "advance", "suspend", "at"], True),         # suspend of an already-fired task, new installation
    (["after", "advance", "at", "advance"], True),      # installation in the past / future once time moved
    (["at", "at", "suspend", "resume", "advance"], True),
    (["at", "at", "at", "suspend", "suspend"], True),
    (["at", "at", "at", "suspend", "resume"], True),
    (["at", "at", "advance", "at", "advance"], True),
    (["at", "after", "advance", "after", "advance"], True),
    (["at", "at", "suspend", "advance", "resume", "advance"], True),
    (["at", "advance", "at", "advance", "at", "advance"], True),
    (["after", "suspend", "advance", "resume", "suspend", "advance"], True),
    (["at", "at", "at", "at", "suspend"], False),
    (["at", "at", "at", "advance", "at"], False),
    (["at", "at", "at", "suspend", "at", "advance"], False),
    (["at", "at", "at", "at", "advance", "suspend"], False),
    (["at", "at", "suspend", "at", "resume", "advance"], False),
]


def instances(tier):
    q = tier == "quick"
    out = []
    nops, plen = (3, 1) if q else (4, 2)
    for drive in ("loop", "direct"):
        for pre in _prefixes(plen):
            out.append(Inst(sched_ops, dict(ntasks=4, nops=nops, drive=drive, pre=pre),
                            budget=90 if q else 900,
                            label="%s,all<=%d:%s" % (drive, nops, "-".join(pre))))
        out.append(Inst(sched_ops, dict(ntasks=4, nops=plen - 1, drive=drive, pre=[], short=True),
                        budget=60, label="%s,all<=%d" % (drive, plen - 1)))
    for i, (shape, in_quick) in enumerate(SHAPES):
        if q and not in_quick:
            continue
        for drive in (("loop", "direct")[i % 2],) if q else ("loop", "direct"):
            out.append(Inst(sched_ops, dict(ntasks=4, nops=len(shape), drive=drive, pre=shape),
                            budget=120 if q else 900, label="%s,shape:%s" % (drive, "-".join(shape))))
    out.append(Inst(before_manager, dict(ntasks=3, nops=4 if q else 5), budget=90 if q else 900))
    for drive in ("loop", "direct"):
        if q:
            out.append(Inst(recurring, dict(mlo=1, mhi=8, jmax=16, hmax=16, fmax=8, drive=drive),
                            budget=90, path_timeout=120))
        else:
            for mlo, mhi in ((1, 2), (3, 6), (7, 16)):
                out.append(Inst(recurring, dict(mlo=mlo, mhi=mhi, jmax=32, hmax=32, fmax=12, drive=drive),
                                budget=900, path_timeout=300))
    out.append(Inst(recurring, dict(mlo=2, mhi=4 if q else 8, jmax=8, hmax=8, fmax=4, drive="loop", reinstall=True),
                    budget=90 if q else 600, path_timeout=120, label="reinstall"))
    for re_ in (False, True):
        out.append(Inst(recurring_near_slot, dict(reinstall=re_), budget=90, label="reinstall" if re_ else "install"))
    out.append(Inst(self_rearm, {}, budget=90))
    out.append(Inst(deferred_stop, {}, budget=90))
    out.append(Inst(recurring, dict(mlo=1, mhi=4 if q else 8, jmax=8, hmax=12, fmax=6, drive="loop", wide=True),
                    budget=120 if q else 600, path_timeout=120, label="wide offsets"))
    out.append(Inst(sched_close, dict(n=2 if q else 3), budget=90 if q else 300))
    if q:
        out.append(Inst(sched_close, dict(n=3), budget=120))
    for loop in ("run", "run_once"):
        if q:
            out.append(Inst(deferred, dict(loop=loop, nmin=0, nmax=3, tmax=2), budget=90))
            out.append(Inst(deferred_repeat, dict(loop=loop, k=3), budget=90))
            out.append(Inst(deferred_kinds, dict(loop=loop), budget=90))
            out.append(Inst(deferred, dict(loop=loop, nmin=4, nmax=4, tmax=2), budget=120))
        else:
            out.append(Inst(deferred, dict(loop=loop, nmin=0, nmax=3, tmax=3), budget=600))
            out.append(Inst(deferred_repeat, dict(loop=loop, k=4), budget=600))
            out.append(Inst(deferred_kinds, dict(loop=loop), budget=300))
            out.append(Inst(deferred, dict(loop=loop, nmin=4, nmax=4, tmax=2), budget=600))
            out.append(Inst(deferred, dict(loop=loop, nmin=5, nmax=5, tmax=2), budget=900))
            for r0 in (False, True):
                for f0 in (False, True):
                    out.append(Inst(deferred, dict(loop=loop, nmin=6, nmax=6, tmax=2, lead=[r0, f0]),
                                    budget=900))
    return out
