"""C20 - A schedule shows the value its calendar dictates at every instant, never stale."""
from ..api import Inst, Violation, HarnessError, meta
from ..ref import C20_dates as R

from bacpypes.basetypes import CalendarEntry, DateRange
from bacpypes.local import schedule as S

_bad = R.selftest()
if _bad:
    raise HarnessError("C20 reference calendar disagrees with datetime: %r" % (_bad,))


# ====================================================================== date matchers
def draw_date(d, p=''):
    """every calendar day 1900-01-01 .. 2154-12-31 as a bacpypes date tuple; the day of
    week is tied to the date by the reference ordinal formula"""
    y = d.int(0, 254, p + 'year')
    m = d.int(1, 12, p + 'month')
    day = d.int(1, 31, p + 'day')
    d.assume(day <= R.month_len(y + 1900, m))
    return (y, m, day, R.day_of_week(y + 1900, m, day))


def draw_date_pattern(d):
    yp = d.int(0, 255, 'year_p')
    mp = d.int(0, 255, 'month_p')
    dp = d.int(0, 255, 'day_p')
    wp = d.int(0, 255, 'dow_p')
    d.assume(R.month_code_ok(mp))
    d.assume(R.day_code_ok(dp))
    d.assume(R.dow_code_ok(wp))
    return (yp, mp, dp, wp)


def draw_range_end(d, p):
    """a range limit: wholly unspecified, or a specific valid date whose day-of-week octet
    is the right one or X'FF'"""
    if d.bool(p + '_unspecified'):
        return R.UNSPECIFIED
    y, m, day, dow = draw_date(d, p + '_')
    if d.bool(p + '_dow_any'):
        dow = 255
    return (y, m, day, dow)


def draw_weeknday(d):
    wnd = d.bytes(3, name='weeknday')
    d.assume(R.month_code_ok(wnd[0]))
    d.assume(R.week_code_ok(wnd[1]))
    d.assume(R.dow_code_ok(wnd[2]))
    return wnd


DATE_BOUNDS = ("date: every calendar day 1900-01-01..2154-12-31 (year, month, day symbolic; day of week = "
               "reference ordinal formula of the date)")
DATE_OUTSIDE = ("pattern octets that are not code points of clause 20.2.12 / 21 (month 0, 15..254; day 0, 35..254; "
                "day of week 0, 8..254; week of month 0, 10..254); dates whose day-of-week octet contradicts the date")


@meta(bounds=DATE_BOUNDS + "; pattern: year octet 0..255, month in {1..14, 255}, day in {1..34, 255}, "
             "day of week in {1..7, 255}, all symbolic",
      outside=DATE_OUTSIDE, stubs=[], assumes=[])
def match_date(d):
    date = draw_date(d)
    pat = draw_date_pattern(d)
    got = S.match_date(date, pat)
    want = R.match_date(date, pat)
    if bool(got) != want:
        raise Violation("match-date", date=date, pattern=pat, got=got, want=want)
    d.reach()


@meta(bounds=DATE_BOUNDS + "; weekNDay: three symbolic octets, month in {1..14, 255}, week of month in {1..9, 255}, "
             "day of week in {1..7, 255}",
      outside=DATE_OUTSIDE, stubs=[], assumes=[])
def match_weeknday(d):
    date = draw_date(d)
    wnd = draw_weeknday(d)
    got = S.match_weeknday(date, wnd)
    want = R.match_weeknday(date, (wnd[0], wnd[1], wnd[2]))
    if bool(got) != want:
        raise Violation("match-weeknday", date=date, weeknday=bytes(wnd), got=got, want=want)
    d.reach()


def _range_verdict(d, date, start, end, got, kind):
    want = R.match_date_range(date, start, end)
    if bool(got) != want:
        # d.flag: an open (known) finding on open-ended ranges must not hide the rest
        open_ended = R.is_unspecified(start) or R.is_unspecified(end)
        d.flag(True, "date-range-open-ended" if open_ended else kind,
               start_unspecified=R.is_unspecified(start), end_unspecified=R.is_unspecified(end),
               date=date, start=start, end=end, got=got, want=want)


@meta(bounds=DATE_BOUNDS + "; start and end date each either wholly unspecified (FF FF FF FF) or any specific "
             "calendar day 1900..2154 (symbolic) with its day-of-week octet right or FF; start > end included "
             "(empty range)",
      outside="range limits with some but not all octets unspecified; " + DATE_OUTSIDE, stubs=[], assumes=[])
def match_date_range(d):
    date = draw_date(d)
    start = draw_range_end(d, 'start')
    end = draw_range_end(d, 'end')
    got = S.match_date_range(date, DateRange(startDate=start, endDate=end))
    _range_verdict(d, date, start, end, got, "match-date-range")
    d.reach()


@meta(bounds="as match_date / match_date_range / match_weeknday, the pattern wrapped in a BACnetCalendarEntry "
             "of the given choice",
      outside=DATE_OUTSIDE, stubs=[], assumes=[])
def calendar_entry(d, choice):
    date = draw_date(d)
    if choice == 'date':
        pat = draw_date_pattern(d)
        got = S.date_in_calendar_entry(date, CalendarEntry(date=pat))
        want = R.match_date(date, pat)
        if bool(got) != want:
            raise Violation("calendar-entry-date", date=date, pattern=pat, got=got, want=want)
    elif choice == 'dateRange':
        start = draw_range_end(d, 'start')
        end = draw_range_end(d, 'end')
        got = S.date_in_calendar_entry(date, CalendarEntry(dateRange=DateRange(startDate=start, endDate=end)))
        _range_verdict(d, date, start, end, got, "calendar-entry-range")
    else:
        wnd = draw_weeknday(d)
        got = S.date_in_calendar_entry(date, CalendarEntry(weekNDay=wnd))
        want = R.match_weeknday(date, (wnd[0], wnd[1], wnd[2]))
        if bool(got) != want:
            raise Violation("calendar-entry-weeknday", date=date, weeknday=bytes(wnd), got=got, want=want)
    d.reach()


def instances(tier):
    q = tier == "quick"
    out = []
    out.append(Inst(match_date, {}, budget=120 if q else 300))
    out.append(Inst(match_weeknday, {}, budget=120 if q else 300))
    out.append(Inst(match_date_range, {}, budget=120 if q else 300))
    for c in ('date', 'dateRange', 'weekNDay'):
        out.append(Inst(calendar_entry, dict(choice=c), budget=120 if q else 300))
    return out
